----------------------------- MODULE WriteSched -----------------------------
(* HTTP/2 write schedulers (golang.org/x/net/http2 writesched*.go).               *)
(*                                                                                 *)
(* Abstract state: per-stream FIFO queues of frames, one control FIFO, the         *)
(* stream and connection send windows and the maximum frame size; plus the order   *)
(* state of the two deterministic policies (round robin ring; RFC 9218 rings per   *)
(* (urgency, incremental), toggle and the one-slot buffered priority update).      *)
(*                                                                                 *)
(* Two Pop actions are specified:                                                  *)
(*   PopAny     what C12 allows: the head of the control queue, else the head of   *)
(*              ANY stream queue whose head is sendable, DATA split to fit.        *)
(*   PopPolicy  what the round-robin / RFC 9218 code computes (ring walks).        *)
(* TLC checks that PopPolicy refines PopAny and satisfies C13; recorded traces of  *)
(* the real schedulers are judged against PopAny (+ the C13 ghosts), so a change   *)
(* of tie-breaking that keeps the properties is not an alarm.                      *)
EXTENDS Integers, Sequences, FiniteSets, TLC

CONSTANTS Streams,      \* stream identifiers (positive integers)
          Policies,     \* subset of {"rr", "rfc9218", "random", "rfc7540"} explored
          MaxFrames,    \* bound on the number of pushes (model checking only)
          MaxData,      \* bound on DATA sizes
          MaxWin,       \* bound on window magnitudes
          MaxMF,        \* max frame size values 1..MaxMF
          NegWin,       \* 1: SetWin may drive a stream window to -1 (SETTINGS shrink), 0: not
          Urg           \* urgencies used by the model's Open/Adjust

VARIABLES policy, open, ever, q, ctl, win, cwin, mf, nextId,
          ring, rings, prio, toggle, pbuf,
          last,          \* result of the latest Pop: NoPop | Nothing | a frame piece
          wait, cur0, urgOK, runOK   \* ghosts for C13

vars == <<policy, open, ever, q, ctl, win, cwin, mf, nextId, ring, rings, prio, toggle, pbuf,
          last, wait, cur0, urgOK, runOK>>

(* VIEW for model checking: the Pop result is an output, not state. *)
viewNoLast == <<policy, open, ever, q, ctl, win, cwin, mf, nextId, ring, rings, prio, toggle, pbuf,
                wait, cur0, urgOK, runOK>>

NoPop   == [kind |-> "nopop"]
Nothing == [kind |-> "nothing"]
NoBuf   == [sid |-> 0, u |-> 0, i |-> 0]
Pairs   == (0..7) \X (0..1)
DefaultPrio == [u |-> 3, i |-> 0]

Min2(a, b) == IF a < b THEN a ELSE b
SeqMin(S) == CHOOSE x \in S : \A y \in S : x <= y

Avail(s)    == Min2(win[s], cwin)
Sendable(f) == f.kind # "d" \/ f.size = 0 \/ Avail(f.sid) > 0
Take(f)     == IF f.kind = "d" /\ f.size > 0 THEN Min2(f.size, Min2(Avail(f.sid), mf)) ELSE 0
Consumable(s)  == q[s] # <<>> /\ Sendable(Head(q[s]))
ConsumableIn(qq, w, cw, s) ==
    qq[s] # <<>> /\ (Head(qq[s]).kind # "d" \/ Head(qq[s]).size = 0 \/ Min2(w[s], cw) > 0)

Remove(seq, x) == SelectSeq(seq, LAMBDA y : y # x)
Rotate(seq, k) == SubSeq(seq, k, Len(seq)) \o SubSeq(seq, 1, k - 1)
Deterministic  == policy \in {"rr", "rfc9218"}

TypeOK ==
    /\ policy \in Policies
    /\ open \subseteq Streams /\ ever \subseteq Streams /\ open \subseteq ever
    /\ cwin \in 0..MaxWin /\ mf \in 1..MaxMF
    /\ \A s \in Streams : win[s] \in (0 - MaxWin)..MaxWin
    /\ \A s \in Streams \ open : q[s] = <<>>

InitWith(pol, m, cw) ==
    /\ policy = pol
    /\ open = {} /\ ever = {} /\ q = [s \in Streams |-> <<>>] /\ ctl = <<>>
    /\ win = [s \in Streams |-> 0] /\ cwin = cw /\ mf = m /\ nextId = 1
    /\ ring = <<>> /\ rings = [p \in Pairs |-> <<>>]
    /\ prio = [s \in Streams |-> DefaultPrio] /\ toggle = FALSE /\ pbuf = NoBuf
    /\ last = NoPop
    /\ wait = [s \in Streams |-> 0] /\ cur0 = [u \in 0..7 |-> 0] /\ urgOK = TRUE /\ runOK = TRUE

Init == \E pol \in Policies : InitWith(pol, 1, 0)

(* Ghost bookkeeping shared by every non-Pop action: a stream that is not sendable *)
(* after the step is not "waiting".                                                *)
KeepWait(qq, w, cw, reset) ==
    wait' = [x \in Streams |-> IF x \in reset \/ ~ConsumableIn(qq, w, cw, x) THEN 0 ELSE wait[x]]

-----------------------------------------------------------------------------
(* OpenStream(s, options).  A stream id is opened at most once (contract).         *)
Open(s, p0, w) ==
    /\ s \notin ever
    /\ LET p == IF policy = "rfc9218" /\ pbuf.sid = s THEN [u |-> pbuf.u, i |-> pbuf.i] ELSE p0 IN
       /\ open' = open \cup {s} /\ ever' = ever \cup {s}
       /\ win' = [win EXCEPT ![s] = w]
       /\ prio' = [prio EXCEPT ![s] = p]
       /\ pbuf' = IF policy = "rfc9218" /\ pbuf.sid = s THEN NoBuf ELSE pbuf
       /\ ring' = IF policy = "rr" THEN Append(ring, s) ELSE ring
       /\ rings' = IF policy = "rfc9218" THEN [rings EXCEPT ![<<p.u, p.i>>] = Append(@, s)] ELSE rings
    /\ last' = NoPop
    /\ KeepWait(q, win', cwin, {s})
    /\ UNCHANGED <<policy, q, ctl, cwin, mf, nextId, toggle, cur0, urgOK, runOK>>

(* CloseStream(s): the only place where queued frames may disappear.               *)
Close(s) ==
    /\ s \in open
    /\ open' = open \ {s}
    /\ q' = [q EXCEPT ![s] = <<>>]
    /\ ring' = IF policy = "rr" THEN Remove(ring, s) ELSE ring
    /\ rings' = IF policy = "rfc9218" THEN [rings EXCEPT ![<<prio[s].u, prio[s].i>>] = Remove(@, s)] ELSE rings
    /\ cur0' = [u \in 0..7 |-> IF cur0[u] = s THEN 0 ELSE cur0[u]]
    /\ last' = NoPop
    /\ KeepWait(q', win, cwin, {s})
    /\ UNCHANGED <<policy, ever, ctl, win, cwin, mf, nextId, prio, toggle, pbuf, urgOK, runOK>>

(* AdjustStream(s, p): only the RFC 9218 policy has priority state that C13 talks   *)
(* about.  On a stream that is not open it overwrites the one-slot buffer.          *)
Adjust(s, p) ==
    /\ IF policy # "rfc9218" THEN UNCHANGED <<rings, prio, pbuf, cur0>>
       ELSE IF s \notin open
            THEN /\ pbuf' = [sid |-> s, u |-> p.u, i |-> p.i]
                 /\ UNCHANGED <<rings, prio, cur0>>
            ELSE /\ LET r1 == [rings EXCEPT ![<<prio[s].u, prio[s].i>>] = Remove(@, s)] IN
                    rings' = [r1 EXCEPT ![<<p.u, p.i>>] = Append(@, s)]
                 /\ prio' = [prio EXCEPT ![s] = p]
                 /\ cur0' = [u \in 0..7 |-> IF cur0[u] = s THEN 0 ELSE cur0[u]]
                 /\ pbuf' = pbuf
    /\ last' = NoPop
    /\ KeepWait(q, win, cwin, {s})
    /\ UNCHANGED <<policy, open, ever, q, ctl, win, cwin, mf, nextId, ring, toggle, urgOK, runOK>>

(* Push(frame).  Control frames have sid = 0; stream frames require an open stream. *)
Push(f) ==
    /\ IF f.kind = "c"
       THEN ctl' = Append(ctl, f) /\ q' = q
       ELSE f.sid \in open /\ q' = [q EXCEPT ![f.sid] = Append(@, f)] /\ ctl' = ctl
    /\ nextId' = nextId + 1
    /\ last' = NoPop
    /\ KeepWait(q', win, cwin, {})
    /\ UNCHANGED <<policy, open, ever, win, cwin, mf, ring, rings, prio, toggle, pbuf, cur0, urgOK, runOK>>

(* Environment: flow-control windows and SETTINGS_MAX_FRAME_SIZE change.            *)
SetWin(s, w) ==
    /\ s \in open /\ win' = [win EXCEPT ![s] = w]
    /\ last' = NoPop /\ KeepWait(q, win', cwin, {})
    /\ UNCHANGED <<policy, open, ever, q, ctl, cwin, mf, nextId, ring, rings, prio, toggle, pbuf, cur0, urgOK, runOK>>
SetCWin(w) ==
    /\ cwin' = w
    /\ last' = NoPop /\ KeepWait(q, win, cwin', {})
    /\ UNCHANGED <<policy, open, ever, q, ctl, win, mf, nextId, ring, rings, prio, toggle, pbuf, cur0, urgOK, runOK>>
SetMF(m) ==
    /\ mf' = m /\ last' = NoPop
    /\ UNCHANGED <<policy, open, ever, q, ctl, win, cwin, nextId, ring, rings, prio, toggle, pbuf, wait, cur0, urgOK, runOK>>

-----------------------------------------------------------------------------
(* Pop.                                                                             *)
PopCtl ==
    /\ ctl # <<>>
    /\ last' = Head(ctl) /\ ctl' = Tail(ctl)
    /\ UNCHANGED <<policy, open, ever, q, win, cwin, mf, nextId, ring, rings, prio, toggle, pbuf, wait, cur0, urgOK, runOK>>

PopNothing ==
    /\ ctl = <<>> /\ \A s \in Streams : ~Consumable(s)
    /\ last' = Nothing
    /\ toggle' = IF policy = "rfc9218" THEN ~toggle ELSE toggle
    /\ wait' = [x \in Streams |-> 0]
    /\ UNCHANGED <<policy, open, ever, q, ctl, win, cwin, mf, nextId, ring, rings, prio, pbuf, cur0, urgOK, runOK>>

(* Queue/window effect of popping n bytes (n = 0 for non-DATA) from the head of s.  *)
TakeFrom(s, n) ==
    LET f == Head(q[s]) IN
    /\ IF f.kind = "d" /\ n < f.size
       THEN /\ last' = [f EXCEPT !.size = n, !.es = FALSE, !.fin = FALSE]
            /\ q' = [q EXCEPT ![s] = <<[f EXCEPT !.size = f.size - n, !.off = f.off + n]>> \o Tail(@)]
       ELSE /\ last' = f
            /\ q' = [q EXCEPT ![s] = Tail(@)]
    /\ win' = [win EXCEPT ![s] = @ - n]
    /\ cwin' = cwin - n

(* C13 ghosts, updated on every Pop that returns a frame of stream s.               *)
Ghosts9218(s) ==
    LET u == prio[s].u IN
    /\ urgOK' = (urgOK /\ \A x \in Streams : Consumable(x) => prio[x].u >= u)
    /\ runOK' = (runOK /\ (prio[s].i = 0 /\ cur0[u] # 0 /\ cur0[u] # s => ~Consumable(cur0[u])))
    /\ cur0' = IF prio[s].i = 0 THEN [cur0 EXCEPT ![u] = s] ELSE cur0
    /\ wait' = [x \in Streams |->
                  IF x # s /\ prio[x].u = u /\ prio[x].i = 1 /\ Consumable(x) /\ ConsumableIn(q', win', cwin', x)
                  THEN wait[x] + 1 ELSE 0]

GhostsOther == UNCHANGED <<wait, cur0, urgOK, runOK>>

(* What C12 allows for any scheduler (the order state of the policy is left free). *)
PopCore(s, n) ==
    /\ ctl = <<>> /\ Consumable(s)
    /\ LET f == Head(q[s]) IN
       IF f.kind = "d" /\ f.size > 0 THEN n \in 1..Take(f) ELSE n = 0
    /\ TakeFrom(s, n)
    /\ IF policy = "rfc9218" THEN Ghosts9218(s) ELSE GhostsOther
    /\ UNCHANGED <<policy, open, ever, ctl, mf, nextId, prio, pbuf>>

PopAny(s, n) == PopCore(s, n) /\ UNCHANGED <<ring, rings, toggle>>

(* First position in a ring (head first) whose stream can be consumed; 0 if none.   *)
FirstIn(seq) ==
    LET K == {k \in 1..Len(seq) : Consumable(seq[k])} IN IF K = {} THEN 0 ELSE SeqMin(K)

(* Round robin: walk from the head, the stream after the chosen one becomes head.   *)
PopRR ==
    /\ policy = "rr" /\ ctl = <<>> /\ FirstIn(ring) # 0
    /\ LET k == FirstIn(ring) s == ring[k] IN
       /\ TakeFrom(s, Take(Head(q[s])))
       /\ ring' = Rotate(ring, (k % Len(ring)) + 1)
    /\ GhostsOther
    /\ UNCHANGED <<policy, open, ever, ctl, mf, nextId, rings, prio, toggle, pbuf>>

(* RFC 9218: flip the toggle, visit urgencies in ascending order and, within an     *)
(* urgency, the incremental ring first iff the toggle is now set; the chosen        *)
(* non-incremental stream stays head, the incremental ring advances past it.        *)
VisitOrder(tg) == [k \in 1..16 |-> LET u == (k - 1) \div 2  j == (k - 1) % 2 IN <<u, IF tg THEN 1 - j ELSE j>>]
Pop9218 ==
    /\ policy = "rfc9218" /\ ctl = <<>>
    /\ LET vo == VisitOrder(~toggle)
           K  == {k \in 1..16 : FirstIn(rings[vo[k]]) # 0} IN
       /\ K # {}
       /\ LET pr == vo[SeqMin(K)]  pos == FirstIn(rings[pr])  s == rings[pr][pos] IN
          /\ TakeFrom(s, Take(Head(q[s])))
          /\ rings' = [rings EXCEPT ![pr] = IF pr[2] = 1 THEN Rotate(@, (pos % Len(@)) + 1) ELSE Rotate(@, pos)]
          /\ Ghosts9218(s)
    /\ toggle' = ~toggle
    /\ UNCHANGED <<policy, open, ever, ctl, mf, nextId, ring, prio, pbuf>>

PopPolicy ==
    \/ PopRR
    \/ Pop9218
    \/ ~Deterministic /\ \E s \in {x \in Streams : Consumable(x)} : PopAny(s, Take(Head(q[s])))

Pop == PopCtl \/ PopNothing \/ PopPolicy

-----------------------------------------------------------------------------
PrioSet == {[u |-> u, i |-> i] : u \in Urg, i \in 0..1}

Next ==
    \/ \E s \in Streams, p \in PrioSet, w \in 0..MaxWin : Open(s, p, w)
    \/ \E s \in Streams : Close(s)
    \/ \E s \in Streams, p \in PrioSet : policy = "rfc9218" /\ Adjust(s, p)
    \/ /\ nextId <= MaxFrames
       /\ \/ Push([id |-> nextId, sid |-> 0, kind |-> "c", size |-> 0, es |-> FALSE, off |-> 0, fin |-> TRUE])
          \/ \E s \in open : Push([id |-> nextId, sid |-> s, kind |-> "h", size |-> 0, es |-> FALSE, off |-> 0, fin |-> TRUE])
          \/ \E s \in open, n \in 0..MaxData, e \in BOOLEAN :
                Push([id |-> nextId, sid |-> s, kind |-> "d", size |-> n, es |-> e, off |-> 0, fin |-> TRUE])
    \/ \E s \in open, w \in (0 - NegWin)..MaxWin : SetWin(s, w)
    \/ \E w \in 0..MaxWin : SetCWin(w)
    \/ \E m \in 1..MaxMF : SetMF(m)
    \/ Pop

Spec == Init /\ [][Next]_vars

-----------------------------------------------------------------------------
(* Properties.                                                                      *)

(* C12: a Pop that returns nothing means no queued frame is sendable (this is       *)
(* PopNothing's guard); conversely the policy's ring walk must not get stuck while  *)
(* something is sendable:                                                           *)
NoStuckPop == (ctl # <<>> \/ \E s \in Streams : Consumable(s)) => ENABLED (PopCtl \/ PopPolicy)

(* C12: every policy step is a step C12 allows.                                     *)
PolicyRefinesAny == [][PopPolicy => \E s \in Streams, n \in 0..MaxData : PopCore(s, n)]_vars

(* C12: control frames first.                                                       *)
ControlFirst == [][ctl # <<>> /\ last' \notin {NoPop} => last' = Head(ctl)]_vars

(* C12: a returned frame is never empty.                                            *)
NeverEmpty == last \in {NoPop, Nothing} \/ last.kind \in {"c", "h", "d"}

(* C12: windows are never overdrawn by Pop.                                         *)
WindowsRespected == [][last' # NoPop => cwin' >= 0 /\ \A s \in Streams : win'[s] >= Min2(win[s], 0)]_vars

(* C13.                                                                             *)
UrgencyOrder    == urgOK
RunToCompletion == runOK
BoundedWait     == \A x \in Streams : wait[x] <= 2 * Cardinality(ever)
RingsConsistent ==
    policy = "rfc9218" =>
       \A s \in Streams : \A p \in Pairs :
          (\E k \in 1..Len(rings[p]) : rings[p][k] = s) <=> (s \in open /\ p = <<prio[s].u, prio[s].i>>)
=============================================================================
