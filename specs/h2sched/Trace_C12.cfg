SPECIFICATION TSpec
CONSTANTS
  Streams = {1, 2, 3, 4, 5, 6, 7, 8, 9, 10, 11, 12, 13, 14, 15, 16, 17, 18, 19, 20, 21, 22, 23, 24, 25, 26, 27, 28, 29, 30, 31, 32, 33, 34, 35, 36, 37, 38, 39, 40}
  Policies = {"rr", "rfc9218", "random", "rfc7540"}
  MaxFrames = 0
  MaxData = 0
  MaxWin = 0
  MaxMF = 0
  NegWin = 0
  Urg = {}
INVARIANTS NeverEmpty
CONSTRAINT Mark
POSTCONDITION AllConsumed
CHECK_DEADLOCK FALSE
