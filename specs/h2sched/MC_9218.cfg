SPECIFICATION Spec
CONSTANTS
  Streams = {1, 2}
  Policies = {"rfc9218"}
  MaxFrames = 3
  MaxData = 1
  MaxWin = 1
  MaxMF = 1
  NegWin = 0
  Urg = {0, 3}
INVARIANTS TypeOK NoStuckPop UrgencyOrder RunToCompletion BoundedWait RingsConsistent
PROPERTIES PolicyRefinesAny ControlFirst WindowsRespected
CHECK_DEADLOCK FALSE
VIEW viewNoLast
