SPECIFICATION Spec
CONSTANTS
  Streams = {1, 2}
  Policies = {"rfc9218"}
  MaxFrames = 3
  MaxData = 2
  MaxWin = 2
  MaxMF = 2
  NegWin = 1
  Urg = {0, 3}
INVARIANTS TypeOK NoStuckPop UrgencyOrder RunToCompletion BoundedWait RingsConsistent
PROPERTIES PolicyRefinesAny ControlFirst WindowsRespected
CHECK_DEADLOCK FALSE
VIEW viewNoLast
