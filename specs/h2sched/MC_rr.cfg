SPECIFICATION Spec
CONSTANTS
  Streams = {1, 2}
  Policies = {"rr", "random"}
  MaxFrames = 3
  MaxData = 2
  MaxWin = 2
  MaxMF = 2
  NegWin = 1
  Urg = {3}
INVARIANTS TypeOK NoStuckPop
PROPERTIES PolicyRefinesAny ControlFirst WindowsRespected
CHECK_DEADLOCK FALSE
VIEW viewNoLast
