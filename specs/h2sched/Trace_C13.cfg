SPECIFICATION TSpec
CONSTANTS
  Streams = {1, 2, 3, 4, 5, 6, 7, 8}
  Policies = {"rr", "rfc9218", "random", "rfc7540"}
  MaxFrames = 0
  MaxData = 0
  MaxWin = 0
  MaxMF = 0
  NegWin = 0
  Urg = {}
INVARIANTS UrgencyOrder RunToCompletion BoundedWait
CONSTRAINT Mark
POSTCONDITION AllConsumed
CHECK_DEADLOCK FALSE
