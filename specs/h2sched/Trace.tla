------------------------------- MODULE Trace -------------------------------
(* Trace validation for the HTTP/2 write schedulers: every recorded call of the    *)
(* real scheduler must be a step of WriteSched, Pop results being judged against   *)
(* PopCtl / PopNothing / PopAny (what C12 allows), with the C13 ghosts evaluated   *)
(* along the way.  One TLC run validates many traces (see TraceIO).                *)
EXTENDS WriteSched, TraceIO

VARIABLES cur, l
tvars == <<vars, cur, l>>

Line == Trace[l]

TInit ==
    \E t \in 1..NT :
       LET h == Trace[Meta.starts[t]] IN
       /\ cur = t /\ l = Meta.starts[t] + 1
       /\ h.e = "hdr"
       /\ InitWith(h.policy, h.mf, h.cwin)

TOpen   == Line.e = "open" /\ Line.s \in Streams /\ Open(Line.s, [u |-> Line.u, i |-> Line.inc], Line.w)
TClose  == Line.e = "close" /\ Line.s \in Streams /\ Close(Line.s)
TAdjust == Line.e = "adjust" /\ Line.s \in Streams /\ Adjust(Line.s, [u |-> Line.u, i |-> Line.inc])
TPush   == Line.e = "push" /\ (Line.kind = "c" \/ Line.s \in Streams)
           /\ Push([id |-> Line.id, sid |-> Line.s, kind |-> Line.kind, size |-> Line.size,
                    es |-> Line.es, off |-> 0, fin |-> TRUE])
TWin    == Line.e = "win" /\ Line.s \in Streams /\ SetWin(Line.s, Line.w)
TCWin   == Line.e = "cwin" /\ SetCWin(Line.w)
TMF     == Line.e = "mf" /\ SetMF(Line.m)

TPop ==
    /\ Line.e = "pop"
    /\ IF ~Line.ok THEN PopNothing
       ELSE /\ ~Line.nil                      \* an empty request is never a legal Pop result
            /\ \/ /\ Line.kind = "c" /\ PopCtl /\ last'.id = Line.id
               \/ /\ Line.kind \in {"h", "d"} /\ Line.s \in Streams
                  /\ PopAny(Line.s, Line.size)
                  /\ last'.id = Line.id /\ last'.kind = Line.kind /\ last'.es = Line.es
                  /\ last'.off = Line.off /\ last'.fin = Line.fin

TNext ==
    /\ l <= Meta.ends[cur]
    /\ l' = l + 1 /\ cur' = cur
    /\ (TOpen \/ TClose \/ TAdjust \/ TPush \/ TWin \/ TCWin \/ TMF \/ TPop)

TSpec == TInit /\ [][TNext]_tvars

Mark == HighWater(cur, l)
=============================================================================
