# limitlistener family hooks: signatures naming the class of a rejected C58 trace (the verdict
# itself is TLC's: the record is not a behaviour of LimitListener.tla).


def signature(prop, kind, scenario, detail):
    if prop != "C58" or kind != "trace" or not isinstance(scenario, dict):
        return None
    lines = scenario.get("lines") or []
    if not lines:
        return None
    hdr, last = lines[0], lines[-1]
    closed = any(x.get("e") == "lclose" for x in lines)
    base = "n=%s;spurious=%s;after-listener-close=%s" % (hdr.get("n"), str(hdr.get("spurious")).lower(), str(closed).lower())
    e = last.get("e")
    if e == "q":
        return "%s;quiesce;blocked=%d;lblocked=%d;sem-minus-open=%d" % (
            base, len(last.get("blocked") or []), len(last.get("lblocked") or []),
            int(last.get("sem", 0)) - int(last.get("open", 0)))
    if e == "ret":
        return "%s;ret;ok=%s" % (base, str(last.get("ok")).lower())
    if e == "close":
        return "%s;conn-close;returned=%s" % (base, str(last.get("returned")).lower())
    if e == "panic":
        return "%s;panic-in-%s" % (base, last.get("at"))
    return "%s;%s" % (base, e)
