-------------------------------- MODULE Gen --------------------------------
(* Script generator for C58: command sequences out of LimitListener.  A command is issued   *)
(* only at a quiescent point of the model (that is how the driver runs them); the internal   *)
(* steps of the model are taken in between so that the commands refer to connections the     *)
(* model has accepted.  Only the commands are exported: the driver executes them on the real  *)
(* listener, records what happened, and Trace.tla judges the record.                         *)
EXTENDS LimitListener, Json

CONSTANTS GenDepth,     \* number of commands in a script
          CloseAfter    \* Listener.Close only after this many commands (keeps random scripts interesting)
VARIABLE hist
gvars == <<vars, hist>>

GInit == Init /\ hist = <<[e |-> "hdr", n |-> N, spurious |-> Spurious]>>

Rec(r) == hist' = Append(hist, r)

GNext ==
    \/ /\ Quiescent /\ Len(hist) <= GenDepth
       /\ \/ \E a \in Acceptors : InOrder(Acceptors, a, apc, "idle") /\ Call(a) /\ Rec([e |-> "call"])
          \/ \E c \in Conns : InOrder(Conns, c, cst, "new") /\ Dial(c) /\ Rec([e |-> "dial"])
          \/ nerr < MaxErrs /\ IErr /\ Rec([e |-> "ierr"])
          \/ \E c \in Conns : ncl[c] < MaxCloses /\ TotalCloses < MaxTotal /\ CStart(c) /\ Rec([e |-> "cstart", c |-> c])
          \/ \E c \in Conns : CGo(c) /\ Rec([e |-> "cgo", c |-> c])
          \/ /\ Len(hist) > CloseAfter
             /\ \E k \in Closers : InOrder(Closers, k, lpc, "idle") /\ LClose1(k) /\ Rec([e |-> "lclose"])
    \/ Internal /\ UNCHANGED hist
    \/ \E a \in Acceptors : Ret(a) /\ UNCHANGED hist
    \/ \E c \in Conns : CRet(c) /\ UNCHANGED hist

GSpec == GInit /\ [][GNext]_gvars

Emit == Len(hist) <= GenDepth \/ PrintT(<<"BEH", ToJson(hist)>>)
=============================================================================
