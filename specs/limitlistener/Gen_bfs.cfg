SPECIFICATION GSpec
CONSTANTS
  N = 1
  Acceptors = {1, 2, 3}
  Conns = {1, 2, 3}
  Closers = {1}
  MaxCloses = 2
  MaxTotal = 6
  MaxErrs = 1
  Spurious = FALSE
  GenDepth = 6
  CloseAfter = 0
INVARIANT Emit
CHECK_DEADLOCK FALSE
