------------------------------- MODULE Trace -------------------------------
(* Trace validation for C58.  One trace = one LimitListener driven inside a synctest      *)
(* bubble over an in-memory inner listener.  The driver issues one command, lets every     *)
(* goroutine run until all are durably blocked, and logs:                                *)
(*   {"e":"hdr","n":N,"spurious":b}                                                       *)
(*   {"e":"call","a":id}            Accept started in its own goroutine                    *)
(*   {"e":"dial","c":id}            a client connection offered to the inner listener       *)
(*   {"e":"ierr"}                   the next inner Accept fails with a transient error      *)
(*   {"e":"cstart","c":id}          Close on an accepted connection started in its own       *)
(*                                  goroutine; it stops inside the underlying Conn.Close       *)
(*   {"e":"cgo","c":id}             the script lets ONE underlying Conn.Close of c return       *)
(*   {"e":"cret","c":id}            a Close call on c returned                                *)
(*   {"e":"lclose","k":id}          Listener.Close started in its own goroutine             *)
(*   {"e":"ret","a":id,"ok":b,"c":id}    an Accept returned (connection id or error)        *)
(*   {"e":"q","sem":len(sem),"open":accepted-and-not-closed,"blocked":[Accept ids],         *)
(*           "lblocked":[Listener.Close ids still running],                                 *)
(*           "cgate":[conn id per Close call inside the underlying Close],                   *)
(*           "crun":number of Close calls that are running but NOT inside the underlying Close}*)
(*                                                              the quiescent point          *)
(* A line is matched by the corresponding action of LimitListener; the internal steps       *)
(* (acquire, inner Accept, drain, close(done)) are taken silently in between.  At "q" the    *)
(* model must be quiescent too, and agree on who is blocked, on the semaphore occupancy     *)
(* (white box) and on the number of open accepted connections.                             *)
EXTENDS LimitListener, TraceIO

VARIABLES cur, l
tvars == <<vars, cur, l>>

Line == Trace[l]

TInit ==
    \E t \in 1..NT :
       LET h == Trace[Meta.starts[t]] IN
       /\ cur = t /\ l = Meta.starts[t] + 1
       /\ h.e = "hdr"
       /\ InitWith(h.n, h.spurious)

SeqSet(s) == {s[i] : i \in 1..Len(s)}

TCall   == Line.e = "call" /\ Line.a \in Acceptors /\ Call(Line.a)
TDial   == Line.e = "dial" /\ Line.c \in Conns /\ Dial(Line.c)
TIErr   == Line.e = "ierr" /\ IErr
TCStart == Line.e = "cstart" /\ Line.c \in Conns /\ CStart(Line.c)
TCGo    == Line.e = "cgo" /\ Line.c \in Conns /\ CGo(Line.c)
\* a Close call returned: normally after its release step; a call made after the slot was
\* released may also return without entering the underlying Close again (not required by C58)
TCRet   == /\ Line.e = "cret" /\ Line.c \in Conns
           /\ \/ CRet(Line.c)
              \/ /\ cdone[Line.c] = 0 /\ cgate[Line.c] > 0 /\ nrel[Line.c] = 1
                 /\ cgate' = [cgate EXCEPT ![Line.c] = @ - 1]
                 /\ UNCHANGED <<cap, spur, sem, done, iclosed, queue, apc, ares, cst, ncl, cpost, cdone, nrel, lpc, nerr, late>>
Count(sq, x) == Cardinality({i \in 1..Len(sq) : sq[i] = x})
TLClose == Line.e = "lclose" /\ Line.k \in Closers /\ LClose1(Line.k)
TRet    == /\ Line.e = "ret" /\ Line.a \in Acceptors
           /\ IF Line.ok THEN apc[Line.a] = "retok" /\ ares[Line.a] = Line.c
                         ELSE apc[Line.a] = "reterr"
           /\ Ret(Line.a)
TQ      == /\ Line.e = "q"
           /\ Quiescent
           /\ \A a \in Acceptors : apc[a] \notin {"retok", "reterr"}     \* every return was logged
           /\ Blocked = SeqSet(Line.blocked)
           /\ {k \in Closers : lpc[k] = "s2"} = {} /\ Line.lblocked = <<>>
           /\ \A c \in Conns : cdone[c] = 0 /\ cgate[c] = Count(Line.cgate, c)   \* every Close call is
           /\ Line.crun = 0                                   \* inside the underlying Close or returned
           /\ sem = Line.sem
           /\ Cardinality(Open) = Line.open
           /\ UNCHANGED vars

---------------------------------------------------------------------------
(* Silent steps.  Exploring every interleaving of the internal steps of a dozen goroutines    *)
(* is exponential; two sound reductions keep validation linear in practice:                  *)
(*  1. "safe" steps - a step that is the only continuation of its process, stays enabled       *)
(*     whatever the others do, and can only enable (never disable) other steps - are taken     *)
(*     first and in a canonical order: close(done); an inner Accept failing on a closed       *)
(*     listener (release + error, or error out of the drain loop); and, once the listener is   *)
(*     listener (release + error, or error out of the drain loop); releaseOnce.Do of a Close    *)
(*     call whose underlying Close returned; and, once the listener is                        *)
(*     closed with nothing left to hand out, the done branch of acquire (the slot branch        *)
(*     leads to the same error and the same semaphore).  Any behaviour can be reordered so      *)
(*     that these come first, without changing any later state.                               *)
(*  2. look-ahead: an Accept that obtains a connection or an error returns in the same step,   *)
(*     so its "ret" line is among the lines up to the next "q"; a silent step that would        *)
(*     produce a return the record does not contain is not tried.                             *)

NextQ == LET js == {j \in l..Meta.ends[cur] : Trace[j].e = "q"}
         IN IF js = {} THEN Meta.ends[cur] ELSE CHOOSE j \in js : \A k \in js : j <= k

WillRet(a, ok, c) == \E j \in l..NextQ : /\ Trace[j].e = "ret" /\ Trace[j].a = a
                                          /\ Trace[j].ok = ok /\ (ok => Trace[j].c = c)

Dead == iclosed /\ (~spur \/ queue = <<>>)          \* the inner Accept fails from now on

SafeOf(a) == \/ apc[a] \in {"inner", "drain"} /\ Dead
             \/ apc[a] = "acq" /\ done /\ Dead
SafeClosers == {k \in Closers : lpc[k] = "s2"}
SafeConns == {c \in Conns : cpost[c] > 0}
SafeAcceptors == {a \in Acceptors : SafeOf(a)}
Least(S) == CHOOSE x \in S : \A y \in S : x <= y

TInternal ==
    IF SafeClosers # {} THEN LClose2(Least(SafeClosers))
    ELSE IF SafeConns # {} THEN CRel(Least(SafeConns))
    ELSE IF SafeAcceptors # {}
    THEN LET a == Least(SafeAcceptors) IN
         IF apc[a] = "inner" THEN InnerErr(a)
         ELSE IF apc[a] = "drain" THEN DrainErr(a)
         ELSE AcqDone(a)
    ELSE \E a \in Acceptors :
            \/ AcqSlot(a)
            \/ AcqDone(a)
            \/ InnerConn(a) /\ WillRet(a, TRUE, Head(queue))
            \/ InnerErr(a) /\ WillRet(a, FALSE, 0)
            \/ DrainConn(a)
            \/ DrainErr(a) /\ WillRet(a, FALSE, 0)

TNext ==
    /\ l <= Meta.ends[cur]
    /\ cur' = cur
    /\ \/ l' = l + 1 /\ (TCall \/ TDial \/ TIErr \/ TCStart \/ TCGo \/ TCRet \/ TLClose \/ TRet \/ TQ)
       \/ l' = l /\ TInternal

TSpec == TInit /\ [][TNext]_tvars

Mark == HighWater(cur, l)
=============================================================================
