SPECIFICATION Spec
CONSTANTS
  N = 1
  Acceptors = {1, 2, 3}
  Conns = {1, 2}
  Closers = {1}
  MaxCloses = 2
  MaxTotal = 3
  MaxErrs = 0
  Spurious = FALSE
INVARIANTS TypeOK Limit OneSlotEach ClosedMeansError NoneBlockedAfterClose DrainedNeverReturned

CHECK_DEADLOCK FALSE
