SPECIFICATION Spec
CONSTANTS
  N = 2
  Acceptors = {1, 2, 3}
  Conns = {1, 2, 3}
  Closers = {1, 2}
  MaxCloses = 2
  MaxTotal = 2
  MaxErrs = 1
  Spurious = FALSE
INVARIANTS TypeOK Limit OneSlotEach ClosedMeansError NoneBlockedAfterClose DrainedNeverReturned
PROPERTIES EventuallyUnblocked
CHECK_DEADLOCK FALSE
