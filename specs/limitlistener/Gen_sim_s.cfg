SPECIFICATION GSpec
CONSTANTS
  N = 1
  Acceptors = {1, 2, 3, 4, 5, 6}
  Conns = {1, 2, 3, 4, 5, 6}
  Closers = {1, 2}
  MaxCloses = 3
  MaxTotal = 6
  MaxErrs = 2
  Spurious = TRUE
  GenDepth = 20
  CloseAfter = 5
INVARIANT Emit
CHECK_DEADLOCK FALSE
