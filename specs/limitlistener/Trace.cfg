SPECIFICATION TSpec
CONSTANTS
  N = 0
  Acceptors = {1, 2, 3, 4, 5, 6, 7, 8, 9, 10, 11, 12, 13, 14, 15, 16}
  Conns = {1, 2, 3, 4, 5, 6, 7, 8, 9, 10, 11, 12, 13, 14, 15, 16}
  Closers = {1, 2, 3}
  MaxCloses = 0
  MaxTotal = 0
  MaxErrs = 0
  Spurious = FALSE
INVARIANTS Limit OneSlotEach ClosedMeansError DrainedNeverReturned
CONSTRAINT Mark
POSTCONDITION AllConsumed
CHECK_DEADLOCK FALSE
