--------------------------- MODULE LimitListener ---------------------------
(* C58: netutil.LimitListener never exceeds its connection limit.                        *)
(*                                                                                       *)
(* Design specification of the mechanism in netutil/listen.go:                           *)
(*   sem     a buffered channel of capacity N used as a counting semaphore (only its      *)
(*           occupancy matters);                                                         *)
(*   done    a channel closed (once) by Listener.Close;                                   *)
(*   Accept  = acquire (select: a free slot, or done) ; inner Accept ; on error release;   *)
(*             when acquire failed because of done: call the inner Accept until it fails,  *)
(*             closing every connection it still hands out ("drain", golang/go#50216);     *)
(*   Conn.Close = inner close (may overlap with other Close calls on the same connection)  *)
(*                ; release exactly once (sync.Once) ; return;                             *)
(*   Listener.Close = inner close ; close(done) once.                                      *)
(* Every Go statement that touches shared state is one atomic step here; each call is a    *)
(* process (one id per call), so arbitrary interleavings of concurrent Accept, Conn.Close  *)
(* (repeated) and Listener.Close (repeated) calls are explored.                            *)
(*                                                                                       *)
(* The inner listener is the environment: a FIFO of dialed connections (and injected       *)
(* transient errors); after its Close every Accept on it fails (with Spurious = TRUE it     *)
(* first hands out what is still queued, the defect the drain loop exists for).           *)
(*                                                                                       *)
(* Properties (the three clauses of C58):                                                *)
(*   Limit         accepted-and-not-closed connections <= N, in every reachable state;     *)
(*   OneSlotEach   every slot taken is held by exactly one open connection or one Accept   *)
(*                 in flight, and a connection releases exactly once however often it is   *)
(*                 closed;                                                                *)
(*   ClosedMeansError / NoneBlockedAfterClose   an Accept called after a Listener.Close    *)
(*                 returned fails, and once Close has finished no Accept stays blocked     *)
(*                 (stated as safety at quiescence: when no internal step is enabled).     *)
EXTENDS Integers, FiniteSets, Sequences, TLC

CONSTANTS
    N,            \* the limit
    Acceptors,    \* ids of Accept calls, 1..k (called in increasing order)
    Conns,        \* ids of inner connections, 1..m (dialed in increasing order)
    Closers,      \* ids of Listener.Close calls
    MaxCloses,    \* Close calls per accepted connection (model checking bound)
    MaxTotal,     \* Close calls on all connections together (model checking bound)
    MaxErrs,      \* injected transient inner Accept errors (model checking bound)
    Spurious      \* inner listener hands out queued connections even after its Close

VARIABLES
    cap,          \* capacity of the semaphore (= N; a variable only so that one trace-validation
                  \* run can hold traces with different limits; it never changes)
    spur,         \* = Spurious (same remark)
    sem,          \* slots taken, 0..cap
    done,         \* done channel closed
    iclosed,      \* inner listener closed
    queue,        \* inner listener backlog: sequence of connection ids, 0 = transient error
    apc,          \* Accept call a: "idle" | "acq" | "inner" | "drain" | "retok" | "reterr" | "fin"
    ares,         \* connection returned by Accept call a (0 = none)
    cst,          \* connection c: "new" | "queued" | "open" | "closed" | "drained" | "lost"
    ncl,          \* Close calls started on connection c
    cgate,        \* Close calls on c that are inside the underlying Conn.Close (may overlap)
    cpost,        \* Close calls on c whose underlying Close returned, before releaseOnce.Do
    cdone,        \* Close calls on c that finished and whose return was not yet observed
    nrel,         \* releases performed on behalf of connection c
    lpc,          \* Listener.Close call k: "idle" | "s2" | "fin"
    nerr,         \* transient errors injected so far
    late          \* ghost: Accept call a started after some Listener.Close had returned

vars == <<cap, spur, sem, done, iclosed, queue, apc, ares, cst, ncl, cgate, cpost, cdone, nrel, lpc, nerr, late>>

InitWith(n, sp) ==
    /\ cap = n /\ spur = sp
    /\ sem = 0 /\ done = FALSE /\ iclosed = FALSE /\ queue = <<>>
    /\ apc = [a \in Acceptors |-> "idle"] /\ ares = [a \in Acceptors |-> 0]
    /\ cst = [c \in Conns |-> "new"] /\ ncl = [c \in Conns |-> 0] /\ nrel = [c \in Conns |-> 0]
    /\ cgate = [c \in Conns |-> 0] /\ cpost = [c \in Conns |-> 0] /\ cdone = [c \in Conns |-> 0]
    /\ lpc = [k \in Closers |-> "idle"] /\ nerr = 0
    /\ late = [a \in Acceptors |-> FALSE]

Init == InitWith(N, Spurious)

---------------------------------------------------------------------------
(* environment / callers: the visible commands *)

Call(a) ==
    /\ apc[a] = "idle"
    /\ apc' = [apc EXCEPT ![a] = "acq"]
    /\ late' = [late EXCEPT ![a] = \E k \in Closers : lpc[k] = "fin"]
    /\ UNCHANGED <<cap, spur, sem, done, iclosed, queue, ares, cst, ncl, cgate, cpost, cdone, nrel, lpc, nerr>>

\* a client connects; a closed listener refuses (the connection is never queued)
Dial(c) ==
    /\ cst[c] = "new"
    /\ IF iclosed THEN cst' = [cst EXCEPT ![c] = "lost"] /\ UNCHANGED queue
       ELSE cst' = [cst EXCEPT ![c] = "queued"] /\ queue' = Append(queue, c)
    /\ UNCHANGED <<cap, spur, sem, done, iclosed, apc, ares, ncl, cgate, cpost, cdone, nrel, lpc, nerr, late>>

\* the next inner Accept fails with a transient error (EMFILE, ECONNABORTED ...)
IErr ==
    /\ ~iclosed
    /\ queue' = Append(queue, 0) /\ nerr' = nerr + 1
    /\ UNCHANGED <<cap, spur, sem, done, iclosed, apc, ares, cst, ncl, cgate, cpost, cdone, nrel, lpc, late>>

\* limitListenerConn.Close is   err := l.Conn.Close(); l.releaseOnce.Do(l.release); return err
\* Each Close call is a process; calls on the same connection are interchangeable, so they are
\* counted per phase.  Several calls may be inside the underlying Conn.Close at the same time
\* (it can take arbitrarily long: the environment decides when each one returns).
CStart(c) ==                                 \* a caller enters Close and the underlying Conn.Close
    /\ cst[c] \in {"open", "closed"}
    /\ ncl' = [ncl EXCEPT ![c] = @ + 1]
    /\ cgate' = [cgate EXCEPT ![c] = @ + 1]
    /\ UNCHANGED <<cap, spur, sem, done, iclosed, queue, apc, ares, cst, cpost, cdone, nrel, lpc, nerr, late>>

CGo(c) ==                                    \* environment: one underlying Conn.Close returns
    /\ cgate[c] > 0
    /\ cgate' = [cgate EXCEPT ![c] = @ - 1]
    /\ cpost' = [cpost EXCEPT ![c] = @ + 1]
    /\ UNCHANGED <<cap, spur, sem, done, iclosed, queue, apc, ares, cst, ncl, cdone, nrel, lpc, nerr, late>>

\* releaseOnce.Do(release): an atomic test-and-set; the first caller releases (<-sem cannot
\* block: the connection holds a slot until then), every caller then returns
CRel(c) ==
    /\ cpost[c] > 0
    /\ cpost' = [cpost EXCEPT ![c] = @ - 1]
    /\ cdone' = [cdone EXCEPT ![c] = @ + 1]
    /\ IF nrel[c] = 0
       THEN /\ sem > 0 /\ sem' = sem - 1 /\ nrel' = [nrel EXCEPT ![c] = 1]
            /\ cst' = [cst EXCEPT ![c] = "closed"]
       ELSE UNCHANGED <<sem, nrel, cst>>
    /\ UNCHANGED <<cap, spur, done, iclosed, queue, apc, ares, ncl, cgate, lpc, nerr, late>>

CRet(c) ==                                   \* the caller observes the return of Close
    /\ cdone[c] > 0
    /\ cdone' = [cdone EXCEPT ![c] = @ - 1]
    /\ UNCHANGED <<cap, spur, sem, done, iclosed, queue, apc, ares, cst, ncl, cgate, cpost, nrel, lpc, nerr, late>>

\* limitListener.Close, first statement: l.Listener.Close()
LClose1(k) ==
    /\ lpc[k] = "idle"
    /\ lpc' = [lpc EXCEPT ![k] = "s2"]
    /\ iclosed' = TRUE
    /\ IF spur \/ iclosed THEN UNCHANGED <<queue, cst>>
       ELSE /\ queue' = <<>>                  \* a well-behaved listener drops its backlog
            /\ cst' = [c \in Conns |-> IF cst[c] = "queued" THEN "lost" ELSE cst[c]]
    /\ UNCHANGED <<cap, spur, sem, done, apc, ares, ncl, cgate, cpost, cdone, nrel, nerr, late>>

---------------------------------------------------------------------------
(* internal steps *)

\* second statement: closeOnce.Do(close(done)), then return
LClose2(k) ==
    /\ lpc[k] = "s2"
    /\ lpc' = [lpc EXCEPT ![k] = "fin"]
    /\ done' = TRUE
    /\ UNCHANGED <<cap, spur, sem, iclosed, queue, apc, ares, cst, ncl, cgate, cpost, cdone, nrel, nerr, late>>

\* acquire: select { case <-done: false; case sem <- struct{}{}: true } - when both are ready
\* Go chooses either
AcqSlot(a) ==
    /\ apc[a] = "acq" /\ sem < cap
    /\ sem' = sem + 1 /\ apc' = [apc EXCEPT ![a] = "inner"]
    /\ UNCHANGED <<cap, spur, done, iclosed, queue, ares, cst, ncl, cgate, cpost, cdone, nrel, lpc, nerr, late>>

AcqDone(a) ==
    /\ apc[a] = "acq" /\ done
    /\ apc' = [apc EXCEPT ![a] = "drain"]
    /\ UNCHANGED <<cap, spur, sem, done, iclosed, queue, ares, cst, ncl, cgate, cpost, cdone, nrel, lpc, nerr, late>>

\* what the inner Accept does right now: "block", "closed" (permanent error) or "pop"
InnerNow == IF iclosed /\ (~spur \/ queue = <<>>) THEN "closed"
            ELSE IF queue # <<>> THEN "pop" ELSE "block"

\* Accept holding a slot: the inner Accept returns a connection -> wrap and return it
InnerConn(a) ==
    /\ apc[a] = "inner" /\ InnerNow = "pop" /\ Head(queue) # 0
    /\ LET c == Head(queue) IN
       /\ queue' = Tail(queue)
       /\ cst' = [cst EXCEPT ![c] = "open"]
       /\ ares' = [ares EXCEPT ![a] = c]
       /\ apc' = [apc EXCEPT ![a] = "retok"]
    /\ UNCHANGED <<cap, spur, sem, done, iclosed, ncl, cgate, cpost, cdone, nrel, lpc, nerr, late>>

\* ... or an error (listener closed, or a transient one) -> release the slot, return the error
InnerErr(a) ==
    /\ apc[a] = "inner"
    /\ \/ InnerNow = "closed" /\ UNCHANGED queue
       \/ InnerNow = "pop" /\ Head(queue) = 0 /\ queue' = Tail(queue)
    /\ sem > 0 /\ sem' = sem - 1
    /\ apc' = [apc EXCEPT ![a] = "reterr"]
    /\ UNCHANGED <<cap, spur, done, iclosed, ares, cst, ncl, cgate, cpost, cdone, nrel, lpc, nerr, late>>

\* Accept without a slot (listener closed): close whatever the inner Accept still returns ...
DrainConn(a) ==
    /\ apc[a] = "drain" /\ InnerNow = "pop" /\ Head(queue) # 0
    /\ cst' = [cst EXCEPT ![Head(queue)] = "drained"]
    /\ queue' = Tail(queue)
    /\ UNCHANGED <<cap, spur, sem, done, iclosed, apc, ares, ncl, cgate, cpost, cdone, nrel, lpc, nerr, late>>

\* ... until it returns an error, which is returned
DrainErr(a) ==
    /\ apc[a] = "drain"
    /\ \/ InnerNow = "closed" /\ UNCHANGED queue
       \/ InnerNow = "pop" /\ Head(queue) = 0 /\ queue' = Tail(queue)
    /\ apc' = [apc EXCEPT ![a] = "reterr"]
    /\ UNCHANGED <<cap, spur, sem, done, iclosed, ares, cst, ncl, cgate, cpost, cdone, nrel, lpc, nerr, late>>

\* the caller observes the return of Accept
Ret(a) ==
    /\ apc[a] \in {"retok", "reterr"}
    /\ apc' = [apc EXCEPT ![a] = "fin"]
    /\ UNCHANGED <<cap, spur, sem, done, iclosed, queue, ares, cst, ncl, cgate, cpost, cdone, nrel, lpc, nerr, late>>

Internal ==
    \/ \E k \in Closers : LClose2(k)
    \/ \E c \in Conns : CRel(c)
    \/ \E a \in Acceptors : AcqSlot(a) \/ AcqDone(a) \/ InnerConn(a) \/ InnerErr(a)
                              \/ DrainConn(a) \/ DrainErr(a)

Quiescent == ~ENABLED Internal

---------------------------------------------------------------------------
(* model checking: callers use ids in increasing order (symmetry), bounded closes *)

RECURSIVE SumOver(_, _)
SumOver(f, S) == IF S = {} THEN 0 ELSE LET x == CHOOSE y \in S : TRUE IN f[x] + SumOver(f, S \ {x})
TotalCloses == SumOver(ncl, Conns)

InOrder(S, x, f, init) == \A y \in S : y < x => f[y] # init

Next ==
    \/ \E a \in Acceptors : InOrder(Acceptors, a, apc, "idle") /\ Call(a)
    \/ \E c \in Conns : InOrder(Conns, c, cst, "new") /\ Dial(c)
    \/ nerr < MaxErrs /\ IErr
    \/ \E c \in Conns : ncl[c] < MaxCloses /\ TotalCloses < MaxTotal /\ CStart(c)
    \/ \E c \in Conns : CGo(c)             \* (CRet only matters to trace validation: cdone just counts)
    \/ \E k \in Closers : InOrder(Closers, k, lpc, "idle") /\ LClose1(k)
    \/ Internal
    \/ \E a \in Acceptors : Ret(a)

Spec == Init /\ [][Next]_vars /\ WF_vars(Internal)

---------------------------------------------------------------------------
(* properties *)

Open == {c \in Conns : cst[c] = "open"}
Blocked == {a \in Acceptors : apc[a] \in {"acq", "inner", "drain"}}

TypeOK ==
    /\ sem \in 0..cap /\ done \in BOOLEAN /\ iclosed \in BOOLEAN
    /\ apc \in [Acceptors -> {"idle", "acq", "inner", "drain", "retok", "reterr", "fin"}]
    /\ cst \in [Conns -> {"new", "queued", "open", "closed", "drained", "lost"}]
    /\ \A i \in 1..Len(queue) : queue[i] = 0 \/ (queue[i] \in Conns /\ cst[queue[i]] = "queued")

\* clause 1: at most N accepted connections that have not been closed
Limit == Cardinality(Open) <= cap

\* clause 2: every taken slot has exactly one holder; a connection releases exactly once
OneSlotEach ==
    /\ sem = Cardinality(Open) + Cardinality({a \in Acceptors : apc[a] = "inner"})
    /\ \A c \in Conns : /\ nrel[c] <= 1
                        /\ cst[c] = "closed" => nrel[c] = 1
                        /\ cst[c] = "open" => nrel[c] = 0
                        \* once any Close call on c got past releaseOnce.Do, the slot is free
                        /\ (cdone[c] > 0 \/ ncl[c] > cgate[c] + cpost[c] + cdone[c]) => nrel[c] = 1
    /\ \A c \in Conns : cst[c] = "open" => Cardinality({a \in Acceptors : ares[a] = c}) = 1

\* clause 3a: an Accept that starts after a Listener.Close returned never yields a connection
\* (with a well-behaved inner listener)
ClosedMeansError == spur \/ \A a \in Acceptors : late[a] => apc[a] # "retok" /\ ares[a] = 0

\* clause 3b (safety at quiescence): once a Listener.Close has finished, no Accept is blocked
\* when nothing internal is left to do
NoneBlockedAfterClose == (done /\ Quiescent) => Blocked = {}

\* and the liveness form of the same, under fairness of the internal steps
EventuallyUnblocked == done ~> (Blocked = {})

\* a drained connection was never handed to a caller
DrainedNeverReturned == \A a \in Acceptors : ares[a] # 0 => cst[ares[a]] \in {"open", "closed"}
=============================================================================
