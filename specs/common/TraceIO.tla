------------------------------- MODULE TraceIO -------------------------------
(* Shared plumbing for trace validation.  The orchestrator writes trace.ndjson:   *)
(* line 1 is {"e":"meta","starts":[..],"ends":[..]}; trace number t occupies lines *)
(* starts[t]..ends[t].  A trace spec has variables cur (trace number) and l (next  *)
(* line), starts every trace from its own initial state, and uses HighWater as a   *)
(* CONSTRAINT and AllConsumed as POSTCONDITION (run with -workers 1 -continue).    *)
EXTENDS Integers, Sequences, TLC, Json

Trace == ndJsonDeserialize("trace.ndjson")
Meta  == Trace[1]
NT    == Len(Meta.starts)

ASSUME \A t \in 1..NT : TLCSet(t, 0)

TMax(a, b) == IF a > b THEN a ELSE b

HighWater(cur, l) == TLCSet(cur, TMax(TLCGet(cur), l))

AllConsumed ==
    /\ \A t \in 1..NT : TLCGet(t) = Meta.ends[t] + 1 \/ PrintT(<<"UNMATCHED", t, TLCGet(t)>>)
    /\ PrintT(<<"VALIDATED", NT>>)

Has(rec, f) == f \in DOMAIN rec
=============================================================================
