SPECIFICATION GSpec
CONSTANTS
  Sizes <- SizesSmall
  NB = 4
  Kind = "small"
  UnitMs = 250
  Abs = TRUE
  Times = {1, 2, 17, 21, 61}
  Deltas <- NoTimes
  Start = 1
  ChkSet = {FALSE}
  GenDepth = 4
INVARIANT Emit
CHECK_DEADLOCK FALSE
