SPECIFICATION GSpec
CONSTANTS
  Kinds = {"small"}
  Times = {1, 4, 8, 17, 61}
  Start = 1
  ChkSet = {FALSE}
  GenDepth = 5
INVARIANT Emit
CHECK_DEADLOCK FALSE
