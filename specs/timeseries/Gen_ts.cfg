SPECIFICATION GSpec
CONSTANTS
  Sizes <- SizesTS
  NB = 64
  Kind = "ts"
  UnitMs = 500
  Abs = FALSE
  Times <- NoTimes
  Deltas <- DeltasTS
  Start = 200000001
  ChkSet = {FALSE, TRUE}
  GenDepth = 24
INVARIANT Emit
CHECK_DEADLOCK FALSE
