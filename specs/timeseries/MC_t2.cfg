SPECIFICATION Spec
CONSTANTS
  Sizes <- SizesSmall
  NB = 4
  Times = {1, 2, 3, 5, 6, 13, 14, 17, 18, 21, 33, 50, 61, 66, 97}
  MaxOps = 3
  Repaired = TRUE
INVARIANTS TotalOK WindowsOK RangeOK LatestOK
CHECK_DEADLOCK FALSE
