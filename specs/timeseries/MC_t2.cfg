SPECIFICATION Spec
CONSTANTS
  SizesC <- SizesSmall
  NBC = 4
  Times = {1, 2, 4, 5, 8, 12, 16, 17, 20, 21, 33, 48, 61, 97}
  MaxOps = 3
  Repaired = TRUE
INVARIANTS TotalOK WindowsOK RangeOK LatestOK
CHECK_DEADLOCK FALSE
