SPECIFICATION Spec
CONSTANTS
  SizesC <- SizesSmall
  NBC = 4
  Times = {1, 2, 5, 14, 17, 21, 33, 50, 61, 66, 97}
  MaxOps = 3
  Repaired = TRUE
INVARIANTS TotalOK WindowsOK RangeOK LatestOK
CHECK_DEADLOCK FALSE
