------------------------------ MODULE TimeSeries ------------------------------
(* C61, design level: the bucketed time series of internal/timeseries (levels with an end  *)
(* time and a ring of NB bucket sums, the pending slot, total, lastAdd), next to the ghost   *)
(* bag of TSOracle.  TLC checks on small constants that the algorithm reports what the       *)
(* oracle says: Total always; Range and Latest wherever the oracle judges them.             *)
(*                                                                                       *)
(* The algorithm state is one record `st` so that "what would Total / Range / Latest        *)
(* return now" can be evaluated on every reachable state without changing it.               *)
(*                                                                                       *)
(* Repaired = TRUE  models the algorithm with the one-line repair proposed for the finding   *)
(*                  described in README.md (Latest re-anchors pendingTime to levels[0].end); *)
(* Repaired = FALSE models the code as it is: MC_asis.cfg makes TLC produce the             *)
(*                  counterexample (Add, Latest with a later clock, Add in between).         *)
EXTENDS TSOracle

CONSTANTS SizesC, NBC, \* level sizes (units) and buckets per level
          Times,      \* observation / clock times explored (inside buckets and exactly on boundaries)
          MaxOps,     \* length of the explored histories
          Repaired

ZeroT == 0 - 1000000          \* Go's zero time.Time: long before everything

VARIABLES st, nops
vars == <<st, nops, obs, maxT, seen, clean, sizes, nb>>

Ring == 0..(NB - 1)

Init ==
    /\ OInitWith(SizesC, NBC)
    /\ nops = 0
    /\ st = [end |-> [L \in 1..Len(SizesC) |-> ZeroT], bk |-> [L \in 1..Len(SizesC) |-> [i \in 0..(NBC - 1) |-> 0]],
             oldest |-> [L \in 1..Len(SizesC) |-> 0], newest |-> [L \in 1..Len(SizesC) |-> NBC - 1],
             pending |-> 0, ptime |-> ZeroT, dirty |-> FALSE, total |-> 0, lastAdd |-> ZeroT]

---------------------------------------------------------------------------
(* advance: cycle the buckets of each level until its newest bucket can hold t *)

CeilDiv(x, s) == (x + s - 1) \div s

AdvLevel(s, L, t) ==
    LET size == Sizes[L]
        far == t >= s.end[L] + size * NB
        \* far jump: clear everything, end = t rounded down to the level's resolution ...
        e0 == IF far THEN FloorTo(t, size) ELSE s.end[L]
        b0 == IF far THEN [i \in Ring |-> 0] ELSE s.bk[L]
        \* ... then rotate while t is after end; rotation k reuses (and clears) the oldest bucket
        k == IF t > e0 THEN CeilDiv(t - e0, size) ELSE 0
        o0 == s.oldest[L]
        cleared == {(o0 + j) % NB : j \in 0..(k - 1)}
    IN [s EXCEPT !.end[L] = e0 + k * size,
                 !.bk[L] = [i \in Ring |-> IF i \in cleared THEN 0 ELSE b0[i]],
                 !.oldest[L] = (o0 + k) % NB,
                 !.newest[L] = IF k = 0 THEN s.newest[L] ELSE (o0 + k - 1) % NB]

RECURSIVE Adv(_, _, _)
Adv(s, L, t) == IF L > NL \/ s.end[L] >= t THEN s
                ELSE LET s1 == AdvLevel(s, L, t) IN Adv(s1, L + 1, s1.end[L])

(* mergeValue: insert an observation at a time in the past into every level that still     *)
(* retains that time; always into the total                                               *)
MergeValue(s, v, t) ==
    [s EXCEPT !.total = @ + v,
              !.bk = [L \in Levels |->
                        LET idx == (NB - 1) - ((s.end[L] - t) \div Sizes[L]) IN
                        IF 0 <= idx /\ idx < NB
                        THEN [s.bk[L] EXCEPT ![(s.oldest[L] + idx) % NB] = @ + v]
                        ELSE s.bk[L]]]

MergePending(s) ==
    IF s.dirty THEN [MergeValue(s, s.pending, s.ptime) EXCEPT !.pending = 0, !.dirty = FALSE] ELSE s

AddWithTime(s, v, t) ==
    LET s1 == [s EXCEPT !.lastAdd = Max2(@, t)] IN
    IF t > s1.ptime
    THEN LET s3 == MergePending(Adv(s1, 1, t)) IN
         [s3 EXCEPT !.ptime = s3.end[1], !.pending = v, !.dirty = TRUE]
    ELSE IF t > s1.ptime - Sizes[1]
    THEN [s1 EXCEPT !.pending = @ + v, !.dirty = TRUE]
    ELSE MergeValue(s1, v, t)

\* the state after Latest(_, _) with the clock at `now` (the result is LatestSum of it)
LatestState(s, now) ==
    LET s2 == MergePending(IF s.end[1] < now THEN Adv(s, 1, now) ELSE s)
    IN IF Repaired THEN [s2 EXCEPT !.ptime = s2.end[1]] ELSE s2

RECURSIVE SumBack(_, _, _, _)
SumBack(s, L, idx, n) == IF n = 0 THEN 0
                         ELSE s.bk[L][idx] + SumBack(s, L, (IF idx = 0 THEN NB ELSE idx) - 1, n - 1)
LatestSum(s, L, n) == SumBack(s, L, s.newest[L], n)

\* ComputeRange(start, finish, 1)[0]: the level is the first whose window contains start (the
\* last one otherwise); extract walks its buckets from the oldest; a bucket that overlaps the
\* range only partially makes the answer approximate (exact = FALSE)
RangeLevel(s, a) ==
    LET C == {L \in Levels : a >= s.end[L] - Sizes[L] * NB}
    IN IF C = {} THEN NL ELSE CHOOSE L \in C : \A K \in C : L <= K

RECURSIVE Walk(_, _, _, _, _, _, _)
Walk(s, L, a, b, idx, srcStart, acc) ==
    IF ~(idx < NB /\ srcStart < b) THEN acc
    ELSE LET e0 == srcStart + Sizes[L]
             srcEnd == IF e0 > s.lastAdd THEN s.lastAdd ELSE e0
         IN IF srcEnd >= a
            THEN LET val == s.bk[L][(idx + s.oldest[L]) % NB]
                     whole == srcStart >= a /\ srcEnd <= b
                     acc1 == IF whole THEN [acc EXCEPT !.sum = @ + val] ELSE [acc EXCEPT !.exact = FALSE]
                 IN IF srcEnd > b THEN acc1
                    ELSE Walk(s, L, a, b, idx + 1, srcStart + Sizes[L], acc1)
            ELSE Walk(s, L, a, b, idx + 1, srcStart + Sizes[L], acc)

RangeOf(s0, a, b) ==
    LET s == MergePending(s0)
        L == RangeLevel(s, a)
        w0 == s.end[L] - Sizes[L] * NB
        skip == IF a > w0 THEN (a - w0) \div Sizes[L] ELSE 0
    IN Walk(s, L, a, b, skip, w0 + skip * Sizes[L], [sum |-> 0, exact |-> TRUE])

---------------------------------------------------------------------------
(* histories *)

Val == 2 ^ Len(obs)                   \* distinct powers of two: a sum tells which observations it holds

Add(t) == /\ st' = AddWithTime(st, Val, t) /\ OAdd(t, Val)
Latest(now) == /\ st' = LatestState(st, now) /\ OClock(now)
Flush == st' = MergePending(st) /\ st' # st /\ UNCHANGED ovars       \* Total() / Range()

Next == /\ nops < MaxOps /\ nops' = nops + 1
        /\ \/ \E t \in Times : Add(t)
           \/ \E now \in Times : Latest(now)
           \/ Flush

Spec == Init /\ [][Next]_vars

---------------------------------------------------------------------------
(* the algorithm reports what the oracle says *)

TotalOK == MergePending(st).total = TotalExp(obs)

\* the retained windows are where the property-level definition puts them
WindowsOK == seen => \A L \in Levels : st.end[L] = WinEnd(maxT, L)

\* range end points worth asking about: the boundaries around every explored time, at every level
Bounds == UNION {{FloorTo(t, Sizes[L]) - Sizes[L], FloorTo(t, Sizes[L]), FloorTo(t, Sizes[L]) + Sizes[L]} :
                    t \in Times, L \in Levels}

\* every judged range that starts at one of these points: b = a + k buckets of the level
\* that RangeJudged selects for a (k = 0 .. NB + 1 covers the empty, partial-window and
\* beyond-the-window cases)
RangeOK == LET s == MergePending(st) IN
           \A a \in Bounds :
              (seen /\ Covering(maxT, a) # {}) =>
                 LET L == LevelFor(maxT, a) IN
                 \A k \in 0..(NB + 1) :
                    LET b == a + k * Sizes[L] IN
                    RangeJudged(a, b) => RangeOf(s, a, b) = [sum |-> RangeExp(a, b), exact |-> TRUE]

LatestOK == \A now \in Times :
               LET m == IF seen THEN Max2(maxT, now) ELSE now
                   s2 == LatestState(st, now)
               IN \A L \in Levels, n \in 1..NB :
                     LatestJudgedAt(TRUE, clean, n) => LatestSum(s2, L, n) = LatestExpOf(obs, m, L, n)
=============================================================================
