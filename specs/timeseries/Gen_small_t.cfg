SPECIFICATION GSpec
CONSTANTS
  Kinds = {"small"}
  Times = {1, 2, 5, 14, 17, 21, 50, 61}
  Start = 1
  ChkSet = {FALSE}
  GenDepth = 4
INVARIANT Emit
CHECK_DEADLOCK FALSE
