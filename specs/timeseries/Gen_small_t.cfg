SPECIFICATION GSpec
CONSTANTS
  Sizes <- SizesSmall
  NB = 4
  Kind = "small"
  UnitMs = 250
  Abs = TRUE
  Times = {1, 2, 5, 14, 17, 21, 50, 61}
  Deltas <- NoTimes
  Start = 1
  ChkSet = {FALSE, TRUE}
  GenDepth = 3
INVARIANT Emit
CHECK_DEADLOCK FALSE
