SPECIFICATION GSpec
CONSTANTS
  Kinds = {"small"}
  Times = {1, 2, 4, 5, 8, 12, 17, 21, 61}
  Start = 1
  ChkSet = {FALSE}
  GenDepth = 4
INVARIANT Emit
CHECK_DEADLOCK FALSE
