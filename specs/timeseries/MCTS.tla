-------------------------------- MODULE MCTS --------------------------------
(* Model-checking instance of TimeSeries: 2 levels of 4 buckets, resolutions 4 and 12      *)
(* units (so a finest bucket holds three interior times).                                 *)
EXTENDS TimeSeries
SizesSmall == <<4, 12>>
=============================================================================
