# timeseries family hooks: signature of a C61 violation.  The verdict is TLC's (a prediction of
# the oracle that the real series did not return, or a recorded line the oracle does not
# allow).  This file only recognises the scenario class of the known finding F-ts1:
#   some Latest / LatestBuckets call advanced the levels past pendingTime, and a later
#   observation with   pendingTime < t <= levels[0].end - resolution   was therefore put into
#   the pending slot of the NEWEST bucket instead of its own bucket.
# The class is recognised from the inputs of the history only (times told to the series), by
# tracking the two quantities the scenario is defined with; only Range / Latest mismatches of
# such a history get the known signature, anything else (Total, or a history without the
# pattern) gets its own signature and is reported.


def _ceil_to(t, s):
    return -((-t) // s) * s


def _pattern(steps, size0):
    """steps: list of ("add", t) / ("clock", now).  Returns True if some add falls strictly
    after pendingTime and at least one finest bucket before levels[0].end."""
    end0 = None      # levels[0].end
    ptime = None     # pendingTime
    hit = False
    for op, t in steps:
        if op == "clock":
            e = _ceil_to(t, size0)
            if end0 is None or e > end0:
                end0 = e
        else:
            if ptime is None or t > ptime:
                e = _ceil_to(t, size0)
                if end0 is None or e > end0:
                    end0 = e
                if t <= end0 - size0:
                    hit = True
                ptime = end0
    return hit


def signature(prop, kind, scenario, detail):
    # F-ts1 was repaired in /repo (0e8b34c); its scenario class is no longer singled out: every
    # mismatch is named by shape of the series and kind of question.
    if prop != "C61":
        return None
    what = detail.get("what", "")
    try:
        if kind == "replay" and isinstance(scenario, list):
            hdr = scenario[0]
            q = what.split("(")[0].split("[")[0].strip().replace(" ", "-")
            return "%s;%s;nlevels=%d" % (hdr.get("kind"), q, len(hdr["sizes"]))
        if kind == "trace" and isinstance(scenario, dict):
            lines = scenario.get("lines") or []
            return "trace;%s;nlevels=%d" % (lines[-1].get("e"), len(lines[0]["sizes"]))
    except Exception:
        return None
    return None
