# timeseries family hooks: signature of a C61 violation.  The verdict is TLC's (a prediction of
# the oracle that the real series did not return, or a recorded line the oracle does not
# allow).  This file only recognises the scenario class of the known finding F-ts1:
#   some Latest / LatestBuckets call advanced the levels past pendingTime, and a later
#   observation with   pendingTime < t <= levels[0].end - resolution   was therefore put into
#   the pending slot of the NEWEST bucket instead of its own bucket.
# The class is recognised from the inputs of the history only (times told to the series), by
# tracking the two quantities the scenario is defined with; only Range / Latest mismatches of
# such a history get the known signature, anything else (Total, or a history without the
# pattern) gets its own signature and is reported.


def _ceil_to(t, s):
    return -((-t) // s) * s


def _pattern(steps, size0):
    """steps: list of ("add", t) / ("clock", now).  Returns True if some add falls strictly
    after pendingTime and at least one finest bucket before levels[0].end."""
    end0 = None      # levels[0].end
    ptime = None     # pendingTime
    hit = False
    for op, t in steps:
        if op == "clock":
            e = _ceil_to(t, size0)
            if end0 is None or e > end0:
                end0 = e
        else:
            if ptime is None or t > ptime:
                e = _ceil_to(t, size0)
                if end0 is None or e > end0:
                    end0 = e
                if t <= end0 - size0:
                    hit = True
                ptime = end0
    return hit


def signature(prop, kind, scenario, detail):
    if prop != "C61":
        return None
    what = detail.get("what", "")
    try:
        if kind == "replay" and isinstance(scenario, list):
            # the scenario class tag is computed by the specification (Gen.tla, StaleFrom)
            hdr = scenario[0]
            step = detail.get("step")
            stale = hdr.get("stale_from", 0)
            q = what.split("(")[0].split("[")[0].strip().replace(" ", "-")
            if stale and isinstance(step, int) and step >= stale and not what.startswith("Total"):
                return "F-ts1;add-between-pendingTime-and-newest-bucket-after-Latest;%s" % (
                    "Range" if what.startswith("Range") else "Latest")
            return "%s;%s;nlevels=%d" % (hdr.get("kind"), q, len(hdr["sizes"]))
        if kind == "trace" and isinstance(scenario, dict):
            lines = scenario.get("lines") or []
            hdr, last = lines[0], lines[-1]
            steps = []
            for ln in lines[1:]:
                if ln.get("e") == "add":
                    steps.append(("add", ln["at"]))
                elif ln.get("e") == "latest":
                    steps.append(("clock", ln["now"]))
            e = last.get("e")
            if e in ("range", "latest") and _pattern(steps, hdr["sizes"][0]):
                return "F-ts1;add-between-pendingTime-and-newest-bucket-after-Latest;%s" % (
                    "Range" if e == "range" else "Latest")
            return "trace;%s;nlevels=%d" % (e, len(hdr["sizes"]))
    except Exception:
        return None
    return None
