SPECIFICATION GSpec
CONSTANTS
  Kinds = {"ts", "mh"}
  Times = {}
  Start = 200000001
  ChkSet = {FALSE, TRUE}
  GenDepth = 24
INVARIANT Emit
CHECK_DEADLOCK FALSE
