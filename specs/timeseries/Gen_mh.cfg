SPECIFICATION GSpec
CONSTANTS
  Sizes <- SizesMH
  NB = 60
  Kind = "mh"
  UnitMs = 500
  Abs = FALSE
  Times <- NoTimes
  Deltas <- DeltasMH
  Start = 200000001
  ChkSet = {FALSE, TRUE}
  GenDepth = 24
INVARIANT Emit
CHECK_DEADLOCK FALSE
