-------------------------------- MODULE Gen --------------------------------
(* C61 history generator.  Histories of add / latest / query steps over the ghost bag of    *)
(* TSOracle, each step carrying what the ORACLE predicts (never what a bucket algorithm      *)
(* would compute):                                                                       *)
(*   add     t, v, and - when chk - the Total() expected right after it                     *)
(*   latest  the clock reading `now` and, for several (level, n), the expected Latest        *)
(*   query   the expected Total() and the expected Range(a, b) of every JUDGED candidate      *)
(*           range (aligned to the level that retains a; see TSOracle)                      *)
(* Times may lie exactly on bucket boundaries (the oracle's bucket rule decides).           *)
(* Every history ends with a query.            Times are in units; the header gives the     *)
(* level sizes in units, the number of buckets and the length of a unit in milliseconds so   *)
(* that the driver can build the series (custom small one through init, or the package's     *)
(* TimeSeries / MinuteHourSeries) and place model time on the real time line.               *)
EXTENDS TSOracle, Json

CONSTANTS Kinds,      \* shapes to generate for: subset of {"small", "ts", "mh"}
          Times,      \* "small": the times used (absolute, interior)
          Start,      \* "ts" / "mh": first time of a history; later ones are maxT + a delta
          ChkSet,     \* values of the chk flag of add steps ({FALSE} or BOOLEAN)
          GenDepth

\* golang.org/x/net/internal/timeseries: 1 s, 10 s, 1 m, 10 m, 1 h, 6 h, 1 d, 1 w, 4 w, 16 w in
\* units of 500 ms; minute/hour series: 1 s, 1 m
SizesTS == <<2, 20, 120, 1200, 7200, 43200, 172800, 1209600, 4838400, 19353600>>
SizesMH == <<2, 120>>
SizesSmall == <<4, 12>>

\* time jumps (units of 500 ms): same bucket, neighbours, the edges of the 64-bucket and
\* 60-bucket windows of the first levels, minutes, hours, days, months; forwards and backwards
\* boundary-exact: with 2 units per finest bucket the pending anchor is maxT or maxT + 1, so
\* 0, +-1, +-2, +-3, +-4 reach the anchor itself, one unit and one whole bucket either side of it
DeltasTS == LET P == {0, 1, 2, 3, 4, 20, 21, 126, 127, 128, 129, 1282, 7682, 172800, 20000000}
            IN P \cup {0 - d : d \in P}
DeltasMH == LET P == {0, 1, 2, 3, 4, 58, 118, 119, 120, 121, 7078, 7199, 7200, 7201, 100000}
            IN P \cup {0 - d : d \in P}

VARIABLES hist, kind
gvars == <<ovars, hist, kind>>

SizesOf(k) == IF k = "ts" THEN SizesTS ELSE IF k = "mh" THEN SizesMH ELSE SizesSmall
NBOf(k)    == IF k = "ts" THEN 64 ELSE IF k = "mh" THEN 60 ELSE 4
UnitOf(k)  == IF k = "small" THEN 250 ELSE 500          \* milliseconds per unit
Abs        == kind = "small"
Deltas     == IF kind = "ts" THEN DeltasTS ELSE DeltasMH

Val == IF Len(obs) < 20 THEN 2 ^ Len(obs) ELSE (Len(obs) % 7) + 1

Cands == IF Abs THEN Times
         ELSE IF ~seen THEN {Start}
         ELSE {x \in {maxT + d : d \in Deltas} : x >= 1}

GInit == \E k \in Kinds :
            /\ kind = k
            /\ OInitWith(SizesOf(k), NBOf(k))
            /\ hist = <<[op |-> "hdr", kind |-> k, sizes |-> SizesOf(k), nb |-> NBOf(k), unit_ms |-> UnitOf(k),
                        stale_from |-> 0]>>

\* the history holds the inputs only; the predictions are attached when it is printed
Step ==
    \/ \E t \in Cands, chk \in ChkSet :
          /\ OAdd(t, Val)
          /\ hist' = Append(hist, [op |-> "add", t |-> t, v |-> Val, chk |-> chk])
    \/ \E now \in Cands :
          /\ OClock(now)
          /\ hist' = Append(hist, [op |-> "latest", now |-> now])
    \/ /\ seen /\ hist[Len(hist)].op # "query"
       /\ hist' = Append(hist, [op |-> "query"]) /\ UNCHANGED ovars

\* every history ends with a query
FinalQuery == hist' = Append(hist, [op |-> "query"]) /\ UNCHANGED ovars

GNext == /\ kind' = kind
         /\ IF Len(hist) < GenDepth THEN Step
            ELSE IF Len(hist) = GenDepth THEN FinalQuery
            ELSE FALSE

GSpec == GInit /\ [][GNext]_gvars

---------------------------------------------------------------------------
(* predictions, from the oracle state (os, m, sn, cl) reached before each step *)

\* Latest questions asked at a clock reading: (level, n)
LatestQs(os, m, cl) ==
    LET pairs == {<<L, n>> : L \in {K \in Levels : K <= 3}, n \in {1, 2, NB - 1, NB}}
    IN SetToSeq({[l |-> p[1] - 1, n |-> p[2], exp |-> LatestExpOf(os, m, p[1], p[2])] :
                    p \in {q \in pairs : LatestJudgedAt(TRUE, cl, q[2])}})

\* candidate ranges: around the latest time told and the last few observations, at the first
\* levels, 0 .. NB buckets long, starting at or one bucket before the anchor's bucket; only the
\* JUDGED ones are exported
RangeQs(os, m, sn, cl) ==
    LET anchors == {m} \cup {os[i][1] : i \in {j \in 1..Len(os) : j > Len(os) - 4}}
        cands == {<<FloorTo(x, Sizes[L]) - d * Sizes[L], k * Sizes[L]>> :
                     x \in anchors, L \in {K \in Levels : K <= 4}, d \in {0, 1}, k \in {1, 2, NB}}
                 \cup {<<FloorTo(m, Sizes[1]), 0>>}
    IN SetToSeq({[a |-> c[1], b |-> c[1] + c[2], exp |-> RangeExpOf(os, c[1], c[1] + c[2])] :
                    c \in {r \in cands : RangeJudgedAt(sn, cl, m, r[1], r[1] + r[2])}})

RECURSIVE Ann(_, _, _, _, _, _)
Ann(h, i, os, m, sn, cl) ==
    IF i > Len(h) THEN <<>>
    ELSE LET e == h[i] IN
         IF e.op = "add"
         THEN <<[op |-> "add", t |-> e.t, v |-> e.v, chk |-> e.chk, total |-> SumAll(os) + e.v]>>
              \o Ann(h, i + 1, Append(os, <<e.t, e.v>>), IF sn THEN Max2(m, e.t) ELSE e.t, TRUE, cl /\ Interior(e.t))
         ELSE IF e.op = "latest"
         THEN LET m2 == IF sn THEN Max2(m, e.now) ELSE e.now
                  cl2 == cl /\ Interior(e.now)
              IN <<[op |-> "latest", now |-> e.now, qs |-> LatestQs(os, m2, cl2)]>>
                 \o Ann(h, i + 1, os, m2, TRUE, cl2)
         ELSE IF e.op = "query"
         THEN <<[op |-> "query", total |-> SumAll(os), rs |-> RangeQs(os, m, sn, cl)]>>
              \o Ann(h, i + 1, os, m, sn, cl)
         ELSE <<e>> \o Ann(h, i + 1, os, m, sn, cl)

\* Scenario class of the known finding F-ts1 (README.md), defined on the inputs alone: a clock
\* reading taken by Latest moved the end of the finest level (e0) past the anchor of the pending
\* slot (pt), and a later observation falls strictly after pt but at least one finest bucket
\* before e0.  StaleFrom = the number of the first such step (0 = the history has none); it is
\* exported in the header so that mismatches of that class are reported as one class.
Before == 0 - 1000000000
RECURSIVE StaleFrom(_, _, _, _)
StaleFrom(h, i, e0, pt) ==
    IF i > Len(h) THEN 0
    ELSE LET x == h[i] IN
         IF x.op = "latest" THEN StaleFrom(h, i + 1, Max2(e0, CeilTo(x.now, Sizes[1])), pt)
         ELSE IF x.op = "add" /\ x.t > pt
         THEN LET e1 == Max2(e0, CeilTo(x.t, Sizes[1])) IN
              IF x.t <= e1 - Sizes[1] THEN i - 1 ELSE StaleFrom(h, i + 1, e1, e1)
         ELSE StaleFrom(h, i + 1, e0, pt)

\* printed once per complete history
Emit == Len(hist) <= GenDepth
        \/ LET h == Ann(hist, 1, <<>>, 0, FALSE, TRUE)
               hdr == [h[1] EXCEPT !.stale_from = StaleFrom(hist, 2, Before, Before)]
           IN PrintT(<<"BEH", ToJson(<<hdr>> \o Tail(h))>>)
=============================================================================
