------------------------------ MODULE TSOracle ------------------------------
(* C61, property level: what a time series has to report, stated over the bag of          *)
(* observations alone (no buckets, no pending slot).                                      *)
(*                                                                                       *)
(* Time is an integer number of units; Sizes[L] is the bucket width of level L in units   *)
(* (Sizes[1] >= 2, each size divides the next), NB the number of buckets per level.        *)
(* Bucket boundaries of level L are the multiples of Sizes[L].  BUCKET RULE: a bucket of     *)
(* level L covers (end - Sizes[L], end], i.e. a time exactly on a boundary belongs to the    *)
(* bucket that ENDS there - for observations, for the clock, and therefore for what an        *)
(* aligned range reports: Range(a, b) with a, b on boundaries = the buckets between a and b   *)
(* = the observations with a < t <= b (for times strictly inside buckets this is a <= t < b).  *)
(* Times on boundaries are judged like all others (`clean` is only informational).           *)
(*                                                                                       *)
(*   obs    the observations so far, <<t, v>> in order of arrival                          *)
(*   maxT   the latest time the series has been told about (an observation time or a       *)
(*          clock reading taken by Latest); the retained window of level L ends at the      *)
(*          first boundary of L at or after maxT and is NB buckets long                     *)
(*   seen   something has been told;  clean   every time so far was strictly inside a bucket *)
(*                                                                                       *)
(* Oracle:                                                                               *)
(*   Total            = sum of all observations, always                                    *)
(*   Range(a, b)      = sum of the observations with a < t <= b, judged when the finest      *)
(*                      level whose retained window contains a exists and both a and b are   *)
(*                      boundaries of that level ("aligned to bucket boundaries", "within    *)
(*                      the retained window")                                              *)
(*   Latest(L, n)     = sum over the last n buckets of level L, i.e. WinEnd(L) - n*Sizes[L]  *)
(*                      < t <= WinEnd(L), 1 <= n <= NB                                      *)
EXTENDS Integers, Sequences, FiniteSets, TLC, SequencesExt

\* level sizes and bucket count are VARIABLES that never change, only so that one trace
\* validation run can hold traces of series with different shapes (they are read from the real
\* object into the trace header); model checking and generation fix them in the initial state
VARIABLES sizes, nb
Sizes == sizes
NB == nb

NL == Len(Sizes)
Levels == 1..NL

VARIABLES obs, maxT, seen, clean
ovars == <<obs, maxT, seen, clean, sizes, nb>>

Interior(t) == t % Sizes[1] # 0
CeilTo(t, s) == ((t + s - 1) \div s) * s
FloorTo(t, s) == (t \div s) * s
Max2(x, y) == IF x > y THEN x ELSE y

OInitWith(sz, n) == obs = <<>> /\ maxT = 0 /\ seen = FALSE /\ clean = TRUE /\ sizes = sz /\ nb = n

Tell(t) == /\ maxT' = IF seen THEN Max2(maxT, t) ELSE t
           /\ seen' = TRUE
           /\ clean' = (clean /\ Interior(t))
           /\ UNCHANGED <<sizes, nb>>

OAdd(t, v) == Tell(t) /\ obs' = Append(obs, <<t, v>>)
OClock(now) == Tell(now) /\ UNCHANGED obs           \* Latest reads the clock

---------------------------------------------------------------------------
\* the observations of the buckets between the boundaries a and b: a < t <= b
SumIn(os, a, b) == FoldLeft(LAMBDA acc, o : IF a < o[1] /\ o[1] <= b THEN acc + o[2] ELSE acc, 0, os)
SumAll(os) == FoldLeft(LAMBDA acc, o : acc + o[2], 0, os)

TotalExp(os) == SumAll(os)

\* retained window of level L when the latest time told is m
WinEnd(m, L) == CeilTo(m, Sizes[L])
WinStart(m, L) == WinEnd(m, L) - Sizes[L] * NB

Covering(m, a) == {L \in Levels : a >= WinStart(m, L)}
LevelFor(m, a) == CHOOSE L \in Covering(m, a) : \A K \in Covering(m, a) : L <= K

RangeJudgedAt(sn, cl, m, a, b) ==
    /\ sn /\ a <= b
    /\ Covering(m, a) # {}
    /\ LET L == LevelFor(m, a) IN a % Sizes[L] = 0 /\ b % Sizes[L] = 0
RangeExpOf(os, a, b) == SumIn(os, a, b)

LatestJudgedAt(sn, cl, n) == sn /\ n >= 1 /\ n <= NB
LatestExpOf(os, m, L, n) == SumIn(os, WinEnd(m, L) - n * Sizes[L], WinEnd(m, L))

\* on the current state
RangeJudged(a, b) == RangeJudgedAt(seen, clean, maxT, a, b)
RangeExp(a, b) == RangeExpOf(obs, a, b)
=============================================================================
