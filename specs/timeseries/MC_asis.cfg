SPECIFICATION Spec
CONSTANTS
  SizesC <- SizesSmall
  NBC = 4
  Times = {1, 4, 5, 8, 17, 61}
  MaxOps = 3
  Repaired = FALSE
INVARIANTS TotalOK WindowsOK RangeOK LatestOK
CHECK_DEADLOCK FALSE
