SPECIFICATION Spec
CONSTANTS
  Sizes <- SizesSmall
  NB = 4
  Times = {1, 2, 5, 14, 17, 21, 50, 61}
  MaxOps = 3
  Repaired = FALSE
INVARIANTS TotalOK WindowsOK RangeOK LatestOK
CHECK_DEADLOCK FALSE
