SPECIFICATION Spec
CONSTANTS
  SizesC <- SizesSmall
  NBC = 4
  Times = {1, 4, 8, 17, 61}
  MaxOps = 4
  Repaired = TRUE
INVARIANTS TotalOK WindowsOK RangeOK LatestOK
CHECK_DEADLOCK FALSE
