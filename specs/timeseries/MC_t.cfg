SPECIFICATION Spec
CONSTANTS
  SizesC <- SizesSmall
  NBC = 4
  Times = {1, 2, 5, 17, 21, 61}
  MaxOps = 4
  Repaired = TRUE
INVARIANTS TotalOK WindowsOK RangeOK LatestOK
CHECK_DEADLOCK FALSE
