SPECIFICATION Spec
CONSTANTS
  Sizes <- SizesSmall
  NB = 4
  Times = {1, 2, 5, 17, 21, 61}
  MaxOps = 4
  Repaired = TRUE
INVARIANTS TotalOK WindowsOK RangeOK LatestOK
CHECK_DEADLOCK FALSE
