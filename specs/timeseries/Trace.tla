------------------------------- MODULE Trace -------------------------------
(* Trace validation for C61.  One trace = one time series of the real package driven by a   *)
(* seeded history (time jumps from a bucket to months, forwards and backwards, optionally    *)
(* with times exactly on bucket boundaries); every call and what it returned is logged:      *)
(*   {"e":"hdr","sizes":[level sizes in units],"nb":buckets per level}  (read from the object)*)
(*   {"e":"add","at":T,"v":V}                                                             *)
(*   {"e":"total","r":R,"exact":b}             Total()                                     *)
(*   {"e":"range","a":A,"b":B,"r":R,"exact":b}  Range(A, B)                                 *)
(*   {"e":"latest","now":T,"l":level,"n":N,"r":R,"exact":b}   Latest(level, N), clock = T   *)
(* (R = the returned float when it is an integer - `exact` - else 0.)  TLC keeps the ghost    *)
(* bag of TSOracle and accepts a line only if the logged result is the oracle's wherever the  *)
(* oracle judges it: Total always, Range / Latest on aligned ranges inside the retained       *)
(* window of a history whose times are all interior.                                        *)
EXTENDS TSOracle, TraceIO

VARIABLES cur, l

tvars == <<ovars, cur, l>>
Line == Trace[l]

TInit ==
    \E t \in 1..NT :
       LET h == Trace[Meta.starts[t]] IN
       /\ cur = t /\ l = Meta.starts[t] + 1
       /\ h.e = "hdr"
       /\ OInitWith(h.sizes, h.nb)

TAdd == Line.e = "add" /\ OAdd(Line.at, Line.v)

TTotal == /\ Line.e = "total"
          /\ Line.exact /\ Line.r = TotalExp(obs)
          /\ UNCHANGED ovars

TRange == /\ Line.e = "range"
          /\ RangeJudged(Line.a, Line.b) => (Line.exact /\ Line.r = RangeExp(Line.a, Line.b))
          /\ UNCHANGED ovars

\* Latest reads the clock first; the expectation is over the window that ends after that reading
TLatest == /\ Line.e = "latest"
           /\ OClock(Line.now)
           /\ LET m == IF seen THEN Max2(maxT, Line.now) ELSE Line.now
                  cl == clean /\ Interior(Line.now)
              IN (Line.l + 1 \in Levels /\ LatestJudgedAt(TRUE, cl, Line.n)) =>
                    (Line.exact /\ Line.r = LatestExpOf(obs, m, Line.l + 1, Line.n))

TNext ==
    /\ l <= Meta.ends[cur]
    /\ l' = l + 1 /\ cur' = cur
    /\ (TAdd \/ TTotal \/ TRange \/ TLatest)

TSpec == TInit /\ [][TNext]_tvars
Mark == HighWater(cur, l)
=============================================================================
