------------------------------ MODULE GenIcmp ------------------------------
(* Enumerated domain of ICMP messages and IPv4 headers.  Every state is one case; TLC checks  *)
(* the wire-format laws on it (valid checksums, RFC 4884 layout) and exports the case with    *)
(* the bytes Marshal must produce and the message ParseMessage must return.                   *)
EXTENDS Icmp, Json

CONSTANTS Full          \* the larger cross product (thorough tier)
VARIABLE c

Pay(n, s) == [i \in 1..n |-> (i * 11 + s) % 256]
Msg(proto, type, code, k) == [proto |-> proto, type |-> type, code |-> code, k |-> k, id |-> 0, seq |-> 0, flag |-> 0,
                              val |-> 0, data |-> <<>>, exts |-> <<>>]

(* extension objects *)
L(label, tc, s, ttl) == [label |-> label, tc |-> tc, s |-> s, ttl |-> ttl]
Mpls(ls) == [k |-> "mpls", labels |-> ls]
IfInfo(idx, name, mtu, addr) == [k |-> "ifinfo", idx |-> idx, name |-> name, mtu |-> mtu, addr |-> addr]
Ident(ctype, name, idx, afi, addr) == [k |-> "ident", ctype |-> ctype, name |-> name, idx |-> idx, afi |-> afi, addr |-> addr]
RawObj(cls, n) == [k |-> "raw", data |-> U16(4 + n) \o <<cls, 7>> \o Pay(n, cls)]

Name(n) == [i \in 1..n |-> 97 + (i % 26)]            \* lower-case letters
A4 == <<192, 0, 2, 33>>
A6 == <<32, 1, 13, 184, 0, 0, 0, 0, 0, 0, 0, 0, 0, 0, 0, 1>>
AddrOf(proto) == IF proto = 1 THEN A4 ELSE A6

MpObjs(proto) ==
    <<Mpls(<<>>), Mpls(<<L(16014, 4, TRUE, 255)>>), Mpls(<<L(1048575, 7, FALSE, 0), L(0, 0, TRUE, 1)>>),
      IfInfo(15, Name(5), 8192, AddrOf(proto)), IfInfo(1, <<>>, 0, <<>>), IfInfo(0, <<>>, 0, AddrOf(proto)),
      IfInfo(2147483647, Name(63), 1, <<>>), IfInfo(7, Name(3), 0, AddrOf(proto)), RawObj(4, 0), RawObj(250, 8)>>

\* sequences of 0..3 objects (by index into MpObjs)
ExtIdx == IF Full
          THEN {<<>>} \cup {<<i>> : i \in 1..10} \cup {<<i, j>> : i \in 1..10, j \in {2, 4, 6, 9}} \cup {<<2, 4, 9>>, <<3, 7, 10>>, <<4, 4, 4>>}
          ELSE {<<>>} \cup {<<i>> : i \in 1..10} \cup {<<2, 4>>, <<4, 3>>, <<9, 1>>, <<6, 10>>, <<2, 4, 9>>, <<3, 7, 10>>}
Exts(proto, ix) == [i \in 1..Len(ix) |-> MpObjs(proto)[ix[i]]]

DLens == {0, 1, 3, 4, 20, 127, 128, 129, 131, 132, 133, 135, 136, 137}
DLensX == IF Full THEN DLens \cup {255, 256, 1020} ELSE {0, 1, 127, 128, 129, 132, 133, 136, 137}

MpTypes == {<<1, 3>>, <<1, 11>>, <<1, 12>>, <<58, 1>>, <<58, 3>>}        \* proto, type
MpCases ==
    {[Msg(t[1], t[2], 1 + (n % 5), "mp") EXCEPT !.val = (IF t[2] = 12 /\ t[1] = 1 THEN (n + 7) % 256 ELSE 0),
                                                 !.data = Pay(n, 0), !.exts = Exts(t[1], ix)] :
        t \in MpTypes, n \in DLens \cup DLensX, ix \in ExtIdx}
MpQuick(m) == \/ m.exts = <<>>
              \/ /\ Len(m.data) \in DLensX
                 /\ (Full \/ (m.type = 3 /\ m.proto = 1) \/ (Len(m.exts) = 1 /\ Len(m.data) \in {1, 129, 133}))

EchoCases ==
    {[Msg(t[1], t[2], 0, "echo") EXCEPT !.id = v[1], !.seq = v[2], !.data = Pay(n, 5)] :
        t \in {<<1, 8>>, <<1, 0>>, <<58, 128>>, <<58, 129>>}, v \in {<<0, 0>>, <<65535, 65535>>, <<4660, 22136>>}, n \in {0, 1, 2, 3, 56}}
XRepCases ==
    {[Msg(t[1], t[2], cd, "xrep") EXCEPT !.id = v[1], !.seq = v[2], !.flag = f] :
        t \in {<<1, 43>>, <<58, 161>>}, v \in {<<0, 0>>, <<65535, 255>>, <<258, 3>>}, f \in {0, 1, 2, 4, 7, 8, 23, 63}, cd \in IF Full THEN {0, 4} ELSE {0}}
IdObjs == <<Ident(1, Name(5), 0, 0, <<>>), Ident(1, Name(4), 0, 0, <<>>), Ident(2, <<>>, 911, 0, <<>>),
            Ident(3, <<>>, 0, 1, A4), Ident(3, <<>>, 0, 3, <<73, 0, 1, 170, 170, 187, 187, 204, 204, 0>>),
            Ident(3, <<>>, 0, 2, A6), Ident(0, <<>>, 0, 0, <<>>), RawObj(9, 4),
            Ident(3, <<>>, 0, 6, <<1, 2, 3, 4, 5>>), Ident(3, <<>>, 0, 65535, <<9>>), Ident(1, Name(1), 0, 0, <<>>)>>
IdIdx == {<<>>} \cup {<<i>> : i \in 1..11} \cup {<<1, 3>>, <<2, 2>>, <<8, 8>>, <<3, 4, 6>>, <<5, 1>>, <<9, 10, 11>>}
XReqCases ==
    {[Msg(t[1], t[2], 0, "xreq") EXCEPT !.id = v[1], !.seq = v[2], !.flag = f, !.exts = [i \in 1..Len(ix) |-> IdObjs[ix[i]]]] :
        t \in {<<1, 42>>, <<58, 160>>}, v \in {<<1, 2>>, <<65535, 255>>}, f \in {0, 1}, ix \in IdIdx}
OtherCases ==
    {[Msg(58, 4, cd, "pp6") EXCEPT !.val = v, !.data = Pay(n, 9)] : cd \in {0, 2}, v \in {0, 40, 2147483647}, n \in {0, 1, 40, 136}}
    \cup {[Msg(58, 2, 0, "ptb") EXCEPT !.val = v, !.data = Pay(n, 9)] : v \in {0, 1280, 2147483647}, n \in {0, 1, 40, 136}}
    \cup {[Msg(t[1], t[2], 3, "raw") EXCEPT !.data = Pay(n, 1)] : t \in {<<1, 13>>, <<1, 5>>, <<58, 133>>, <<58, 255>>}, n \in {1, 4, 21}}
    \cup {Msg(t[1], t[2], 9, "nil") : t \in {<<1, 13>>, <<58, 133>>}}

Hdr(tos, tl, id, fl, fo, ttl, pr, cs, s, d, o) ==
    [k |-> "iphdr", len |-> 20 + Len(o), tos |-> tos, totallen |-> tl, id |-> id, flags |-> fl, fragoff |-> fo, ttl |-> ttl,
     proto |-> pr, csum |-> cs, src |-> s, dst |-> d, opts |-> o]
HdrCases ==
    {Hdr(v[1], v[2], v[3], f[1], f[2], v[4], v[5], v[6], s, A4, Pay(on, 3)) :
        v \in {<<0, 20, 0, 0, 0, 0>>, <<255, 65535, 65535, 255, 255, 65535>>, <<1, 1500, 43981, 64, 1, 57005>>},
        f \in IF Full THEN {0, 1, 2, 3, 7} \X {0, 1, 8191} ELSE {<<0, 0>>, <<1, 8191>>, <<2, 0>>, <<3, 1>>, <<7, 8191>>},
        s \in {<<0, 0, 0, 0>>, <<255, 255, 255, 255>>} \cup (IF Full THEN {<<10, 1, 2, 3>>} ELSE {}), on \in {0, 4, 40}}

Cases == {m \in MpCases : MpQuick(m)} \cup EchoCases \cup XRepCases \cup XReqCases \cup OtherCases \cup HdrCases

\* one root state, every case is a successor (successors are generated and checked in parallel)
Root == [k |-> "root"]
Init == c = Root
Next == c = Root /\ c' \in Cases
Spec == Init /\ [][Next]_c

Psh == A6 \o A6 \o <<0, 0, 0, 0, 0, 0, 0, 58>>

\* The laws of a case, evaluated on one computation of its bytes:
\*   checksum  ICMPv4 output verifies; with a pseudo header so does ICMPv6 output
\*   layout    RFC 4884 length attribute / padding / extension structure (LayoutOK)
\*   norm      the padded form is a fixed point: marshalling what the parser returns gives the same bytes
\* and the export of the case with everything the specification predicts.
IcmpLaws(m) ==
    LET w  == Wire(m)
        w6 == IF m.proto = 58 THEN Wire6(m, Psh) ELSE <<>>
        p  == Norm(m)
    IN /\ (IF m.proto = 1 THEN CsumOK(w) ELSE CsumOK(PshLen(Psh, Len(w)) \o w6))
       /\ LayoutOK(m, w)
       /\ Wire(p) = w /\ Norm(p) = p
       /\ PrintT(<<"CASE", ToJson([kind |-> "icmp", m |-> m, w |-> w, p |-> p, psh |-> Psh, w6 |-> w6])>>)
HdrLaws(h) ==
    LET w == HWire(h) IN
    /\ Len(w) = h.len /\ w[1] = 64 + h.len \div 4
    /\ PrintT(<<"CASE", ToJson([kind |-> "iphdr", h |-> h, w |-> w])>>)

Laws == c = Root \/ (IF c.k = "iphdr" THEN HdrLaws(c) ELSE IcmpLaws(c))
=============================================================================
