SPECIFICATION Spec
CONSTANTS
  Full = FALSE
INVARIANTS Laws
CHECK_DEADLOCK FALSE
