# Signatures for findings of the icmp family: message kind / protocol / type / extension kinds /
# original-datagram size class and what disagreed.


def _dclass(n):
    if n == 0:
        return "0"
    if n < 128:
        return "<128"
    if n == 128:
        return "128"
    return ">128" + ("" if n % 4 else "a4") + ("" if n % 8 else "a8")


def _msg(m):
    ex = ",".join(e.get("k", "?") + (str(e.get("ctype")) if e.get("k") == "ident" else "") for e in (m.get("exts") or []))
    return "k=%s;proto=%s;type=%s;data=%s;exts=[%s]" % (m.get("k"), m.get("proto"), m.get("type"), _dclass(len(m.get("data") or [])), ex)


def signature(prop, kind, scenario, detail):
    what = ((detail or {}).get("what") or "").split(":")[0][:60]
    try:
        if kind == "replay" and isinstance(scenario, dict):
            if scenario.get("kind") == "iphdr":
                h = scenario.get("h", {})
                return "replay:iphdr;opts=%d;flags=%s;%s" % (len(h.get("opts") or []), h.get("flags"), what)
            return "replay:icmp;%s;%s" % (_msg(scenario.get("m", {})), what)
        if kind == "trace" and isinstance(scenario, dict):
            last = (scenario.get("lines") or [{}])[-1]
            if last.get("e") == "icmp":
                return "trace:icmp;%s;merr=%s;perr=%s" % (_msg(last.get("m", {})), bool(last.get("merr")), bool(last.get("perr")))
            if last.get("e") == "iphdr":
                return "trace:iphdr;opts=%d" % len((last.get("h") or {}).get("opts") or [])
            return "trace:%s;%s" % (last.get("e"), last.get("op", ""))
    except Exception:
        return None
    return None
