SPECIFICATION Spec
CONSTANTS
  Full = TRUE
INVARIANTS Laws
CHECK_DEADLOCK FALSE
