-------------------------------- MODULE Icmp --------------------------------
(* Wire formats behind property C60: the RFC 1071 checksum, ICMPv4 / ICMPv6 messages        *)
(* (RFC 792, 4443, 8335), the RFC 4884 multi-part layout with extension objects (RFC 4950    *)
(* MPLS label stack, RFC 5837 interface information, RFC 8335 interface identification),     *)
(* the IPv4 header, and the round-trip equations Parse(Marshal(x)) = Norm(x).                *)
(*                                                                                          *)
(* An abstract message is a record                                                          *)
(*   [proto (1 | 58), type, code, k (body kind), id, seq, flag, val, data, exts]             *)
(* k: "echo" | "xreq" | "xrep" | "mp" (destination unreachable, time exceeded, ICMPv4        *)
(* parameter problem: original datagram + extensions) | "pp6" | "ptb" | "raw" | "nil".       *)
(* flag: xreq L-bit (0/1), xrep state*8 + active*4 + ipv4*2 + ipv6; val: pointer / MTU;      *)
(* data: byte sequence; exts: sequence of extension objects                                 *)
(*   [k |-> "mpls", labels |-> <<[label, tc, s, ttl]>>]                                      *)
(*   [k |-> "ifinfo", idx, name (bytes), mtu, addr (bytes, empty | 4 | 16)]                  *)
(*   [k |-> "ident", ctype, name, idx, afi, addr]                                            *)
(*   [k |-> "raw", data]   (a well-formed object of another class)                           *)
EXTENDS Integers, Sequences, FiniteSets, TLC

(* ------------------------------------------------------------------ bytes *)
U16(n) == <<(n \div 256) % 256, n % 256>>
U32(n) == <<(n \div 16777216) % 256, (n \div 65536) % 256, (n \div 256) % 256, n % 256>>
Zeros(k) == [i \in 1..k |-> 0]
RoundUp(n, a) == ((n + a - 1) \div a) * a
Max(a, b) == IF a > b THEN a ELSE b
Pad(b, n) == b \o Zeros(n - Len(b))
RECURSIVE Flat(_)
Flat(ss) == IF ss = <<>> THEN <<>> ELSE Head(ss) \o Flat(Tail(ss))

(* ------------------------------------------------------------------ RFC 1071 *)
\* sum of the big-endian 16-bit words of b (an odd last byte is padded with zero)
Word(b, i) == b[i] * 256 + (IF i + 1 <= Len(b) THEN b[i + 1] ELSE 0)
RECURSIVE SumW(_, _, _)                                 \* words at the odd positions lo, lo + 2, .., hi (halving: shallow recursion)
SumW(b, lo, hi) == IF lo > hi THEN 0
                   ELSE IF lo = hi THEN Word(b, lo)
                   ELSE LET mid == lo + 2 * ((hi - lo) \div 4) IN SumW(b, lo, mid) + SumW(b, mid + 2, hi)
SumFrom(b, i) == SumW(b, i, IF Len(b) % 2 = 1 THEN Len(b) ELSE Len(b) - 1)
Fold1(s) == (s \div 65536) + (s % 65536)
Fold(s) == Fold1(Fold1(s))
Checksum(b) == 65535 - Fold(SumFrom(b, 1))            \* value for the checksum field (computed with the field zero)
CsumOK(b) == Fold(SumFrom(b, 1)) = 65535              \* a receiver's check over data including the field
SetAt(b, i, v) == [b EXCEPT ![i] = v]
\* b with its checksum stored at bytes i, i+1 (which must be zero in b)
WithCsum(b, i) == LET c == Checksum(b) IN SetAt(SetAt(b, i, c \div 256), i + 1, c % 256)

(* ------------------------------------------------------------------ extension objects *)
MplsBytes(l) == <<l.label \div 4096, (l.label \div 16) % 256, (l.label % 16) * 16 + l.tc * 2 + (IF l.s THEN 1 ELSE 0), l.ttl>>

IfHasIdx(e)  == e.idx > 0
IfHasName(e) == IfHasIdx(e) /\ e.name # <<>>
IfHasMtu(e)  == IfHasIdx(e) /\ e.mtu > 0
IfHasAddr(e, proto) == (proto = 1 /\ Len(e.addr) = 4) \/ (proto = 58 /\ Len(e.addr) = 16)
IfAttrs(e, proto) == (IF IfHasIdx(e) THEN 8 ELSE 0) + (IF IfHasAddr(e, proto) THEN 4 ELSE 0)
                     + (IF IfHasName(e) THEN 2 ELSE 0) + (IF IfHasMtu(e) THEN 1 ELSE 0)
IfNameLen(e) == RoundUp(1 + Len(e.name), 4)            \* names up to 63 bytes
IfBody(e, proto) ==
       (IF IfHasIdx(e) THEN U32(e.idx) ELSE <<>>)
    \o (IF IfHasAddr(e, proto) THEN U16(IF proto = 1 THEN 1 ELSE 2) \o <<0, 0>> \o e.addr ELSE <<>>)
    \o (IF IfHasName(e) THEN Pad(<<IfNameLen(e)>> \o e.name, IfNameLen(e)) ELSE <<>>)
    \o (IF IfHasMtu(e) THEN U32(e.mtu) ELSE <<>>)

IdentBody(e) == CASE e.ctype = 1 -> Pad(e.name, RoundUp(Len(e.name), 4))
                  [] e.ctype = 2 -> U32(e.idx)
                  [] e.ctype = 3 -> U16(e.afi) \o <<Len(e.addr), 0>> \o Pad(e.addr, RoundUp(Len(e.addr), 4))
                  [] OTHER       -> <<>>

ObjBytes(e, proto) ==
    CASE e.k = "mpls"   -> U16(4 + 4 * Len(e.labels)) \o <<1, 1>> \o Flat([i \in 1..Len(e.labels) |-> MplsBytes(e.labels[i])])
      [] e.k = "ifinfo" -> LET b == IfBody(e, proto) IN U16(4 + Len(b)) \o <<2, IfAttrs(e, proto)>> \o b
      [] e.k = "ident"  -> LET b == IdentBody(e) IN U16(4 + Len(b)) \o <<3, e.ctype>> \o b
      [] e.k = "raw"    -> e.data

\* the extension structure: header (version 2, checksum over the whole structure) and the objects
ExtStruct(exts, proto) ==
    WithCsum(<<32, 0, 0, 0>> \o Flat([i \in 1..Len(exts) |-> ObjBytes(exts[i], proto)]), 3)

(* ------------------------------------------------------------------ message bodies *)
Unit(proto) == IF proto = 1 THEN 4 ELSE 8
\* RFC 4884: with extensions the original datagram is zero padded to at least 128 bytes and
\* to a multiple of the length attribute's unit
DataLen(m) == IF m.exts = <<>> THEN Len(m.data) ELSE Max(128, RoundUp(Len(m.data), Unit(m.proto)))

Body(m) ==
    CASE m.k = "echo" -> U16(m.id) \o U16(m.seq) \o m.data
      [] m.k = "xrep" -> U16(m.id) \o <<m.seq, (m.flag \div 8) * 32 + (m.flag % 8)>>
      [] m.k = "xreq" -> U16(m.id) \o <<m.seq, m.flag>> \o (IF m.exts = <<>> THEN <<>> ELSE ExtStruct(m.exts, m.proto))
      [] m.k = "mp"   -> LET dl == DataLen(m)
                             la == IF m.exts = <<>> THEN 0 ELSE dl \div Unit(m.proto)      \* length attribute
                         IN (IF m.proto = 1 THEN <<m.val, la, 0, 0>> ELSE <<la, 0, 0, 0>>)
                            \o Pad(m.data, dl)
                            \o (IF m.exts = <<>> THEN <<>> ELSE ExtStruct(m.exts, m.proto))
      [] m.k = "pp6"  -> U32(m.val) \o m.data
      [] m.k = "ptb"  -> U32(m.val) \o m.data
      [] m.k = "raw"  -> m.data
      [] m.k = "nil"  -> <<>>

\* Marshal(nil): ICMPv4 carries its checksum, ICMPv6 leaves it to the kernel
Wire(m) == LET b == <<m.type, m.code, 0, 0>> \o Body(m) IN
           IF m.proto = 1 THEN WithCsum(b, 3) ELSE b
\* Marshal(psh) for ICMPv6: checksum over the pseudo header (with the upper-layer length) and the message
PshLen(psh, n) == SubSeq(psh, 1, 32) \o U32(n) \o SubSeq(psh, 37, 40)
Wire6(m, psh) == LET b == <<m.type, m.code, 0, 0>> \o Body(m)
                     c == Checksum(PshLen(psh, Len(b)) \o b)
                 IN SetAt(SetAt(b, 3, c \div 256), 4, c % 256)

\* what ParseMessage must return for Wire(m): the message itself, the original datagram in its padded form
Norm(m) == IF m.k = "mp" THEN [m EXCEPT !.data = Pad(m.data, DataLen(m))] ELSE m

(* ------------------------------------------------------------------ layout read off the bytes *)
\* the object lengths found at offset off (1-based) of w chain exactly to the end of w
RECURSIVE ObjChain(_, _)
ObjChain(w, off) == IF off = Len(w) + 1 THEN TRUE
                    ELSE /\ off + 3 <= Len(w)
                         /\ LET ol == w[off] * 256 + w[off + 1] IN
                            ol >= 4 /\ off + ol <= Len(w) + 1 /\ ObjChain(w, off + ol)
RECURSIVE ObjCount(_, _)
ObjCount(w, off) == IF off >= Len(w) + 1 THEN 0 ELSE 1 + ObjCount(w, off + w[off] * 256 + w[off + 1])

\* extension structure starting at 1-based offset off: version 2, valid checksum, object chain
ExtAt(w, off, n) == /\ off + 3 <= Len(w)
                    /\ w[off] \div 16 = 2
                    /\ CsumOK(SubSeq(w, off, Len(w)))
                    /\ ObjChain(w, off + 4)
                    /\ ObjCount(w, off + 4) = n

\* the RFC 4884 layout of a marshalled multi-part message w of abstract message m
LayoutOK(m, w) ==
    IF m.k = "mp" THEN
        LET la == IF m.proto = 1 THEN w[6] ELSE w[5]       \* length attribute on the wire
            dl == la * Unit(m.proto)                      \* padded original datagram it announces
            n  == Len(m.data)
        IN IF m.exts = <<>> THEN Len(w) = 8 + n /\ la = 0
           ELSE /\ dl >= 128 /\ dl >= n /\ (dl = 128 \/ dl - n < Unit(m.proto))
                /\ Len(w) >= 8 + dl + 4
                /\ SubSeq(w, 9, 8 + n) = m.data
                /\ \A i \in (9 + n)..(8 + dl) : w[i] = 0
                /\ ExtAt(w, 9 + dl, Len(m.exts))
    ELSE IF m.k = "xreq" THEN
        IF m.exts = <<>> THEN Len(w) = 8 ELSE ExtAt(w, 9, Len(m.exts))
    ELSE TRUE

(* ------------------------------------------------------------------ IPv4 header *)
\* [len, tos, totallen, id, flags, fragoff, ttl, proto, csum, src, dst, opts]; network byte order (linux)
HWire(h) == <<64 + (((20 + Len(h.opts)) \div 4) % 16), h.tos>> \o U16(h.totallen) \o U16(h.id)
            \o U16(h.flags * 8192 + h.fragoff) \o <<h.ttl, h.proto>> \o U16(h.csum) \o h.src \o h.dst \o h.opts
=============================================================================
