------------------------------ MODULE TraceIcmp ------------------------------
(* Trace validation for the icmp driver: each recorded Marshal / Parse of a seeded message,  *)
(* IPv4 header or control message is judged with the equations of C60.  Checksums and the    *)
(* RFC 4884 layout are recomputed here from the logged bytes.                                *)
EXTENDS Icmp, TraceIO

VARIABLES cur, l
tvars == <<cur, l>>
Line == Trace[l]

TInit == \E t \in 1..NT : cur = t /\ l = Meta.starts[t] + 1 /\ Trace[Meta.starts[t]].e = "hdr"

TIcmp ==
    /\ Line.e = "icmp"
    /\ LET m == Line.m  w == Line.w IN
       /\ Line.merr = "" /\ Line.perr = ""
       /\ Len(w) = 4 + Len(Body(m)) /\ w[1] = m.type /\ w[2] = m.code     \* predicted total length
       /\ LayoutOK(m, w)                                                 \* length attribute, padding, extension structure
       /\ Line.p = Norm(m)                                               \* ParseMessage(Marshal(m)) = m
       /\ Line.pcs = w[3] * 256 + w[4]
       /\ IF m.proto = 1 THEN CsumOK(w)                                  \* ICMPv4 output verifies
          ELSE /\ w[3] = 0 /\ w[4] = 0
               /\ Len(Line.w6) = Len(w) /\ Len(Line.psh) = 40
               /\ \A i \in 1..Len(w) : i \in {3, 4} \/ Line.w6[i] = w[i]
               /\ CsumOK(PshLen(Line.psh, Len(w)) \o Line.w6)

SameHdr(a, b) == a = b
THdr ==
    /\ Line.e = "iphdr"
    /\ LET h == Line.h  w == Line.w IN
       /\ h.len = 20 + Len(h.opts)
       /\ Len(w) = h.len /\ w[1] = 64 + h.len \div 4
       /\ Line.p = h /\ Line.p2 = h

\* control messages: what Marshal puts in is what Parse reads back (fields carried both ways)
TCm4 ==
    /\ Line.e = "cm4"
    /\ Line.oifindex = Line.ifindex
    /\ (Line.n = 0) = (Line.src = <<>> /\ Line.ifindex = 0)
TCm6 ==
    /\ Line.e = "cm6"
    /\ Line.otc = Line.tc /\ Line.ohl = Line.hl /\ Line.oifindex = Line.ifindex
    /\ (Line.src # <<>> => Line.odst = Line.src)
    \* (the next-hop option is not marshalled on every platform: it only excuses a non-empty encoding)
    /\ LET nothing == Line.tc = 0 /\ Line.hl = 0 /\ Line.src = <<>> /\ Line.ifindex = 0 IN
       /\ (Line.n = 0 => nothing)
       /\ (nothing /\ ~Line.nexthop => Line.n = 0)

TNext ==
    /\ l <= Meta.ends[cur]
    /\ l' = l + 1 /\ cur' = cur
    /\ (TIcmp \/ THdr \/ TCm4 \/ TCm6)

TSpec == TInit /\ [][TNext]_tvars
Mark == HighWater(cur, l)
=============================================================================
