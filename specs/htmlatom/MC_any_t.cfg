SPECIFICATION Spec
CONSTANTS
  MText <- TextC
  MSlots = 4
  MMaxLen = 2
  MMaxEntries = 2
  MBytes = {1, 2}
INVARIANTS InvNecessary InvSufficient
CHECK_DEADLOCK FALSE
