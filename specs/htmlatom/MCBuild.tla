------------------------------ MODULE MCBuild ------------------------------
(* Design-level model 1: the table generator of html/atom/gen.go.                        *)
(*                                                                                     *)
(* gen.go builds the table by two-choice (cuckoo) insertion with bounded eviction       *)
(* (table.insert / table.push).  This model runs that algorithm, one Insert per step,   *)
(* over a small universe: a short text, every (offset, length) inside it as a candidate  *)
(* atom, MSlots slots, and an ARBITRARY hash for every inserted name (both probe         *)
(* positions chosen nondeterministically - fnv is abstracted to "any function").         *)
(* Checked in every reachable state: the table is WellFormed (AtomTable.tla) and the     *)
(* two-probe Lookup is EXACT for every query over the byte alphabet up to length         *)
(* maxLen+1, whatever a non-name hashes to.  A failed insertion (gen.go then tries        *)
(* another seed) must leave the table as it was.                                         *)
EXTENDS AtomTable, TLC

CONSTANTS MText,      \* the shared text, e.g. <<1, 2, 1, 1>>
          MSlots,     \* table size (a power of two, as gen.go makes it)
          MMaxLen,    \* maxAtomLen
          MMaxAtoms,  \* how many atoms are inserted at most
          MBytes      \* byte alphabet of the queries

VARIABLES tab,        \* 0..MSlots-1 -> packed atom | 0
          placed,     \* atoms inserted so far
          hh,         \* placed atom -> <<hi, lo>> hash of its name, hi, lo \in 0..MSlots-1
          st          \* "ok" | "failed"
vars == <<tab, placed, hh, st>>

Slots  == 0..(MSlots - 1)
Hashes == Slots \X Slots
T      == [text |-> MText, tab |-> tab, n |-> MSlots, maxLen |-> MMaxLen]

(* candidates: every non-empty slice of the text that passes the length guard            *)
Cand == {Pack(p[1], p[2]) : p \in {p \in (0..(Len(MText) - 1)) \X (1..MMaxLen) : p[1] + p[2] <= Len(MText)}}
NameOf(a) == StringOf(MText, a)

RECURSIVE StrN(_)
StrN(k)  == IF k = 0 THEN {<<>>} ELSE {Append(s, b) : s \in StrN(k - 1), b \in MBytes}
Queries  == UNION {StrN(k) : k \in 0..(MMaxLen + 1)}

----------------------------------------------------------------------------
(* gen.go:  func (t *table) push(i uint32, depth int) bool                               *)
(*   if depth > len(t.tab) { return false }                                              *)
(*   s := t.tab[i]; h1, h2 := t.hash(s); j := h1 + h2 - i                               *)
(*   if t.tab[j] != "" && !t.push(j, depth+1) { return false }                           *)
(*   t.tab[j] = s; return true                                                           *)
P1(H, a) == Slot1([n |-> MSlots], H[a])
P2(H, a) == Slot2([n |-> MSlots], H[a])

RECURSIVE Push(_, _, _, _)
Push(t, H, i, depth) ==
    IF depth > MSlots THEN [ok |-> FALSE, tab |-> t]
    ELSE LET s == t[i]
             j == P1(H, s) + P2(H, s) - i
         IN  IF t[j] # 0
             THEN LET r == Push(t, H, j, depth + 1)
                  IN  IF r.ok THEN [ok |-> TRUE, tab |-> [r.tab EXCEPT ![j] = s]]
                      ELSE [ok |-> FALSE, tab |-> r.tab]
             ELSE [ok |-> TRUE, tab |-> [t EXCEPT ![j] = s]]

(* gen.go:  func (t *table) insert(s string) bool *)
InsertGo(t, H, a) ==
    LET h1 == P1(H, a)
        h2 == P2(H, a)
    IN  IF t[h1] = 0 THEN [ok |-> TRUE, tab |-> [t EXCEPT ![h1] = a]]
        ELSE IF t[h2] = 0 THEN [ok |-> TRUE, tab |-> [t EXCEPT ![h2] = a]]
        ELSE LET r1 == Push(t, H, h1, 0)
             IN  IF r1.ok THEN [ok |-> TRUE, tab |-> [r1.tab EXCEPT ![h1] = a]]
                 ELSE LET r2 == Push(r1.tab, H, h2, 0)
                      IN  IF r2.ok THEN [ok |-> TRUE, tab |-> [r2.tab EXCEPT ![h2] = a]]
                          ELSE [ok |-> FALSE, tab |-> r2.tab]

Init == /\ tab = [i \in Slots |-> 0]
        /\ placed = {}
        /\ hh = [a \in {} |-> <<0, 0>>]
        /\ st = "ok"

Insert(a, h) ==
    /\ st = "ok"
    /\ Cardinality(placed) < MMaxAtoms
    /\ a \notin placed
    /\ \A b \in placed : NameOf(b) # NameOf(a)          \* gen.go: sort + uniq of the name lists
    /\ LET H == [b \in placed \cup {a} |-> IF b = a THEN h ELSE hh[b]]
           r == InsertGo(tab, H, a)
       IN  /\ tab' = r.tab
           /\ IF r.ok THEN placed' = placed \cup {a} /\ hh' = H /\ st' = "ok"
                      ELSE placed' = placed /\ hh' = hh /\ st' = "failed"

Next == \E a \in Cand, h \in Hashes : Insert(a, h)
Spec == Init /\ [][Next]_vars

----------------------------------------------------------------------------
HOf(a) == hh[a]

(* I1: whatever insert does (also when it gives up) the table stays well-formed for the  *)
(*     atoms placed so far                                                               *)
InvWellFormed == WellFormed(T, placed, HOf) /\ WfNoDup(T)

(* a hash h is possible for query q unless q is a placed name (then it is that name's hash) *)
HashesOf(q) == LET own == {a \in placed : NameOf(a) = q}
               IN  IF own = {} THEN Hashes ELSE {hh[a] : a \in own}

(* I2: Lookup is exact for ALL queries, whatever a non-name hashes to *)
InvExact == \A q \in Queries :
               LET abs == LookupAbs(T, placed, q)
               IN  \A h \in HashesOf(q) : LookupImpl(T, q, h) = abs

(* I3: String non-empty and Lookup(String(a)) = a *)
InvRoundTrip == \A a \in placed : RoundTrip(T, a, hh[a])

(* gen.go gives up on this seed when insert returns false; nothing may have been moved   *)
FailKeeps == [][st' = "failed" => tab' = tab]_vars

(* texts for the configs (cfg files cannot hold tuples) *)
TextA == <<1, 2, 1, 1>>
TextB == <<1, 2, 2, 1, 3>>
=============================================================================
