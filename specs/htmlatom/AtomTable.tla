----------------------------- MODULE AtomTable -----------------------------
(* C42 - golang.org/x/net/html/atom: "the atom table is an exact dictionary".          *)
(*                                                                                     *)
(* The package is NOT a map.  An Atom is a packed pair (offset << 8 | length) into one  *)
(* shared text; Lookup hashes the query with a seeded 32-bit FNV-1a and probes exactly  *)
(* two slots of a 2^k-entry table (cuckoo style); String slices the text.  This module  *)
(* is the specification of that data structure, as constant-level operators over a      *)
(* "table record"                                                                      *)
(*     T = [text   : sequence of byte codes (atomText),                                *)
(*          tab    : function 0..n-1 -> packed atom (0 = empty slot)   (table),         *)
(*          n      : number of slots,                                                  *)
(*          maxLen : maxAtomLen]                                                       *)
(* so that the same operators serve                                                    *)
(*   - MCAtom.tla : exhaustive TLC models over small universes (all tables built by     *)
(*                  gen.go's insertion; all tables whatsoever), and                    *)
(*   - Trace.tla  : validation of what the real package does (the real table, the real  *)
(*                  Lookup / String / fnv results logged by the driver).               *)
(* A hash value is a pair <<hi, lo>> of 16-bit limbs (TLC integers are 32-bit signed).  *)
EXTENDS Integers, Sequences, FiniteSets

----------------------------------------------------------------------------
(* Packed atoms *)
Off(a)       == a \div 256                 \* uint32(a >> 8)
Ln(a)        == a % 256                    \* uint32(a & 0xff)
Pack(off, n) == off * 256 + n

(* Atom.String():  start := a>>8; n := a&0xff;                                         *)
(*                 if start+n > len(atomText) { return "" }; atomText[start:start+n]   *)
SliceSN(text, start, n) ==
    IF start + n > Len(text) THEN <<>> ELSE SubSeq(text, start + 1, start + n)
StringOf(text, a) == SliceSN(text, Off(a), Ln(a))

(* The same for an arbitrary uint32 given as limbs (values >= 2^31 do not fit TLC).     *)
(* start = a>>8 < 2^24 and n < 2^8, so uint32 start+n cannot wrap.                      *)
StringOfWide(text, hi, lo) == SliceSN(text, hi * 256 + lo \div 256, lo % 256)

(* the unexported a.string() used by Lookup has no range check: it panics              *)
InText(text, a) == Off(a) + Ln(a) <= Len(text)

----------------------------------------------------------------------------
(* Bit operations: a & b and a ^^ b of the CommunityModules Bitwise module (defined there  *)
(* bit by bit; TLC evaluates them with its Java override).                               *)
LOCAL INSTANCE Bitwise

(* fnv(h, s):  for each byte c:  h ^= c;  h *= 16777619        (uint32, FNV-1a step)    *)
(* 16777619 = 0x0100_0193 = 256 * 2^16 + 403.  With h = hi * 2^16 + lo:                 *)
(*   h * P mod 2^32 = lo*403 + 2^16 * ((hi*403 + lo*256) mod 2^16)      (mod 2^32)      *)
(* every intermediate value stays below 2^27.                                           *)
FnvStep(h, c) ==
    LET lo1 == (h[2] \div 256) * 256 + ((h[2] % 256) ^^ c)
        p   == lo1 * 403
    IN  << (h[1] * 403 + lo1 * 256 + p \div 65536) % 65536, p % 65536 >>

RECURSIVE FnvFrom(_, _, _)
FnvFrom(h, s, i) == IF i > Len(s) THEN h ELSE FnvFrom(FnvStep(h, s[i]), s, i + 1)
Fnv(h0, s) == FnvFrom(h0, s, 1)

(* published FNV-1a 32-bit vectors (offset basis 0x811c9dc5): "" , "a", "foobar"        *)
ASSUME Fnv(<<33052, 40389>>, <<>>) = <<33052, 40389>>
ASSUME Fnv(<<33052, 40389>>, <<97>>) = <<58380, 10540>>                     \* 0xe40c292c
ASSUME Fnv(<<33052, 40389>>, <<102, 111, 111, 98, 97, 114>>) = <<49052, 63848>>  \* 0xbf9cf968

----------------------------------------------------------------------------
(* How Lookup USES the hash:  table[h & (len-1)]  then  table[(h>>16) & (len-1)].       *)
(* (len-1) is split into limbs as well; h>>16 has 16 bits, so only the low limb of the   *)
(* mask matters for the second probe.                                                   *)
Slot1(T, h) == LET m == T.n - 1 IN
                 (h[1] & (m \div 65536)) * 65536 + (h[2] & (m % 65536))
Slot2(T, h) == h[1] & ((T.n - 1) % 65536)

(* match(a.string(), s), guarded by int(a&0xff) == len(s): all bytes equal *)
Hit(T, a, q) == Ln(a) = Len(q) /\ InText(T.text, a) /\ StringOf(T.text, a) = q
(* the same guard passes but a.string() slices outside atomText: the real code panics   *)
Boom(T, a, q) == Ln(a) = Len(q) /\ ~InText(T.text, a)

Panics == 0 - 1

(* Lookup(s), exact control flow.  h is the hash of q. *)
LookupImpl(T, q, h) ==
    IF Len(q) = 0 \/ Len(q) > T.maxLen THEN 0
    ELSE LET a1 == T.tab[Slot1(T, h)]
             a2 == T.tab[Slot2(T, h)]
         IN  IF Boom(T, a1, q) THEN Panics
             ELSE IF Hit(T, a1, q) THEN a1
             ELSE IF Boom(T, a2, q) THEN Panics
             ELSE IF Hit(T, a2, q) THEN a2
             ELSE 0

(* What C42 says Lookup is: the defined atom whose name is q, else 0.  D = defined atoms *)
LookupAbs(T, D, q) ==
    IF \E a \in D : StringOf(T.text, a) = q
    THEN CHOOSE a \in D : StringOf(T.text, a) = q
    ELSE 0

(* the package-level String(s []byte): the atom's name if s is one, else string(s)       *)
StringFn(T, r, q) == IF r # 0 THEN StringOf(T.text, r) ELSE q

----------------------------------------------------------------------------
(* Well-formedness of a table for the set D of defined atoms.  HOf(a) is the hash of     *)
(* a's name (the real fnv in Trace.tla, an arbitrary function in MCAtom.tla).            *)
Entries(T) == {T.tab[i] : i \in 0..(T.n - 1)} \ {0}

WfEntries(T) ==        \* every entry names a non-empty slice of the text, short enough to pass the guard
    \A a \in Entries(T) : Ln(a) >= 1 /\ Ln(a) <= T.maxLen /\ InText(T.text, a)
WfDefined(T, D) ==     \* the table holds exactly the defined atoms
    /\ 0 \notin D
    /\ Entries(T) = D
WfDistinct(T, D) ==    \* two defined atoms never share a name (String is injective on D)
    Cardinality({StringOf(T.text, a) : a \in D}) = Cardinality(D)
WfPlaced(T, D, HOf(_)) ==  \* every atom sits at one of the two slots its own name hashes to
    \A a \in D : T.tab[Slot1(T, HOf(a))] = a \/ T.tab[Slot2(T, HOf(a))] = a
WfNoDup(T) ==          \* (not judged: harmless for C42) no atom occupies two slots
    \A i, j \in 0..(T.n - 1) : i # j /\ T.tab[i] # 0 => T.tab[i] # T.tab[j]

WellFormed(T, D, HOf(_)) ==
    WfEntries(T) /\ WfDefined(T, D) /\ WfDistinct(T, D) /\ WfPlaced(T, D, HOf)

(* C42 for one query q whose hash is h *)
ExactAt(T, D, q, h) == LookupImpl(T, q, h) = LookupAbs(T, D, q)

(* C42 for one defined atom: String non-empty and Lookup(String(a)) = a *)
RoundTrip(T, a, h) ==
    /\ StringOf(T.text, a) # <<>>
    /\ LookupImpl(T, StringOf(T.text, a), h) = a
=============================================================================
