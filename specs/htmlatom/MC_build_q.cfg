SPECIFICATION Spec
CONSTANTS
  MText <- TextA
  MSlots = 2
  MMaxLen = 2
  MMaxAtoms = 3
  MBytes = {1, 2}
INVARIANTS InvWellFormed InvExact InvRoundTrip
PROPERTY FailKeeps
CHECK_DEADLOCK FALSE
