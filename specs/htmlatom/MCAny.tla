------------------------------- MODULE MCAny -------------------------------
(* Design-level model 2: WellFormed is exactly what C42 needs.                           *)
(*                                                                                     *)
(* Every initial state is one table over a small universe - ANY assignment of packed     *)
(* values to the slots, including malformed ones (length 0, longer than maxLen, slice    *)
(* outside the text, two offsets with the same name, an atom in a slot its name does not *)
(* hash to) - together with ANY hash for the names that occur.  The defined atoms are    *)
(* the entries of the table.  Checked for all of them:                                   *)
(*    WellFormed  <=>  every defined atom round-trips (String non-empty,                 *)
(*                     Lookup(String(a)) = a)                                            *)
(*    WellFormed   =>  Lookup never panics and is exact for ALL queries over the byte     *)
(*                     alphabet up to length maxLen+1, whatever the non-names hash to.    *)
(* So the clauses of WellFormed that Trace.tla checks on the real table are sufficient   *)
(* and none of them is stricter than the property.                                       *)
EXTENDS AtomTable, TLC

CONSTANTS MText, MSlots, MMaxLen, MBytes,
          MMaxEntries      \* at most this many non-empty slots

VARIABLES tab, hn          \* hn: name of an entry -> <<hi, lo>>
vars == <<tab, hn>>

Slots  == 0..(MSlots - 1)
Hashes == Slots \X Slots
T      == [text |-> MText, tab |-> tab, n |-> MSlots, maxLen |-> MMaxLen]
D      == Entries(T)
NameOf(a) == StringOf(MText, a)

(* every packed value with offset 0..len and length 0..maxLen+1 except the zero atom      *)
Vals == {Pack(o, n) : o \in 0..Len(MText), n \in 0..(MMaxLen + 1)} \ {0}

RECURSIVE StrN(_)
StrN(k)  == IF k = 0 THEN {<<>>} ELSE {Append(s, b) : s \in StrN(k - 1), b \in MBytes}
Queries  == UNION {StrN(k) : k \in 0..(MMaxLen + 1)}

Init == /\ tab \in [Slots -> Vals \cup {0}]
        /\ Cardinality({i \in Slots : tab[i] # 0}) <= MMaxEntries
        /\ hn \in [{NameOf(a) : a \in Entries([tab |-> tab, n |-> MSlots])} -> Hashes]
Next == UNCHANGED vars
Spec == Init /\ [][Next]_vars

HOf(a) == hn[NameOf(a)]
HashesOf(q) == IF q \in DOMAIN hn THEN {hn[q]} ELSE Hashes

AllRoundTrip == \A a \in D : RoundTrip(T, a, HOf(a))
AllExact     == \A q \in Queries :
                   LET abs == LookupAbs(T, D, q)
                   IN  \A h \in HashesOf(q) : LookupImpl(T, q, h) = abs

InvNecessary  == AllRoundTrip => WellFormed(T, D, HOf)
InvSufficient == WellFormed(T, D, HOf) => AllRoundTrip /\ AllExact

TextC == <<1, 2, 1>>
TextD == <<1, 2, 2, 1>>
=============================================================================
