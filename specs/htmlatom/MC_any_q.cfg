SPECIFICATION Spec
CONSTANTS
  MText <- TextC
  MSlots = 2
  MMaxLen = 2
  MMaxEntries = 2
  MBytes = {1, 2}
INVARIANTS InvNecessary InvSufficient
CHECK_DEADLOCK FALSE
