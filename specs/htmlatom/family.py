# htmlatom family hooks.  Signature of a rejected trace = which verdict of Trace.tla failed
# (the names TLC put into variable v) and for which kind of line, without any values, so that
# one defect is one signature and a different disagreement is still reported.
import re


def signature(prop, kind, scenario, detail):
    what = (detail or {}).get("what", "")
    try:
        if kind == "trace":
            ev = re.search(r'"e": "(\w+)"', what)
            ev = ev.group(1) if ev else "?"
            qk = ""
            if isinstance(scenario, dict) and scenario.get("lines"):
                qk = scenario["lines"][0].get("kind", "") or scenario["lines"][0].get("e", "")
            m = re.match(r"invariant (\w+)", what)
            if m:
                st = what.split(" state=", 1)[1] if " state=" in what else ""
                names = sorted(set(re.findall(r'\\"(\w+)\\"', st)))
                return "atom;%s;%s;line=%s;trace=%s" % (m.group(1), "+".join(names) or "?", ev, qk)
            return "atom;unmatched;line=%s;trace=%s" % (ev, qk)
    except Exception:
        return None
    return None
