SPECIFICATION TSpec
CONSTRAINT Mark
POSTCONDITION AllConsumed
CHECK_DEADLOCK FALSE
INVARIANTS TableWellFormed RoundTripAll Exact StringRule
