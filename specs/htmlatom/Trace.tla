------------------------------- MODULE Trace -------------------------------
(* Trace validation for C42: what the real html/atom package does, judged by             *)
(* AtomTable.tla.                                                                       *)
(*                                                                                     *)
(* Trace 1 (always first in the file) starts with the header "table": the REAL data      *)
(* structure read white-box by the driver - table (n slots), atomText as byte codes,     *)
(* maxAtomLen, hash0 as 16-bit limbs, and the defined atoms = the constants of type Atom  *)
(* declared in the package source (identifier bytes cid[k], value cv[k]).  The header    *)
(* is judged by TableWellFormed (I1); all other lines of all traces are judged THROUGH    *)
(* that logged table:                                                                   *)
(*   "atom" k s r h      String(cv[k]) = s, Lookup(s) = r, fnv(hash0, s) = h       (I3)   *)
(*   "q"    q h hc r rs sfq [sf]  Lookup(q) = r, r.String() = rs, String(q) = sf      (I2)   *)
(*                       (sfq = 1: the driver saw String(q) return the bytes of q),        *)
(*                       fnv(hash0, q) = h (h is recomputed by the spec when hc = 1)       *)
(*   "str"  a s          Atom(a).String() = s for arbitrary uint32 a (limbs)       (I4)   *)
(*   "panic"             never allowed (no step matches)                                 *)
(* Results r and atoms a of "str" lines are <<hi, lo>> limbs.  A line that fails a check  *)
(* puts the names of the failed checks into v; the invariants of Trace_C42.cfg then      *)
(* reject the trace, and the trace is not continued.                                     *)
EXTENDS AtomTable, TraceIO

VARIABLES cur, l, v
tvars == <<cur, l, v>>

Line == Trace[l]

----------------------------------------------------------------------------
(* the real data structure *)
Hdr   == Trace[Meta.starts[1]]
N     == Hdr.n
Text  == Hdr.text
TabF  == [i \in 0..(N - 1) |-> Hdr.table[i + 1]]
T     == [text |-> Text, tab |-> TabF, n |-> N, maxLen |-> Hdr.maxlen]
H0    == Hdr.h0
NC    == Len(Hdr.cv)
Defined == {Hdr.cv[k] : k \in 1..NC}

(* dictionary view of the defined atoms: LookupAbs(T, Defined, q) with the set of names      *)
(* evaluated once (membership first, the CHOOSE of LookupAbs only for names)                *)
NameSet == {StringOf(Text, a) : a \in Defined}
LookupAbsC(q) == IF q \in NameSet THEN LookupAbs(T, Defined, q) ELSE 0

(* hash of every atom's name, computed by the specification's own fnv *)
HashOfAtom == [a \in Defined |-> Fnv(H0, StringOf(Text, a))]
HOf(a) == HashOfAtom[a]

Limbs(x)  == << x \div 65536, x % 65536 >>
EqL(x, r) == x >= 0 /\ Limbs(x) = r            \* Panics (-1) equals no logged result

Fails(checks) == {c[1] : c \in {c \in checks : ~c[2]}}

----------------------------------------------------------------------------
(* I1 on the header *)
IsByteSeq(s) == \A i \in 1..Len(s) : s[i] \in 0..255
Shape ==
    /\ N >= 1 /\ Len(Hdr.table) = N
    /\ \A i \in 1..N : Hdr.table[i] >= 0
    /\ IsByteSeq(Text)
    /\ Hdr.maxlen >= 0 /\ Hdr.maxlen <= 255
    /\ NC >= 1 /\ Len(Hdr.cid) = NC
    /\ \A k \in 1..NC : Hdr.cv[k] >= 0

(* package documentation: looking up "div" yields atom.Div - the identifier of a constant *)
(* is its name without '-' (compared without case: gen.go capitalises after '-')          *)
Lower(c) == IF c >= 65 /\ c <= 90 THEN c + 32 ELSE c
LowerSeq(s) == [i \in 1..Len(s) |-> Lower(s[i])]
NoHyphen(s) == SelectSeq(s, LAMBDA c : c # 45)
ConstIdent == \A k \in 1..NC :
                 LowerSeq(Hdr.cid[k]) = LowerSeq(NoHyphen(StringOf(Text, Hdr.cv[k])))

TableChecks ==
    IF ~Shape THEN {<<"TableShape", FALSE>>}
    ELSE { <<"WfEntries",  WfEntries(T)>>,
           <<"WfDefined",  WfDefined(T, Defined)>>,
           <<"WfDistinct", WfDistinct(T, Defined)>>,
           <<"WfPlaced",   WfPlaced(T, Defined, HOf)>>,
           <<"ConstIdent", ConstIdent>> }

(* every trace starts AT its header line; the first step consumes it (a verdict about the  *)
(* header is then a verdict about a step, which the orchestrator can attribute)            *)
TInit ==
    \E t \in 1..NT : cur = t /\ l = Meta.starts[t] /\ v = {}

THeader ==
    /\ l = Meta.starts[cur]
    /\ IF cur = 1 THEN Line.e = "table" /\ v' = Fails(TableChecks)
                  ELSE Line.e = "hdr" /\ v' = {}

----------------------------------------------------------------------------
(* I3: one defined atom *)
TAtom ==
    /\ Line.e = "atom"
    /\ Line.k \in 1..NC
    /\ LET a == Hdr.cv[Line.k] IN
       v' = Fails({ <<"StringRule",      Line.s = StringOf(Text, a)>>,
                    <<"StringNonEmpty",  Len(Line.s) > 0>>,
                    <<"HashBound",       Fnv(H0, Line.s) = Line.h>>,
                    <<"ImplFollowsSpec", EqL(LookupImpl(T, Line.s, Line.h), Line.r)>>,
                    <<"RoundTrip",       EqL(a, Line.r)>> })

(* I2: one query *)
TQuery ==
    /\ Line.e = "q"
    /\ IsByteSeq(Line.q)
    /\ LET q   == Line.q
           abs == LookupAbsC(q)
       IN
       v' = Fails({ <<"HashBound",       Line.hc = 0 \/ Fnv(H0, q) = Line.h>>,
                    <<"ImplFollowsSpec", EqL(LookupImpl(T, q, Line.h), Line.r)>>,
                    <<"Exact",           EqL(abs, Line.r)>>,
                    <<"StringRule",      Line.rs = StringOfWide(Text, Line.r[1], Line.r[2])>>,
                    <<"StringFn",        (IF Line.sfq = 1 THEN q ELSE Line.sf) = StringFn(T, abs, q)>> })

(* I4: String of an arbitrary Atom value *)
TStr ==
    /\ Line.e = "str"
    /\ v' = Fails({ <<"StringRule", Line.s = StringOfWide(Text, Line.a[1], Line.a[2])>> })

TNext ==
    /\ l <= Meta.ends[cur]
    /\ v = {}                           \* a rejected trace is not continued
    /\ l' = l + 1 /\ cur' = cur
    /\ (THeader \/ TAtom \/ TQuery \/ TStr)

TSpec == TInit /\ [][TNext]_tvars

Mark == HighWater(cur, l)

----------------------------------------------------------------------------
(* verdicts *)
TableWellFormed == v \cap {"TableShape", "WfEntries", "WfDefined", "WfDistinct", "WfPlaced", "ConstIdent"} = {}
Exact           == v \cap {"Exact", "ImplFollowsSpec", "HashBound", "StringFn"} = {}
RoundTripAll    == v \cap {"RoundTrip", "StringNonEmpty"} = {}
StringRule      == v \cap {"StringRule"} = {}
=============================================================================
