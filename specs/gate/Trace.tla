------------------------------- MODULE Trace -------------------------------
(* Trace validation of the real gates (quic.gate, internal/gate.Gate) and of quic.queue.  *)
(* The driver runs several goroutines in a synctest bubble, issues one command at a time, *)
(* waits for quiescence and logs: call starts, completions (logged by the goroutine that   *)
(* holds the gate before it does anything else, so log order is acquisition order), and a  *)
(* "q" line with the calls that are still blocked.                                         *)
EXTENDS Gate, TraceIO

VARIABLES cur, l
tvars == <<vars, cur, l>>
Line == Trace[l]
P(p) == p \in Procs

TInit == \E t \in 1..NT : LET h == Trace[Meta.starts[t]] IN
           cur = t /\ l = Meta.starts[t] + 1 /\ h.e = "hdr" /\ Init(h.set)

TCall == /\ Line.e = "call" /\ P(Line.p)
         /\ \/ Line.op = "lock" /\ CallLock(Line.p)
            \/ Line.op = "wal" /\ CallWal(Line.p)
            \/ Line.op = "get" /\ CallGet(Line.p)
TAcq  == /\ Line.e = "acq" /\ P(Line.p)
         /\ \/ Line.op = "lock" /\ AcqLock(Line.p, Line.set)
            \/ Line.op = "wal" /\ AcqWal(Line.p)
TFail == Line.e = "fail" /\ P(Line.p) /\ FailWal(Line.p)
TLis  == Line.e = "lis" /\ P(Line.p) /\ LockIfSet(Line.p, Line.acquired)
TUnl  == Line.e = "unlock" /\ P(Line.p) /\ Unlock(Line.p, Line.set)
TCan  == Line.e = "cancel" /\ P(Line.p) /\ Cancel(Line.p)
TPut  == Line.e = "put" /\ Put(Line.v, Line.ok)
TCls  == Line.e = "close" /\ Close(Line.err)
TRet  == /\ Line.e = "ret" /\ P(Line.p)
         /\ \/ Line.kind = "item" /\ RetGetItem(Line.p, Line.v)
            \/ Line.kind = "closed" /\ RetGetClosed(Line.p, Line.err)
            \/ Line.kind = "ctx" /\ RetGetCtx(Line.p)
TQ    == Line.e = "q" /\ Quiesce({Line.blocked[i] : i \in 1..Len(Line.blocked)})

TNext == /\ l <= Meta.ends[cur] /\ l' = l + 1 /\ cur' = cur
         /\ (TCall \/ TAcq \/ TFail \/ TLis \/ TUnl \/ TCan \/ TPut \/ TCls \/ TRet \/ TQ)
TSpec == TInit /\ [][TNext]_tvars
Mark == HighWater(cur, l)
=============================================================================
