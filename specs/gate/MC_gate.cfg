SPECIFICATION ISpec
CONSTANTS
  Procs = {1, 2, 3}
  MaxItems = 2
  Kind = "gate"
INVARIANTS OneToken ChannelsNeverOverflow
PROPERTIES GateRefinement
CHECK_DEADLOCK FALSE
