------------------------------ MODULE GateImpl ------------------------------
(* The implementation-shaped model: two capacity-1 channels (set, unset), every select   *)
(* one atomic step, waitAndLock's non-blocking first attempt and blocking second select   *)
(* as separate steps, and the queue's put/get/close as lock - modify - unlock(condition). *)
(* TLC checks that it implements Gate (refinement mapping below), that exactly one token  *)
(* exists whenever the gate is free, and the queue's condition invariant.                 *)
EXTENDS Integers, Sequences, FiniteSets, TLC

CONSTANTS Procs, MaxItems, Kind      \* Kind = "gate" or "queue"

VARIABLES setCh, unsetCh,            \* number of tokens in each channel (0 or 1)
          pc, op, hold, cdone,       \* per process: program counter, current operation, holds gate, ctx done
          q, qerr, nextv, putv       \* queue state; putv[p] = value a put is carrying

ivars == <<setCh, unsetCh, pc, op, hold, cdone, q, qerr, nextv, putv>>

IInit ==
    /\ setCh = 0 /\ unsetCh = 1
    /\ pc = [p \in Procs |-> "idle"] /\ op = [p \in Procs |-> "none"]
    /\ hold = [p \in Procs |-> FALSE] /\ cdone = [p \in Procs |-> FALSE]
    /\ q = <<>> /\ qerr = 0 /\ nextv = 1 /\ putv = [p \in Procs |-> 0]

Set(f, p, v) == [f EXCEPT ![p] = v]
Cond == qerr # 0 \/ q # <<>>

(* gate primitives as steps of process p; next = pc after the step *)
TakeEither(p, next) ==          \* lock(): select on both channels
    \/ setCh = 1 /\ setCh' = 0 /\ unsetCh' = unsetCh /\ hold' = Set(hold, p, TRUE) /\ pc' = Set(pc, p, next)
    \/ unsetCh = 1 /\ unsetCh' = 0 /\ setCh' = setCh /\ hold' = Set(hold, p, TRUE) /\ pc' = Set(pc, p, next)
Release(p, set, next) ==
    /\ hold[p]
    /\ IF set THEN setCh' = setCh + 1 /\ unsetCh' = unsetCh ELSE unsetCh' = unsetCh + 1 /\ setCh' = setCh
    /\ hold' = Set(hold, p, FALSE) /\ pc' = Set(pc, p, next)

(* ---- raw gate operations (Kind = "gate") ---- *)
GStart(p, o) == Kind = "gate" /\ pc[p] = "idle" /\ ~hold[p] /\ o \in {"lock", "wal", "lis"}
                /\ op' = Set(op, p, o) /\ pc' = Set(pc, p, IF o = "wal" THEN "wal1" ELSE o)
                /\ UNCHANGED <<setCh, unsetCh, hold, cdone, q, qerr, nextv, putv>>
GLock(p) == pc[p] = "lock" /\ TakeEither(p, "idle") /\ UNCHANGED <<op, cdone, q, qerr, nextv, putv>>
GLis(p)  == pc[p] = "lis" /\ UNCHANGED <<op, cdone, q, qerr, nextv, putv, unsetCh>>
            /\ IF setCh = 1 THEN setCh' = 0 /\ hold' = Set(hold, p, TRUE) /\ pc' = Set(pc, p, "idle")
                            ELSE UNCHANGED <<setCh, hold>> /\ pc' = Set(pc, p, "idle")
Wal1(p, okpc) == \* non-blocking first attempt
    /\ UNCHANGED <<op, cdone, q, qerr, nextv, putv, unsetCh>>
    /\ IF setCh = 1 THEN setCh' = 0 /\ hold' = Set(hold, p, TRUE) /\ pc' = Set(pc, p, okpc)
                    ELSE UNCHANGED <<setCh, hold>> /\ pc' = Set(pc, p, IF okpc = "idle" THEN "wal2" ELSE "get2")
Wal2(p, okpc, failpc) == \* blocking select on set and ctx.Done
    /\ UNCHANGED <<op, cdone, q, qerr, nextv, putv, unsetCh>>
    /\ \/ setCh = 1 /\ setCh' = 0 /\ hold' = Set(hold, p, TRUE) /\ pc' = Set(pc, p, okpc)
       \/ cdone[p] /\ UNCHANGED <<setCh, hold>> /\ pc' = Set(pc, p, failpc)
GWal1(p) == pc[p] = "wal1" /\ Wal1(p, "idle")
GWal2(p) == pc[p] = "wal2" /\ Wal2(p, "idle", "idle")
GUnlock(p, b) == Kind = "gate" /\ pc[p] = "idle" /\ Release(p, b, "idle") /\ UNCHANGED <<op, cdone, q, qerr, nextv, putv>>
ICancel(p) == ~cdone[p] /\ cdone' = Set(cdone, p, TRUE) /\ UNCHANGED <<setCh, unsetCh, pc, op, hold, q, qerr, nextv, putv>>

(* ---- queue operations (Kind = "queue") ---- *)
QStart(p, o) == Kind = "queue" /\ pc[p] = "idle" /\ o \in {"put", "get", "close1", "close2"}
                /\ (o = "put" => nextv <= MaxItems)
                /\ op' = Set(op, p, o)
                /\ pc' = Set(pc, p, IF o = "get" THEN "get1" ELSE "qlock")
                /\ putv' = (IF o = "put" THEN Set(putv, p, nextv) ELSE putv)
                /\ nextv' = (IF o = "put" THEN nextv + 1 ELSE nextv)
                /\ UNCHANGED <<setCh, unsetCh, hold, cdone, q, qerr>>
QLock(p) == pc[p] = "qlock" /\ TakeEither(p, "qmod") /\ UNCHANGED <<op, cdone, q, qerr, nextv, putv>>
QGet1(p) == pc[p] = "get1" /\ Wal1(p, "qmod")
QGet2(p) == pc[p] = "get2" /\ Wal2(p, "qmod", "idle")
QMod(p) ==
    /\ pc[p] = "qmod" /\ hold[p]
    /\ CASE op[p] = "put"    -> q' = (IF qerr = 0 THEN Append(q, putv[p]) ELSE q) /\ qerr' = qerr
         [] op[p] = "close1" -> qerr' = (IF qerr = 0 THEN 1 ELSE qerr) /\ q' = q
         [] op[p] = "close2" -> qerr' = (IF qerr = 0 THEN 2 ELSE qerr) /\ q' = q
         [] op[p] = "get"    -> IF qerr # 0 THEN UNCHANGED <<q, qerr>> ELSE q' = Tail(q) /\ qerr' = qerr
    /\ pc' = Set(pc, p, "qunlock")
    /\ UNCHANGED <<setCh, unsetCh, op, hold, cdone, nextv, putv>>
QUnlock(p) == pc[p] = "qunlock" /\ Release(p, Cond, "idle") /\ UNCHANGED <<op, cdone, q, qerr, nextv, putv>>

INext ==
    \/ \E p \in Procs, o \in {"lock", "wal", "lis"} : GStart(p, o)
    \/ \E p \in Procs : GLock(p) \/ GLis(p) \/ GWal1(p) \/ GWal2(p) \/ ICancel(p)
    \/ \E p \in Procs, b \in BOOLEAN : GUnlock(p, b)
    \/ \E p \in Procs, o \in {"put", "get", "close1", "close2"} : QStart(p, o)
    \/ \E p \in Procs : QLock(p) \/ QGet1(p) \/ QGet2(p) \/ QMod(p) \/ QUnlock(p)

ISpec == IInit /\ [][INext]_ivars

(* ---- properties ---- *)
Holders == {p \in Procs : hold[p]}
OneToken == setCh + unsetCh + Cardinality(Holders) = 1          \* exclusion and no lost token
ChannelsNeverOverflow == setCh \in 0..1 /\ unsetCh \in 0..1
(* queue: whenever the gate is free its condition says exactly whether a get can proceed *)
QueueCondition == (Kind = "queue" /\ Holders = {}) => ((setCh = 1) <=> Cond)
(* queue get while holding always finds an item or the error (q[0] never indexes an empty queue) *)
GetNeverEmpty == \A p \in Procs : (pc[p] = "qmod" /\ op[p] = "get") => Cond

(* refinement of the abstract gate (Kind = "gate"): token position, holder, pending calls *)
AbsTok == IF setCh = 1 THEN "set" ELSE IF unsetCh = 1 THEN "unset" ELSE "held"
AbsHolder == IF Holders = {} THEN 0 ELSE CHOOSE p \in Holders : TRUE
AbsPend == [p \in Procs |-> CASE pc[p] = "lock" -> "lock"
                              [] pc[p] \in {"wal1", "wal2"} -> "wal"
                              [] OTHER -> "none"]
G == INSTANCE Gate WITH tok <- AbsTok, holder <- AbsHolder, pend <- AbsPend, done <- cdone,
                        items <- <<>>, closed <- 0, nextv <- 1
GateRefinement == [][Kind = "gate" => (G!Next \/ UNCHANGED G!vars)]_ivars
=============================================================================
