-------------------------------- MODULE Gate --------------------------------
(* Abstract meaning of the QUIC gate (quic/gate.go, internal/gate) and of the queue   *)
(* built on it (quic/queue.go), as C29 states it.                                      *)
(*                                                                                     *)
(* Gate: a lock that carries one boolean condition.  tok says where the single token   *)
(* is: "set" / "unset" (gate free, condition as last stored) or "held".  Blocking      *)
(* calls are split into a Call step and a completion step (Acq.., Fail.., Ret..), so that   *)
(* a trace can say "this call is still blocked" at a quiescent point; Quiesce states   *)
(* that no blocked call could proceed (no lost wake-up).                               *)
(* Queue: FIFO of items plus a closed flag; get blocks while the queue is empty, not   *)
(* closed and its context is live.  After close, a get may return the close error even *)
(* if items remain (that is what the package's own test expects) or still deliver the  *)
(* head item; an item is never delivered twice or out of order.                        *)
EXTENDS Integers, Sequences, FiniteSets, TLC

CONSTANTS Procs, MaxItems

VARIABLES tok, holder, pend, done, items, closed, nextv

vars == <<tok, holder, pend, done, items, closed, nextv>>

Init(set) ==
    /\ tok = IF set THEN "set" ELSE "unset"
    /\ holder = 0
    /\ pend = [p \in Procs |-> "none"]
    /\ done = [p \in Procs |-> FALSE]
    /\ items = <<>> /\ closed = 0 /\ nextv = 1

Idle(p) == pend[p] = "none" /\ holder # p
qvars == <<items, closed, nextv>>

(* ------------------------------- gate ------------------------------- *)
CallLock(p) == Idle(p) /\ pend' = [pend EXCEPT ![p] = "lock"] /\ UNCHANGED <<tok, holder, done, qvars>>
AcqLock(p, set) ==
    /\ pend[p] = "lock" /\ tok # "held" /\ set = (tok = "set")
    /\ tok' = "held" /\ holder' = p /\ pend' = [pend EXCEPT ![p] = "none"]
    /\ UNCHANGED <<done, qvars>>
LockIfSet(p, acquired) ==
    /\ Idle(p)
    /\ IF acquired THEN tok = "set" /\ tok' = "held" /\ holder' = p
                   ELSE tok # "set" /\ UNCHANGED <<tok, holder>>
    /\ UNCHANGED <<pend, done, qvars>>
CallWal(p) == Idle(p) /\ pend' = [pend EXCEPT ![p] = "wal"] /\ UNCHANGED <<tok, holder, done, qvars>>
AcqWal(p) ==
    /\ pend[p] = "wal" /\ tok = "set"
    /\ tok' = "held" /\ holder' = p /\ pend' = [pend EXCEPT ![p] = "none"]
    /\ UNCHANGED <<done, qvars>>
FailWal(p) ==
    /\ pend[p] = "wal" /\ done[p]
    /\ pend' = [pend EXCEPT ![p] = "none"] /\ UNCHANGED <<tok, holder, done, qvars>>
Unlock(p, set) ==
    /\ holder = p
    /\ tok' = (IF set THEN "set" ELSE "unset") /\ holder' = 0
    /\ UNCHANGED <<pend, done, qvars>>
Cancel(p) == done' = [done EXCEPT ![p] = TRUE] /\ UNCHANGED <<tok, holder, pend, qvars>>

CanProceed(p) ==
    \/ pend[p] = "lock" /\ tok # "held"
    \/ pend[p] = "wal" /\ (tok = "set" \/ done[p])
    \/ pend[p] = "get" /\ (items # <<>> \/ closed # 0 \/ done[p])
Blocked == {p \in Procs : pend[p] # "none"}
(* quiescent point: exactly the calls in b are still blocked and none of them could proceed *)
Quiesce(b) == b = Blocked /\ (\A p \in b : ~CanProceed(p)) /\ UNCHANGED vars

(* ------------------------------- queue ------------------------------ *)
gvars == <<tok, holder>>
Put(v, ok) ==
    /\ ok = (closed = 0)
    /\ items' = IF ok THEN Append(items, v) ELSE items
    /\ nextv' = nextv + 1
    /\ UNCHANGED <<gvars, pend, done, closed>>
Close(e) ==
    /\ e # 0 /\ closed' = IF closed = 0 THEN e ELSE closed
    /\ UNCHANGED <<gvars, pend, done, items, nextv>>
CallGet(p) == Idle(p) /\ pend' = [pend EXCEPT ![p] = "get"] /\ UNCHANGED <<gvars, done, qvars>>
RetGetItem(p, v) ==
    /\ pend[p] = "get" /\ items # <<>> /\ v = Head(items)
    /\ items' = Tail(items) /\ pend' = [pend EXCEPT ![p] = "none"]
    /\ UNCHANGED <<gvars, done, closed, nextv>>
RetGetClosed(p, e) ==
    /\ pend[p] = "get" /\ closed # 0 /\ e = closed
    /\ pend' = [pend EXCEPT ![p] = "none"] /\ UNCHANGED <<gvars, done, qvars>>
RetGetCtx(p) ==
    /\ pend[p] = "get" /\ done[p]
    /\ pend' = [pend EXCEPT ![p] = "none"] /\ UNCHANGED <<gvars, done, qvars>>

(* ------------------------------- model ------------------------------ *)
Next ==
    \/ \E p \in Procs : CallLock(p) \/ CallWal(p) \/ AcqWal(p) \/ FailWal(p) \/ Cancel(p)
    \/ \E p \in Procs, b \in BOOLEAN : AcqLock(p, b) \/ LockIfSet(p, b) \/ Unlock(p, b)
    \/ \E p \in Procs : CallGet(p) \/ RetGetCtx(p)
    \/ \E p \in Procs : items # <<>> /\ RetGetItem(p, Head(items))
    \/ \E p \in Procs : closed # 0 /\ RetGetClosed(p, closed)
    \/ nextv <= MaxItems /\ Put(nextv, closed = 0)
    \/ \E e \in 1..2 : Close(e)
Spec == Init(FALSE) /\ [][Next]_vars

MutualExclusion == (tok = "held") <=> (holder # 0)
TypeOK == tok \in {"set", "unset", "held"} /\ holder \in Procs \cup {0}
=============================================================================
