SPECIFICATION TSpec
CONSTANTS
  Procs = {1, 2, 3, 4}
  MaxItems = 0
INVARIANTS MutualExclusion
CONSTRAINT Mark
POSTCONDITION AllConsumed
CHECK_DEADLOCK FALSE
