SPECIFICATION ISpec
CONSTANTS
  Procs = {1, 2, 3}
  MaxItems = 2
  Kind = "queue"
INVARIANTS OneToken ChannelsNeverOverflow QueueCondition GetNeverEmpty
CHECK_DEADLOCK FALSE
