------------------------------- MODULE DeadProps -------------------------------
(* C47: WebDAV dead properties round-trip through PROPPATCH and PROPFIND.            *)
(*                                                                                   *)
(* Per resource a map from property names (abstract ids for (namespace, local name)  *)
(* pairs) to value classes (abstract ids for XML values: plain text, text needing    *)
(* escaping, nested elements, prefixed namespaces, empty, non-ASCII, xml:lang, ...)  *)
(* or Absent.  PROPPATCH executes its set/remove instructions in document order and  *)
(* atomically (RFC 4918 9.2): if any instruction names a protected (live) property   *)
(* nothing is changed and every instruction is reported 403 / 424.  PROPFIND (named, *)
(* allprop, propname; Depth 0 or 1) does not change anything and must report exactly *)
(* the dead properties of the model with their values.  The driver concretises the   *)
(* ids to XML, sends the requests to the real Handler over NewMemFS, parses the      *)
(* multistatus with encoding/xml and maps names and (canonicalised) inner XML back   *)
(* to ids; every response is compared with the prediction made here.                 *)
EXTENDS Integers, Sequences, FiniteSets, TLC

CONSTANTS Res,        \* resources, e.g. {"f", "d", "g"}: /f file, /d collection, /d/g file in it
          Names,      \* dead property name ids
          Live,       \* protected property name ids (PROPPATCH on them must fail)
          Vals,       \* value class ids
          MaxInstr    \* instructions per PROPPATCH

VARIABLE props

Absent == "-"

TypeOK == props \in [Res -> [Names -> Vals \cup {Absent}]]

Init == props = [r \in Res |-> [n \in Names |-> Absent]]

Instrs == [op : {"set"}, n : Names \cup Live, v : Vals] \cup [op : {"remove"}, n : Names \cup Live, v : {Absent}]

Conflict(is) == \E i \in 1..Len(is) : is[i].n \in Live

RECURSIVE Apply(_, _)
Apply(m, is) ==
    IF is = <<>> THEN m
    ELSE LET i == Head(is) IN
         Apply([m EXCEPT ![i.n] = IF i.op = "set" THEN i.v ELSE Absent], Tail(is))

\* what the multistatus of the PROPPATCH must say: a set of <<name, status>>
PatchStatus(is) ==
    {<<is[i].n, IF Conflict(is) THEN (IF is[i].n \in Live THEN "403" ELSE "424") ELSE "200">> : i \in 1..Len(is)}

Proppatch(r, is) ==
    props' = IF Conflict(is) THEN props ELSE [props EXCEPT ![r] = Apply(@, is)]

\* the collection "d" contains "g"
Targets(r, depth) == IF r = "d" /\ depth = 1 /\ "g" \in Res THEN {"d", "g"} ELSE {r}

Present(r) == {n \in Names : props[r][n] # Absent}

\* PROPFIND observations: per target resource a set of <<name, status, value>>
FindNamed(r, depth, ns) ==
    [t \in Targets(r, depth) |->
        {<<n, IF props[t][n] # Absent THEN "200" ELSE "404", props[t][n]>> : n \in ns}]
FindAll(r, depth) ==
    [t \in Targets(r, depth) |-> {<<n, "200", props[t][n]>> : n \in Present(t)}]
FindNames(r, depth) ==
    [t \in Targets(r, depth) |-> {<<n, "200", Absent>> : n \in Present(t)}]

Seqs(S, n) == UNION {[1..k -> S] : k \in 1..n}
=============================================================================
