------------------------------ MODULE PathClean ------------------------------
(* Lexical path semantics used by golang.org/x/net/webdav (C45, reused by C46).     *)
(*                                                                                  *)
(* A raw path is a record [abs, segs]: the string  (abs ? "/" : "") ++ segs joined  *)
(* by "/".  So "" = [F, <<"">>], "/a/" = [T, <<"a", "">>], "a//b" = [F, <<"a", "",  *)
(* "b">>].  Clean is the documented algorithm of path.Clean / filepath.Clean        *)
(* (Plan 9 "Lexical file names"): drop empty and "." elements, cancel "x/..",       *)
(* drop ".." at the root of an absolute path, keep leading ".." of a relative one.  *)
(* Resolve is what the doc comment of webdav.Dir promises: the name is taken as     *)
(* rooted ("/" ++ name), cleaned, and joined below the Dir's own directory; names   *)
(* containing NUL are rejected.                                                     *)
EXTENDS Integers, Sequences, FiniteSets

CONSTANT NulSegs          \* segment tokens that stand for a segment containing a NUL byte

RECURSIVE CleanStack(_, _, _)
CleanStack(abs, segs, st) ==
    IF segs = <<>> THEN st
    ELSE LET s == Head(segs)
             r == Tail(segs)
         IN  IF s = "" \/ s = "." THEN CleanStack(abs, r, st)
             ELSE IF s = ".."
                  THEN IF st # <<>> /\ st[Len(st)] # ".."
                       THEN CleanStack(abs, r, SubSeq(st, 1, Len(st) - 1))
                       ELSE IF abs THEN CleanStack(abs, r, st)
                            ELSE CleanStack(abs, r, Append(st, ".."))
                  ELSE CleanStack(abs, r, Append(st, s))

Clean(p) == [abs |-> p.abs, segs |-> CleanStack(p.abs, p.segs, <<>>)]

\* path.Clean("/" + name) as a segment sequence below "/"
SlashClean(name) == CleanStack(TRUE, name, <<>>)

HasNul(name) == \E i \in 1..Len(name) : name[i] \in NulSegs

Rejected == [rej |-> TRUE, abs |-> FALSE, segs |-> <<>>]

\* Dir(root).resolve(name): filepath.Join(root or ".", slashClean(name))
Resolve(root, name) ==
    IF HasNul(name) THEN Rejected
    ELSE LET c == Clean([abs |-> root.abs, segs |-> root.segs \o SlashClean(name)])
         IN  [rej |-> FALSE, abs |-> c.abs, segs |-> c.segs]

IsPrefix(a, b) == Len(a) <= Len(b) /\ SubSeq(b, 1, Len(a)) = a

Plain(s) == s \notin {"", ".", ".."}

\* "lexically inside the root": the cleaned root, followed by ordinary segments only
Inside(root, res) ==
    LET cr == Clean(root) IN
    /\ res.abs = cr.abs
    /\ IsPrefix(cr.segs, res.segs)
    /\ \A i \in (Len(cr.segs) + 1)..Len(res.segs) : Plain(res.segs[i])

\* the names on which RemoveAll / Rename must refuse to act
IsRoot(root, name) == ~HasNul(name) /\ SlashClean(name) = <<>>

(* ------------------------------ string forms ------------------------------ *)
RECURSIVE JoinSegs(_)
JoinSegs(segs) ==
    IF segs = <<>> THEN ""
    ELSE IF Len(segs) = 1 THEN segs[1]
    ELSE segs[1] \o "/" \o JoinSegs(Tail(segs))

RawStr(p) == IF p.abs THEN "/" \o JoinSegs(p.segs) ELSE JoinSegs(p.segs)

\* string form of a cleaned path ("." for the empty relative path)
CleanStr(p) ==
    IF p.abs THEN "/" \o JoinSegs(p.segs)
    ELSE IF p.segs = <<>> THEN "." ELSE JoinSegs(p.segs)

ResolveStr(root, name) ==
    LET r == Resolve(root, name) IN IF r.rej THEN "" ELSE CleanStr(r)

(* ------------------------------ laws checked by TLC ------------------------ *)
CleanIdempotent(p) == Clean(Clean(p)) = Clean(p)
CleanNormal(p) ==
    LET c == Clean(p) IN
    \A i \in 1..Len(c.segs) :
        /\ c.segs[i] \notin {"", "."}
        /\ (c.segs[i] = ".." => ~c.abs /\ \A j \in 1..i : c.segs[j] = "..")

ResolveLaws(root, name) ==
    LET r == Resolve(root, name) IN
    /\ r.rej <=> HasNul(name)
    /\ ~r.rej => /\ Inside(root, r)
                 /\ Clean([abs |-> r.abs, segs |-> r.segs]) = [abs |-> r.abs, segs |-> r.segs]
                 /\ (IsRoot(root, name) <=> [abs |-> r.abs, segs |-> r.segs] = Clean(root))
=============================================================================
