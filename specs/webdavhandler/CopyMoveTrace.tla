---------------------------- MODULE CopyMoveTrace ----------------------------
(* C46 trace validation.  The driver sends real COPY / MOVE requests through        *)
(* Handler.ServeHTTP (memFS + memLS) and records, per request, the request as the   *)
(* handler saw it (URL path and Destination path as raw segment sequences, headers, *)
(* lock state) and a snapshot of the whole tree afterwards; "reset" lines carry the *)
(* snapshot of a freshly built tree.  A request line is a step of this spec only if *)
(* the recorded post-state satisfies the contract of CopyMove relative to the       *)
(* previous recorded state.  Several requests without a reset form a history.       *)
EXTENDS CopyMove, TraceIO

VARIABLES tree, base, nreq, cur, l
tvars == <<tree, base, nreq, cur, l>>

Line == Trace[l]

Range(s) == {s[i] : i \in 1..Len(s)}

\* a logged tree is a list of entries <<path, kind, content id, property id>>
ToTree(es) == [q \in {e[1] : e \in Range(es)} |->
                  LET e == CHOOSE e \in Range(es) : e[1] = q IN [k |-> e[2], c |-> e[3], pr |-> e[4]]]

TInit ==
    \E t \in 1..NT :
       LET h == Trace[Meta.starts[t]] IN
       /\ cur = t /\ l = Meta.starts[t] + 1
       /\ h.e = "hdr"
       /\ tree = <<>> /\ base = <<>> /\ nreq = 0

\* "same" = the driver found the freshly built tree identical to the last one logged in full
TReset ==
    /\ Line.e = "reset"
    /\ base' = IF Line.same THEN base ELSE ToTree(Line.tree)
    /\ tree' = base'
    /\ UNCHANGED nreq

TReq ==
    /\ Line.e = "req"
    /\ Line.m \in {"COPY", "MOVE"}
    /\ LET post == ToTree(Line.post)
           s    == SlashClean(Line.src.segs)
           d    == SlashClean(Line.dst.segs)
       \* the previous state is always complete (a history ends after a cut snapshot); a cut
           \* post-state is compared as far as it was observed
           cap  == IF Line.truncated THEN Line.cap ELSE NoCap
       IN  /\ ReqOK(Line.m, tree, post, s, d, cap)
           /\ tree' = post
    /\ nreq' = nreq + 1
    /\ UNCHANGED base

TNext ==
    /\ l <= Meta.ends[cur]
    /\ l' = l + 1 /\ cur' = cur
    /\ (TReset \/ TReq)

TSpec == TInit /\ [][TNext]_tvars

Mark == HighWater(cur, l)
=============================================================================
