SPECIFICATION GSpec
CONSTANTS
  Res = {"f", "d", "g"}
  Names = {"n1", "n2", "n3", "n4", "n5"}
  Live = {"etag"}
  Vals = {"text", "esc", "nested", "nsnested", "empty", "unicode", "lang", "langinherit", "ws", "cdata", "attr", "comment"}
  MaxInstr = 2
  Mode = "pairs"
  GenDepth = 4
INVARIANT Emit TypeOK
CHECK_DEADLOCK FALSE
