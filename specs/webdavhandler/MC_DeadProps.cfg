SPECIFICATION Spec
CONSTANTS
  Res = {"f", "d"}
  Names = {"n1", "n2"}
  Live = {"etag"}
  Vals = {"text", "esc"}
  MaxInstr = 2
INVARIANTS TypeOK RoundTrip
PROPERTIES Atomic
CHECK_DEADLOCK FALSE
