INIT Init
NEXT Next
CONSTANTS
  NulSegs = {}
  Guard = "clean"
  Level = "quick"
  Fuel = 4
INVARIANT Inv
CHECK_DEADLOCK FALSE
