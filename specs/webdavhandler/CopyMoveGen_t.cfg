INIT Init
NEXT Next
CONSTANTS
  NulSegs = {}
  Guard = "full"
  Level = "thorough"
  Fuel = 4
INVARIANT Inv
CHECK_DEADLOCK FALSE
