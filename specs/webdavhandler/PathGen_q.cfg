INIT Init
NEXT Next
CONSTANTS
  Alphabet = {"", "a", ".", "..", "a%00b"}
  NulSegs = {"a%00b"}
  MaxSegs = 5
  Mode = "resolve"
INVARIANT Inv
CHECK_DEADLOCK FALSE
