INIT Init
NEXT Next
CONSTANTS
  Alphabet = {"", "a", "..", "a%00b"}
  NulSegs = {"a%00b"}
  MaxSegs = 4
  Mode = "names"
INVARIANT Inv
CHECK_DEADLOCK FALSE
