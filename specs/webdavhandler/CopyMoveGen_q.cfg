INIT Init
NEXT Next
CONSTANTS
  NulSegs = {}
  Guard = "full"
  Level = "quick"
  Fuel = 4
INVARIANT Inv
CHECK_DEADLOCK FALSE
