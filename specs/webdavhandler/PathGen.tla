------------------------------- MODULE PathGen -------------------------------
(* C45 case enumeration: every name of at most MaxSegs "/"-separated segments over  *)
(* Alphabet, with the resolved native path the specification predicts for each of   *)
(* the Dir roots below.  One TLC state per name; the laws of PathClean (inside the  *)
(* root, clean, NUL rejected, root detection) are checked on every state, so this   *)
(* run is at the same time the exhaustive model check of the bounded domain.        *)
EXTENDS PathClean, TLC, Json

CONSTANTS Alphabet, MaxSegs, Mode      \* Mode: "resolve" (predictions) | "names" (scenarios only)

VARIABLE c

Roots == <<
    [abs |-> FALSE, segs |-> <<"">>],                       \* ""  (treated as ".")
    [abs |-> FALSE, segs |-> <<".">>],
    [abs |-> TRUE,  segs |-> <<>>],                         \* "/"
    [abs |-> TRUE,  segs |-> <<"tmp", "x">>],
    [abs |-> FALSE, segs |-> <<"rel", "dir">>],
    [abs |-> FALSE, segs |-> <<"rel", "", "dir", "">>],     \* "rel//dir/"
    [abs |-> TRUE,  segs |-> <<"tmp", "..", "x", ".", "y">>],
    [abs |-> FALSE, segs |-> <<"..", "up">>],
    [abs |-> FALSE, segs |-> <<"a", "..", "..">>],          \* cleans to ".."
    [abs |-> TRUE,  segs |-> <<"..", "a\\b">>] >>

\* The names are built one segment at a time (TLC evaluates successor states in
\* parallel; a set of 10^4 initial states is much slower).  <<>> is not a name.
Init == c = <<>>
Next == Len(c) < MaxSegs /\ \E s \in Alphabet : c' = Append(c, s)

Laws ==
    /\ \A i \in 1..Len(Roots) : ResolveLaws(Roots[i], c) /\ CleanIdempotent(Roots[i]) /\ CleanNormal(Roots[i])
    /\ CleanIdempotent([abs |-> TRUE, segs |-> c]) /\ CleanNormal([abs |-> TRUE, segs |-> c])
    /\ CleanIdempotent([abs |-> FALSE, segs |-> c]) /\ CleanNormal([abs |-> FALSE, segs |-> c])

Emit ==
    IF Mode = "resolve"
    THEN PrintT(<<"CASE", ToJson([name  |-> JoinSegs(c),
                                  isroot |-> IsRoot(Roots[1], c),
                                  roots |-> [i \in 1..Len(Roots) |-> RawStr(Roots[i])],
                                  outs  |-> [i \in 1..Len(Roots) |-> ResolveStr(Roots[i], c)]])>>)
    ELSE PrintT(<<"CASE", ToJson([segs |-> c])>>)

Inv == c = <<>> \/ (Laws /\ Emit)
=============================================================================
