SPECIFICATION TSpec
CONSTANTS
  NulSegs = {"a%00b"}
CONSTRAINT Mark
POSTCONDITION AllConsumed
CHECK_DEADLOCK FALSE
