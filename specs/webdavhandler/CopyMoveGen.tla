----------------------------- MODULE CopyMoveGen -----------------------------
(* C46 request enumeration and design-level check.  A state at level 2 is one       *)
(* complete request: tree shape x method x source x canonical destination x         *)
(* source spelling x destination spelling x host form x Overwrite x Depth x lock    *)
(* state (the filter that keeps the product small is in Next).  On every request    *)
(* TLC checks that the reference handler with the configured Guard satisfies the    *)
(* contract of CopyMove (with Guard = "full": holds; with "raw"/"clean": the        *)
(* counterexamples of F2/F2b), that every spelling denotes the canonical path, and  *)
(* prints the request as a scenario for the real handler.                           *)
EXTENDS CopyMove, Json

CONSTANTS Guard, Level, Fuel

VARIABLE c

Dn(pr)    == [k |-> "d", c |-> 0, pr |-> pr]
Fn(cc, pr) == [k |-> "f", c |-> cc, pr |-> pr]

Shape(i) ==
    IF i = 1 THEN
        (<<"a">> :> Dn(1)) @@ (<<"a", "x">> :> Fn(1, 2)) @@ (<<"a", "b">> :> Dn(0)) @@
        (<<"a", "b", "y">> :> Fn(2, 3)) @@ (<<"f">> :> Fn(3, 4)) @@ (<<"d">> :> Dn(5))
    ELSE
        (<<"a">> :> Fn(1, 1)) @@ (<<"d">> :> Dn(0)) @@ (<<"d", "a">> :> Dn(2)) @@
        (<<"d", "a", "x">> :> Fn(2, 0)) @@ (<<"f">> :> Dn(3)) @@ (<<"f", "z">> :> Fn(3, 0))

Shapes == IF Level = "quick" THEN {1} ELSE {1, 2}

Srcs == IF Level = "quick"
        THEN {<<"a">>, <<"a", "b">>, <<"a", "x">>, <<"f">>, <<>>}
        ELSE {<<"a">>, <<"a", "b">>, <<"a", "x">>, <<"f">>, <<"d">>, <<"n">>, <<>>, <<"d", "a">>}

Dsts == IF Level = "quick"
        THEN {<<"a">>, <<"a", "b">>, <<"a", "b", "c">>, <<"a", "n">>, <<"f">>, <<"d">>, <<"n", "m">>, <<>>}
        ELSE {<<"a">>, <<"a", "b">>, <<"a", "x">>, <<"a", "b", "y">>, <<"a", "b", "c">>, <<"a", "n">>,
              <<"f">>, <<"d">>, <<"d", "n">>, <<"d", "a">>, <<"n">>, <<"n", "m">>, <<>>, <<"f", "z">>}

DstKinds == {"exact", "trailing-slash", "dot-suffix", "dot-prefix", "dotdot", "double-slash",
             "no-leading-slash", "abs-url", "pct"}
SrcKinds == {"exact", "trailing-slash", "dot-suffix"}

\* the header spelling of the canonical path p
Spell(kind, p) ==
    CASE kind = "trailing-slash"   -> [abs |-> TRUE,  segs |-> p \o <<"">>]
      [] kind = "dot-suffix"       -> [abs |-> TRUE,  segs |-> p \o <<".">>]
      [] kind = "dot-prefix"       -> [abs |-> TRUE,  segs |-> <<".">> \o p]
      [] kind = "dotdot"           -> [abs |-> TRUE,  segs |-> p \o <<"zz", "..">>]
      [] kind = "double-slash"     -> [abs |-> TRUE,  segs |-> <<"">> \o p]
      [] kind = "no-leading-slash" -> [abs |-> FALSE, segs |-> p]
      [] OTHER                     -> [abs |-> TRUE,  segs |-> p]

\* which spellings exist for p, and how they travel in the Destination header
KindOK(kind, p) == (kind \in {"no-leading-slash", "pct"}) => p # <<>>
HostOf(kind)    == IF kind \in {"double-slash", "abs-url"} THEN "same" ELSE "none"

Variants ==
    {v \in [srcsp : SrcKinds, dstsp : DstKinds, ow : {"T", "F", ""}, depth : {"", "0", "1", "infinity"},
            lock : {"none", "tok", "foreign"}, other : BOOLEAN] :
        LET plain == v.dstsp \in {"exact", "trailing-slash"} IN
        \* every destination spelling, Overwrite T / F (absent for the two plain spellings)
        \/ v.srcsp = "exact" /\ v.depth = "" /\ v.lock = "none" /\ ~v.other /\ (v.ow = "" => plain)
        \* respelled request URL
        \/ v.srcsp # "exact" /\ plain /\ v.ow \in {"T", ""} /\ v.depth = "" /\ ~v.other
              /\ (v.lock = "none" \/ (v.lock = "tok" /\ v.ow = "T"))
        \* Depth header
        \/ v.srcsp = "exact" /\ v.dstsp = "exact" /\ v.depth # "" /\ v.ow \in {"T", "F"} /\ v.lock = "none" /\ ~v.other
        \* the client holds a lock on "/" and submits its token / somebody else holds it
        \/ v.srcsp = "exact" /\ v.lock = "tok" /\ v.depth = "" /\ ~v.other /\ (v.ow = "T" \/ (v.ow = "F" /\ plain))
        \/ v.srcsp = "exact" /\ v.lock = "foreign" /\ v.ow = "T" /\ plain /\ v.depth = "" /\ ~v.other
        \* Destination on another host
        \/ v.other /\ v.srcsp = "exact" /\ v.dstsp = "exact" /\ v.ow = "T" /\ v.depth = "" /\ v.lock = "none"}

Init == c = [lvl |-> 0]

Next ==
    \/ /\ c.lvl = 0
       /\ \E sh \in Shapes, m \in {"COPY", "MOVE"}, s \in Srcs, d \in Dsts :
             c' = [lvl |-> 1, sh |-> sh, m |-> m, s |-> s, d |-> d]
    \/ /\ c.lvl = 1
       /\ \E v \in Variants :
             /\ KindOK(v.dstsp, c.d)
             /\ c' = [lvl |-> 2, sh |-> c.sh, m |-> c.m, s |-> c.s, d |-> c.d, v |-> v]

Req(x) == [m     |-> x.m,
           src   |-> Spell(x.v.srcsp, x.s),
           dst   |-> Spell(x.v.dstsp, x.d),
           host  |-> IF x.v.other THEN "other" ELSE HostOf(x.v.dstsp),
           enc   |-> IF x.v.dstsp = "pct" THEN "pct" ELSE "",
           ow    |-> x.v.ow, depth |-> x.v.depth, lock |-> x.v.lock]

WellFormed(t) == \A p \in DOMAIN t : IsDir(t, Parent(p))

Entries(t) == LET ps == SetToSeq(DOMAIN t) IN
              [i \in 1..Len(ps) |-> [p |-> ps[i], k |-> t[ps[i]].k, c |-> t[ps[i]].c, pr |-> t[ps[i]].pr]]

Check(x) ==
    LET req == Req(x)
        t   == Shape(x.sh)
        r   == Handle(Guard, Fuel, t, req)
    IN  /\ SlashClean(req.src.segs) = x.s /\ SlashClean(req.dst.segs) = x.d     \* spellings denote s and d
        /\ WellFormed(t) /\ WellFormed(r.t)
        /\ ReqOK(x.m, t, r.t, x.s, x.d, NoCap)                                        \* the contract
        /\ (r.ok /\ x.m = "MOVE" /\ x.s # x.d) => MovedTo(t, r.t, x.s, x.d, NoCap)    \* success means moved

Emit(x) ==
    LET req == Req(x) IN
    PrintT(<<"CASE", ToJson([sh |-> x.sh, tree |-> Entries(Shape(x.sh)),
                             m |-> req.m, src |-> req.src, dst |-> req.dst, host |-> req.host,
                             enc |-> req.enc, ow |-> req.ow, depth |-> req.depth, lock |-> req.lock,
                             srcsp |-> x.v.srcsp, dstsp |-> x.v.dstsp,
                             rel |-> Relation(x.s, x.d)])>>)

Inv == c.lvl = 2 => (Check(c) /\ Emit(c))
=============================================================================
