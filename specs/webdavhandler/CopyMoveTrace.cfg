SPECIFICATION TSpec
CONSTANTS
  NulSegs = {}
CONSTRAINT Mark
POSTCONDITION AllConsumed
CHECK_DEADLOCK FALSE
