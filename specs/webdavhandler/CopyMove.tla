------------------------------- MODULE CopyMove -------------------------------
(* C46: WebDAV COPY and MOVE never destroy their source.                            *)
(*                                                                                  *)
(* Trees.  A tree maps paths (sequences of segment names below "/", the root <<>>   *)
(* is always a directory and is not in the domain) to nodes [k, c, pr]: kind "d" or *)
(* "f", content id, dead-property id.                                               *)
(*                                                                                  *)
(* Contract (CopyOK / MoveOK) = the property text, evaluated on the tree before and *)
(* after one request.  S and D are the *resources* named by the request URL and the *)
(* Destination header, i.e. their lexically cleaned paths (PathClean), whatever the *)
(* spelling.  Nothing else is demanded: status codes, what the destination looks    *)
(* like after COPY, partial copies, lock handling are all left open.                *)
(*                                                                                  *)
(* Reference handler (Handle) = a transcription of handleCopyMove / copyFiles /     *)
(* moveFiles over memFS and memLS, parameterised by the destination guard:          *)
(*   "raw"   the comparison of the pinned code (raw strings),                       *)
(*   "clean" cleaned paths are compared,                                            *)
(*   "full"  cleaned paths are compared and a destination that is an ancestor of    *)
(*           the source is refused.                                                 *)
(* TLC checks that with Guard = "full" every enumerated request satisfies the       *)
(* contract (CopyMoveGen, MC stage); with "raw" or "clean" it reports the           *)
(* counterexamples of findings F2 / F2b (MC_CopyMove_asis.cfg, not registered).     *)
(* The real handler is judged by the contract only (CopyMoveTrace).                 *)
EXTENDS PathClean, TLC

None == [k |-> "-", c |-> 0, pr |-> 0]

Exists(t, p) == p = <<>> \/ p \in DOMAIN t
IsDir(t, p)  == p = <<>> \/ (p \in DOMAIN t /\ t[p].k = "d")
Look(t, p)   == IF p \in DOMAIN t THEN t[p] ELSE None
Sub(t, p)    == {q \in DOMAIN t : IsPrefix(p, q)}                \* p and everything below it
Parent(p)    == SubSeq(p, 1, Len(p) - 1)
Suffix(q, p) == SubSeq(q, Len(p) + 1, Len(q))                    \* q = p \o Suffix(q, p)
Restrict(t, dom) == [q \in dom |-> t[q]]
Remove(t, p) == Restrict(t, DOMAIN t \ Sub(t, p))
Merge(t, u)  == [q \in DOMAIN t \cup DOMAIN u |-> IF q \in DOMAIN u THEN u[q] ELSE t[q]]

(* ------------------------------- the contract ------------------------------- *)
StrictlyBelow(d, s) == IsPrefix(s, d) /\ s # d

\* The paths whose state the request must preserve: the source and its descendants.  When the
\* destination lies strictly inside the source the client itself designates that part of the
\* source subtree as the place to be overwritten; it is exempt (DESIGN 5.18).
Protected(pre, post, s, d) ==
    {p \in DOMAIN pre \cup DOMAIN post :
        IsPrefix(s, p) /\ ~(StrictlyBelow(d, s) /\ IsPrefix(d, p))}

SrcIntact(pre, post, s, d) == \A p \in Protected(pre, post, s, d) : Look(post, p) = Look(pre, p)

\* the destination holds exactly the image of the former source subtree.  cap = the depth up to
\* which the post-state was observed (a snapshot of a very deep tree is cut; images that would
\* lie below the cut cannot be seen and are not demanded; NoCap = the whole tree was observed).
NoCap == 1000000
MovedTo(pre, post, s, d, cap) ==
    /\ ~IsPrefix(s, d)
    /\ s # <<>>
    /\ \A q \in Sub(pre, s) : Len(d) + Len(q) - Len(s) <= cap => Look(post, d \o Suffix(q, s)) = pre[q]
    /\ \A r \in Sub(post, d) : \E q \in Sub(pre, s) : r = d \o Suffix(q, s)

CopyOK(pre, post, s, d) == Exists(pre, s) => SrcIntact(pre, post, s, d)
MoveOK(pre, post, s, d, cap) ==
    Exists(pre, s) => (SrcIntact(pre, post, s, d) \/ MovedTo(pre, post, s, d, cap))

ReqOK(m, pre, post, s, d, cap) ==
    IF m = "COPY" THEN CopyOK(pre, post, s, d) ELSE MoveOK(pre, post, s, d, cap)

\* classification of a request for reports (how the destination relates to the source)
Relation(s, d) ==
    IF s = d THEN "dst-is-src"
    ELSE IF IsPrefix(d, s) THEN "dst-ancestor-of-src"
    ELSE IF IsPrefix(s, d) THEN "dst-inside-src"
    ELSE "dst-elsewhere"

(* ------------------------------- memFS operations --------------------------- *)
\* every operation returns [ok, t]; paths are already clean
FsRemoveAll(t, p) ==
    IF p = <<>> THEN [ok |-> FALSE, t |-> t]                      \* the root cannot be removed
    ELSE IF ~IsDir(t, Parent(p)) THEN [ok |-> FALSE, t |-> t]     \* walk fails
    ELSE [ok |-> TRUE, t |-> Remove(t, p)]

FsMkdir(t, p, pr) ==
    IF p = <<>> \/ ~IsDir(t, Parent(p)) \/ Exists(t, p) THEN [ok |-> FALSE, t |-> t]
    ELSE [ok |-> TRUE, t |-> Merge(t, (p :> [k |-> "d", c |-> 0, pr |-> pr]))]

FsRename(t, s, d) ==
    IF s = d THEN [ok |-> TRUE, t |-> t]
    ELSE IF StrictlyBelow(d, s) \/ s = <<>> \/ d = <<>> THEN [ok |-> FALSE, t |-> t]
    ELSE IF ~IsDir(t, Parent(s)) \/ ~IsDir(t, Parent(d)) \/ ~Exists(t, s) THEN [ok |-> FALSE, t |-> t]
    ELSE IF t[s].k = "d" /\ Exists(t, d) /\ (t[d].k # "d" \/ Sub(t, d) # {d}) THEN [ok |-> FALSE, t |-> t]
    ELSE LET moved == [r \in {d \o Suffix(q, s) : q \in Sub(t, s)} |->
                           t[s \o Suffix(r, d)]]
         IN  [ok |-> TRUE, t |-> Merge(Remove(Remove(t, s), d), moved)]

(* ------------------------------- copyFiles / moveFiles ---------------------- *)
Children(t, p) == {q \in DOMAIN t : Len(q) = Len(p) + 1 /\ IsPrefix(p, q)}

\* a fixed but arbitrary enumeration order of a directory's children (the code iterates a map)
RECURSIVE SetToSeq(_)
SetToSeq(S) == IF S = {} THEN <<>> ELSE LET x == CHOOSE x \in S : TRUE IN <<x>> \o SetToSeq(S \ {x})

RECURSIVE CopyFiles(_, _, _, _, _, _)
RECURSIVE CopyKids(_, _, _, _, _, _, _)

\* node = the source node as seen through the handle opened before anything is removed
CopyFiles(t, s, d, ow, inf, fuel) ==
    IF fuel = 0 \/ ~Exists(t, s) THEN [ok |-> FALSE, t |-> t]
    ELSE
    LET node == IF s = <<>> THEN [k |-> "d", c |-> 0, pr |-> 0] ELSE t[s]
        kids == SetToSeq(Children(t, s))                         \* snapshot taken by OpenFile
        rm   == IF Exists(t, d)
                THEN (IF ow THEN FsRemoveAll(t, d) ELSE [ok |-> FALSE, t |-> t])
                ELSE [ok |-> TRUE, t |-> t]
    IN  IF ~rm.ok THEN [ok |-> FALSE, t |-> t]
        ELSE IF node.k = "d"
        THEN LET mk == FsMkdir(rm.t, d, 0)                       \* copyProps is only done for files
             IN  IF ~mk.ok THEN [ok |-> FALSE, t |-> rm.t]
                 ELSE IF inf THEN CopyKids(mk.t, kids, s, d, ow, inf, fuel - 1)
                 ELSE mk
        ELSE IF d = <<>> \/ ~IsDir(rm.t, Parent(d)) THEN [ok |-> FALSE, t |-> rm.t]
        ELSE [ok |-> TRUE, t |-> Merge(rm.t, (d :> node))]

CopyKids(t, kids, s, d, ow, inf, fuel) ==
    IF kids = <<>> THEN [ok |-> TRUE, t |-> t]
    ELSE LET q == Head(kids)
             r == CopyFiles(t, q, d \o Suffix(q, s), ow, inf, fuel)
         IN  IF ~r.ok THEN r ELSE CopyKids(r.t, Tail(kids), s, d, ow, inf, fuel)

MoveFiles(t, s, d, ow) ==
    LET rm == IF Exists(t, d)
              THEN (IF ow THEN FsRemoveAll(t, d) ELSE [ok |-> FALSE, t |-> t])
              ELSE [ok |-> TRUE, t |-> t]
    IN  IF ~rm.ok THEN [ok |-> FALSE, t |-> t]
        ELSE LET rn == FsRename(rm.t, s, d) IN [ok |-> rn.ok, t |-> rn.t]

(* ------------------------------- the handler -------------------------------- *)
\* req = [m, src, dst, host, ow, depth, lock]; src and dst are raw paths [abs, segs]
Refused(t) == [ok |-> FALSE, t |-> t]

Handle(guard, fuel, t, req) ==
    LET s == SlashClean(req.src.segs)
        d == SlashClean(req.dst.segs)
        same == CASE guard = "raw" -> RawStr(req.src) = RawStr(req.dst)
                  [] OTHER -> s = d
    IN
    IF req.host = "other" THEN Refused(t)                                        \* 502
    ELSE IF same THEN Refused(t)                                                 \* 403
    ELSE IF guard = "full" /\ IsPrefix(d, s) THEN Refused(t)                     \* proposed: 403
    ELSE IF req.lock = "foreign" THEN Refused(t)                                 \* 423
    ELSE IF req.m = "COPY"
    THEN IF req.depth = "1" THEN Refused(t)                                      \* 400
         ELSE CopyFiles(t, s, d, req.ow # "F", req.depth # "0", fuel)
    ELSE IF req.lock = "none" /\ s = d THEN Refused(t)          \* the two temporary locks collide: 423
         ELSE IF req.depth \in {"0", "1"} THEN Refused(t)                        \* 400
         ELSE MoveFiles(t, s, d, req.ow = "T")
=============================================================================
