----------------------------- MODULE DeadPropsGen -----------------------------
(* History generator for C47.  Mode "pairs" (bfs): every (resource, name, value)      *)
(* is set, read back with each kind of PROPFIND, overwritten / removed, read again.    *)
(* Mode "free" (simulate): arbitrary histories of PROPPATCH (1..MaxInstr instructions, *)
(* possibly naming a protected property) and PROPFIND.  Each step carries the          *)
(* response the model predicts.                                                        *)
EXTENDS DeadProps, Json

CONSTANTS Mode, GenDepth
VARIABLES hist, script, pending, want
gvars == <<props, hist, script, pending, want>>

SetToSeq(S) == LET RECURSIVE F(_)
                   F(T) == IF T = {} THEN <<>> ELSE LET x == CHOOSE x \in T : TRUE IN <<x>> \o F(T \ {x})
               IN F(S)

ObsSeq(S) == LET q == SetToSeq(S) IN [i \in 1..Len(q) |-> [n |-> q[i][1], st |-> q[i][2], v |-> q[i][3]]]
FindOut(f) == LET ts == SetToSeq(DOMAIN f) IN [i \in 1..Len(ts) |-> [r |-> ts[i], ps |-> ObsSeq(f[ts[i]])]]
PatchOut(S) == LET q == SetToSeq(S) IN [i \in 1..Len(q) |-> [n |-> q[i][1], st |-> q[i][2]]]

DoPatch(r, is) ==
    /\ Proppatch(r, is)
    /\ hist' = Append(hist, [e |-> "proppatch", r |-> r, is |-> is, out |-> PatchOut(PatchStatus(is))])

DoFind(r, kind, depth, ns) ==
    /\ UNCHANGED props
    /\ hist' = Append(hist, [e |-> "propfind", r |-> r, kind |-> kind, depth |-> depth, ns |-> SetToSeq(ns),
                             out |-> FindOut(CASE kind = "named"    -> FindNamed(r, depth, ns)
                                               [] kind = "allprop"  -> FindAll(r, depth)
                                               [] kind = "propname" -> FindNames(r, depth))])

GInit == Init /\ hist = <<>> /\ script = <<>> /\ pending = <<>> /\ want = 0

\* "pairs": script = <<r, n, v, kind, second>> chosen in the first step, then followed
Kinds == {"named", "allprop", "propname"}
Second == {"overwrite", "remove", "conflict"}

PairsNext ==
    /\ UNCHANGED <<pending, want>>
    /\ \/ /\ Len(hist) = 0
          /\ \E r \in Res \ {"g"}, n \in Names, v \in Vals, k \in Kinds, s2 \in Second :
                /\ script' = <<r, n, v, k, s2>>
                /\ DoPatch(r, <<[op |-> "set", n |-> n, v |-> v]>>)
       \/ /\ Len(hist) \in {1, 3}
          /\ DoFind(script[1], script[4], IF script[1] = "d" THEN 1 ELSE 0, {script[2]})
          /\ UNCHANGED script
       \/ /\ Len(hist) = 2
          /\ LET v2 == CHOOSE w \in Vals : w # script[3] IN
             CASE script[5] = "overwrite" -> DoPatch(script[1], <<[op |-> "set", n |-> script[2], v |-> v2]>>)
               [] script[5] = "remove"    -> DoPatch(script[1], <<[op |-> "remove", n |-> script[2], v |-> Absent]>>)
               [] script[5] = "conflict"  -> \E ln \in Live :
                     DoPatch(script[1], <<[op |-> "remove", n |-> script[2], v |-> Absent],
                                          [op |-> "set", n |-> ln, v |-> v2]>>)
          /\ UNCHANGED script

\* "free": a PROPPATCH is assembled one instruction at a time (pending, want = its length) so
\* that a simulation step has a few hundred successors instead of |Instrs|^MaxInstr.
FreeNext ==
    /\ UNCHANGED script
    /\ Len(hist) < GenDepth
    /\ \/ /\ pending = <<>>
          /\ \E k \in 1..MaxInstr, i \in Instrs : want' = k /\ pending' = <<i>>
          /\ UNCHANGED <<props, hist>>
       \/ /\ pending # <<>> /\ Len(pending) < want
          /\ \E i \in Instrs : pending' = Append(pending, i)
          /\ UNCHANGED <<props, hist, want>>
       \/ /\ pending # <<>> /\ Len(pending) = want
          /\ \E r \in Res : DoPatch(r, pending)
          /\ pending' = <<>> /\ want' = 0
       \/ /\ pending = <<>>
          /\ UNCHANGED <<pending, want>>
          /\ \E r \in Res, k \in Kinds, dp \in {0, 1}, ns \in (SUBSET Names) \ {{}} :
                /\ (IF k = "named" THEN Cardinality(ns) <= 2 ELSE ns = Names)
                /\ DoFind(r, k, dp, ns)

GNext == IF Mode = "pairs" THEN PairsNext ELSE FreeNext

GSpec == GInit /\ [][GNext]_gvars

Emit == Len(hist) < GenDepth \/ PrintT(<<"BEH", ToJson(hist)>>)
=============================================================================
