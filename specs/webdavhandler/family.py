# Signatures for the webdavhandler family (C45-C47): they name the failing scenario *class*, so
# that a known finding does not hide a different violation of the same property.
import hashlib
import json


def _sha(x, n=10):
    return hashlib.sha1(json.dumps(x, sort_keys=True, separators=(",", ":")).encode()).hexdigest()[:n]


def _c46(line):
    if line.get("e") != "req":
        return "%s;%s" % (line.get("e"), line.get("m", "?"))
    m, rel = line.get("m"), line.get("rel")
    ow = line.get("ow") or "absent"
    if rel == "dst-is-src":
        sig = "%s;dst-is-src;spelling=%s/%s" % (m, line.get("srcsp"), line.get("dstsp"))
        if m == "MOVE":
            sig += ";lock=%s" % line.get("lock")
        return sig
    if rel == "dst-ancestor-of-src":
        return "%s;dst-ancestor-of-src;overwrite=%s" % (m, ow)
    return "%s;%s;spelling=%s/%s;overwrite=%s;lock=%s" % (
        m, rel, line.get("srcsp"), line.get("dstsp"), ow, line.get("lock"))


def _obs(o):
    v = str(o.get("v", "-"))
    if v.startswith("other:"):
        v = "other"
    elif v.startswith("unexpected-content"):
        v = "unexpected-content"
    return "%s/%s/%s" % (o.get("n"), o.get("st"), v)


def _c47(detail):
    what, exp, act = detail.get("what", "?"), detail.get("expected"), detail.get("actual")
    if isinstance(exp, dict) and isinstance(act, dict):
        for r in sorted(set(exp) | set(act)):
            e = {_obs(o) for o in exp.get(r) or []}
            a = {_obs(o) for o in act.get(r) or []}
            if e != a:
                return "%s;missing=%s;unexpected=%s" % (what, ",".join(sorted(e - a)) or "-", ",".join(sorted(a - e)) or "-")
    return "%s;%s" % (what, _sha([exp, act], 8))


def signature(prop, kind, scenario, detail):
    try:
        if prop == "C47" and kind == "replay":
            return _c47(detail)
        if prop == "C46" and kind == "trace":
            lines = scenario.get("lines") or []
            if lines:
                return _c46(lines[-1])
        if prop == "C45" and kind == "replay" and isinstance(scenario, dict):
            return "resolve;name=%s" % scenario.get("name")
        if prop == "C45" and kind == "trace":
            ln = (scenario.get("lines") or [{}])[-1]
            return "dir-op;%s;name=%s;name2=%s" % (ln.get("op", ln.get("e")), "/".join(ln.get("name", [])),
                                                   "/".join(ln.get("name2", [])))
    except Exception:
        pass
    return None
