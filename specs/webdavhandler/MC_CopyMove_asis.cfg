INIT Init
NEXT Next
CONSTANTS
  NulSegs = {}
  Guard = "raw"
  Level = "quick"
  Fuel = 4
INVARIANT Inv
CHECK_DEADLOCK FALSE
