------------------------------ MODULE PathTrace ------------------------------
(* C45 end to end: operations performed through a real webdav.Dir on a real          *)
(* temporary directory tree are judged here.  The driver builds a sentinel tree S    *)
(* (S/p1/p2/root is the Dir's directory; every level holds look-alike entries with   *)
(* distinct contents), performs ONE operation per event on the pristine layout and   *)
(* logs what it observed: the error flag, whether something was found / which        *)
(* content was read, and the set of paths below S whose existence, kind or content   *)
(* changed (snapshot difference).  The specification computes where the operation    *)
(* must land (Resolve) and accepts the event only if every effect and every read     *)
(* is at that place, NUL names are refused, and RemoveAll/Rename refuse the root.    *)
(* Whether an operation inside the root succeeds is the operating system's business  *)
(* and is not judged.                                                                *)
EXTENDS PathClean, TraceIO

VARIABLES root, cwd, layout, nops, cur, l
tvars == <<root, cwd, layout, nops, cur, l>>

Line == Trace[l]

Range(s) == {s[i] : i \in 1..Len(s)}

\* location below S of a resolved path; the driver writes the absolute name of S as the
\* single segment "P".  A result starting with ".." or "OUT" has left the sentinel tree.
Loc(r) ==
    IF r.abs THEN (IF r.segs # <<>> /\ r.segs[1] = "P" THEN Tail(r.segs) ELSE <<"OUT">> \o r.segs)
    ELSE CleanStack(FALSE, cwd \o r.segs, <<>>)

RootLoc == Loc(Clean(root))

TInit ==
    \E t \in 1..NT :
       LET h == Trace[Meta.starts[t]] IN
       /\ cur = t /\ l = Meta.starts[t] + 1
       /\ h.e = "hdr"
       /\ root = [abs |-> h.root.abs, segs |-> h.root.segs]
       /\ cwd = h.cwd
       /\ layout = [q \in {e.p : e \in Range(h.layout)} |->
                        LET e == CHOOSE e \in Range(h.layout) : e.p = q IN [k |-> e.k, c |-> e.c]]
       /\ nops = 0

Under(p, q) == IsPrefix(p, q)         \* q is p or below p

Judge(ev) ==
    LET r    == Resolve(root, ev.name)
        tgt  == Loc(r)
        ch   == Range(ev.changed)
    IN  IF r.rej THEN ev.err /\ ch = {} /\ ~ev.found
        ELSE
        /\ Under(RootLoc, tgt)                                   \* lexically inside the root
        /\ CASE ev.op = "stat"  -> ch = {} /\ (ev.found <=> tgt \in DOMAIN layout)
             [] ev.op = "read"  -> /\ ch = {}
                                   /\ ev.found <=> tgt \in DOMAIN layout
                                   /\ (ev.found /\ layout[tgt].k = "f") => ev.cid = layout[tgt].c
             [] ev.op \in {"mkdir", "create"} -> ch \subseteq {tgt}
             [] ev.op = "removeall" ->
                                   /\ \A c \in ch : Under(tgt, c)
                                   /\ IsRoot(root, ev.name) => ev.err /\ ch = {}
             [] ev.op = "rename" ->
                   LET r2 == Resolve(root, ev.name2)
                       t2 == Loc(r2)
                   IN  IF r2.rej THEN ev.err /\ ch = {}
                       ELSE /\ Under(RootLoc, t2)
                            /\ \A c \in ch : Under(tgt, c) \/ Under(t2, c)
                            /\ (IsRoot(root, ev.name) \/ IsRoot(root, ev.name2)) => ev.err /\ ch = {}
             [] OTHER -> FALSE

TOp ==
    /\ Line.e = "op"
    /\ Judge(Line)
    /\ nops' = nops + 1
    /\ UNCHANGED <<root, cwd, layout>>

TNext ==
    /\ l <= Meta.ends[cur]
    /\ l' = l + 1 /\ cur' = cur
    /\ TOp

TSpec == TInit /\ [][TNext]_tvars

Mark == HighWater(cur, l)
=============================================================================
