------------------------------ MODULE DeadPropsMC ------------------------------
(* Design-level checks of DeadProps on small constants (kept in a module of their    *)
(* own: TLC evaluates parameterless constant-level definitions eagerly, and          *)
(* RoundTrip quantifies over all property maps).                                     *)
EXTENDS DeadProps

Next == \E r \in Res, is \in Seqs(Instrs, MaxInstr) : Proppatch(r, is)

Spec == Init /\ [][Next]_props

\* atomicity and the round trip, as action properties of the model
Atomic == [][\A r \in Res : props'[r] # props[r] =>
                \E is \in Seqs(Instrs, MaxInstr) : ~Conflict(is) /\ props'[r] = Apply(props[r], is)]_props
LastWins(is, n) ==      \* the effect of a conflict-free instruction list on name n
    LET idx == {i \in 1..Len(is) : is[i].n = n} IN
    IF idx = {} THEN "keep"
    ELSE LET j == CHOOSE j \in idx : \A k \in idx : k <= j IN IF is[j].op = "set" THEN is[j].v ELSE Absent
RoundTrip ==
    \A m \in [Names -> Vals \cup {Absent}], is \in Seqs(Instrs, MaxInstr) :
        ~Conflict(is) =>
            \A n \in Names : Apply(m, is)[n] = IF LastWins(is, n) = "keep" THEN m[n] ELSE LastWins(is, n)
=============================================================================
