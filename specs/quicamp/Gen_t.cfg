SPECIFICATION Spec
CONSTANTS
  NAddr = 2
  Depth = 20
INVARIANT Emit
CHECK_DEADLOCK FALSE
