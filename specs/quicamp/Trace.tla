------------------------------- MODULE Trace -------------------------------
(* Trace validation for C27.  One trace = one scripted run against a real server    *)
(* Endpoint (package test harness, synctest bubble).  Lines, in program order:      *)
(*   hdr  constants of the run (number of addresses, require-address-validation)    *)
(*   c    a datagram of n bytes from address a reached the endpoint's packet conn;  *)
(*        proof: the driver built it from material only obtainable at that address  *)
(*        (Handshake keys / Retry token); val: per address, whether the server now  *)
(*        considers it validated (white box, read at quiescence)                    *)
(*   t    the fake clock advanced (PTO and other timers fire); val as above         *)
(*   s    the endpoint wrote a datagram of n bytes to address a (0 = an address     *)
(*        that never sent anything)                                                 *)
(* Every line must be a step of QuicAmp and AmpLimit must hold in every state.      *)
EXTENDS QuicAmp, TraceIO, FiniteSets

VARIABLES cur, l
tvars == <<avars, cur, l>>

Line == Trace[l]

TInit ==
    \E t \in 1..NT :
       LET h == Trace[Meta.starts[t]] IN
       /\ cur = t /\ l = Meta.starts[t] + 1
       /\ h.e = "hdr"
       /\ AInit

ValOK(a0) == \A a \in Addrs : a # a0 => Line.val[a] = validated[a]

TClient ==
    /\ Line.e = "c"
    /\ Line.a \in Addrs
    /\ Len(Line.val) = Cardinality(Addrs)
    /\ ValOK(Line.a)
    /\ (validated[Line.a] => Line.val[Line.a])
    /\ ClientDatagram(Line.a, Line.n, Line.proof, Line.val[Line.a])

TTick ==
    /\ Line.e = "t"
    /\ Len(Line.val) = Cardinality(Addrs)
    /\ ValOK(0)
    /\ Tick

TServer ==
    /\ Line.e = "s"
    /\ Line.a \in Addrs           \* a datagram to an address that never sent anything matches no step
    /\ ServerDatagram(Line.a, Line.n)

TNext ==
    /\ l <= Meta.ends[cur]
    /\ l' = l + 1 /\ cur' = cur
    /\ (TClient \/ TTick \/ TServer)

TSpec == TInit /\ [][TNext]_tvars

Mark == HighWater(cur, l)
=============================================================================
