# Signatures for findings of the quicamp family (C27): the class of the datagram that broke the
# bound -- what it starts with, its size relative to the padded-Initial size, the allowance the
# sending connection had (white-box values the driver logs at every quiescent point) and whether
# the packets alone (without trailing padding) were within it -- not a hash of the byte counts.
import re


def _cls(v, minpkt, pad):
    if v <= 0:
        return "0"
    if v < minpkt:
        return "below-minpkt"
    if v < pad:
        return "minpkt..pad-1"
    return ">=pad"


def _walk(lines):
    """Yield (index, line, budget) for every server datagram: budget = allowance of the sending
    connection just before it (None: unknown / endpoint-level, -1: unlimited)."""
    prev = []
    step = None
    spent = {}
    for i, x in enumerate(lines):
        e = x.get("e")
        if e in ("c", "t"):
            if step is not None:
                prev = step.get("lims", prev)
            step, spent = x, {}
        elif e == "s":
            c = x.get("conn", 0)
            b = None
            if c:
                b = prev[c - 1] if c - 1 < len(prev) else 0
                if b >= 0:
                    if step is not None and step.get("e") == "c" and step.get("conn") == c:
                        b += 3 * step.get("n", 0)
                    b = max(b - spent.get(c, 0), 0)
                spent[c] = spent.get(c, 0) + x.get("n", 0)
            yield i, x, b


def _padded_beyond(x, b, minpkt, pad):
    return (b is not None and b >= minpkt and x.get("pt") == "initial" and x.get("n") == pad
            and x.get("n") > b and x.get("body", x.get("n")) <= b)


def signature(prop, kind, scenario, detail):
    what = (detail or {}).get("what", "")
    try:
        if kind != "trace" or not isinstance(scenario, dict):
            return None
        lines = scenario.get("lines") or []
        if not lines:
            return None
        hdr, last = lines[0], lines[-1]
        minpkt, pad = hdr.get("minpkt", 128), hdr.get("pad", 1200)
        inv = re.match(r"invariant (\w+)", what)
        if last.get("e") == "s" and inv:
            a = last.get("a")
            budget = None
            for i, x, b in _walk(lines):
                if x.get("a") == a and _padded_beyond(x, b, minpkt, pad):
                    # this datagram, or an earlier one to the same address whose excess was still
                    # covered by the slack of other connections from that address
                    return "amp;inv=%s;dgram=initial;padded-to=pad;allowance=minpkt..pad-1;packets=within-allowance" % inv.group(1)
                if i == len(lines) - 1:
                    budget = b
            n = last.get("n", 0)
            body = last.get("body", n)
            size = "=pad" if n == pad else ("<pad" if n < pad else ">pad")
            if budget is None:
                recv = sum(x.get("n", 0) for x in lines[:-1] if x.get("e") == "c" and x.get("a") == a)
                sent = sum(x.get("n", 0) for x in lines[:-1] if x.get("e") == "s" and x.get("a") == a)
                return "amp;inv=%s;dgram=%s;size%s;endpoint-level;address-allowance=%s" % (
                    inv.group(1), last.get("pt"), size, _cls(3 * recv - sent, minpkt, pad))
            if budget < 0:
                return "amp;inv=%s;dgram=%s;size%s;conn-unlimited-but-address-not-validated" % (
                    inv.group(1), last.get("pt"), size)
            return "amp;inv=%s;dgram=%s;size%s;allowance=%s;packets=%s" % (
                inv.group(1), last.get("pt"), size, _cls(budget, minpkt, pad),
                "within-allowance" if body <= budget else "beyond-allowance")
        if inv:
            return "amp;inv=%s;event=%s" % (inv.group(1), last.get("e"))
        return "amp;unmatched;event=%s;kind=%s" % (last.get("e"), last.get("kind", last.get("pt", "")))
    except Exception:
        return None
