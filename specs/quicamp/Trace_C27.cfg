SPECIFICATION TSpec
CONSTANTS
  Addrs = {1, 2, 3}
  Factor = 3
INVARIANTS AmpLimit ValidatedOnEvidence
CONSTRAINT Mark
POSTCONDITION AllConsumed
CHECK_DEADLOCK FALSE
