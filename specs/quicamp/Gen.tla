-------------------------------- MODULE Gen --------------------------------
(* Client behaviours for C27 (scenario generator, TLC -simulate).  A behaviour is a *)
(* script of client-side steps against one server endpoint: Initial datagrams of    *)
(* several size classes (with the token variants that matter when the server        *)
(* requires address validation), duplicates, truncations, garbage, datagrams from    *)
(* another address, acknowledgements, the client's Handshake flight, and waiting     *)
(* (the server's PTO fires on the fake clock).  The driver executes the script on    *)
(* the real endpoint, skipping steps whose precondition does not hold there, and     *)
(* records what crossed the packet conn; Trace.tla judges the record.                *)
EXTENDS Integers, Sequences, TLC, Json

CONSTANTS NAddr, Depth

VARIABLES hist, started

Addrs == 1..NAddr
SizeClasses == 0..8          \* concrete byte sizes are chosen by the driver per class
Tokens == {"none", "valid", "bad", "old", "foreign"}
GarbageKinds == {"short", "shortcid", "longv1", "longvx", "vn0", "tiny"}

Steps ==
    [k : {"init"}, a : Addrs, sz : SizeClasses, tok : Tokens]
    \cup [k : {"dup", "trunc", "hs", "hsack"}, a : Addrs]
    \cup [k : {"ack"}, a : Addrs, pad : BOOLEAN]
    \cup [k : {"garbage"}, a : Addrs, g : GarbageKinds, sz : SizeClasses]
    \cup {[k |-> "spoof", a |-> p[1], b |-> p[2]] : p \in {q \in Addrs \X Addrs : q[1] # q[2]}}
    \cup [k : {"pto"}]
    \cup [k : {"wait"}, d : 0..3]

Init == hist = <<>> /\ started = {}

\* behaviours worth running: an address acts only after it has sent an Initial; waiting is
\* frequent (the interesting server behaviour is what it sends while the client is silent)
Enabled(s) ==
    CASE s.k = "init" -> TRUE
      [] s.k \in {"pto", "wait"} -> started # {}
      [] s.k = "garbage" -> TRUE
      [] OTHER -> s.a \in started

Next ==
    /\ Len(hist) < Depth
    /\ \E s \in Steps :
          /\ Enabled(s)
          /\ hist' = Append(hist, s)
          /\ started' = IF s.k = "init" THEN started \cup {s.a} ELSE started

Spec == Init /\ [][Next]_<<hist, started>>

Emit == Len(hist) < Depth \/ PrintT(<<"BEH", ToJson(hist)>>)
=============================================================================
