SPECIFICATION Spec
CONSTANTS
  Addrs = {1}
  Factor = 3
  MinPkt = 1
  Pad = 3
  MaxDgram = 3
  ClientSizes = {1, 3, 4}
  MaxRecv = 7
  PadBeyondLimit = TRUE
INVARIANTS TypeOK AmpLimit AmpState ValidatedOnEvidence LimSound
CHECK_DEADLOCK FALSE
