------------------------------ MODULE QuicAmp ------------------------------
(* C27: until a QUIC server has validated a client's address, the total size of     *)
(* the datagrams it sends to that address never exceeds three times the total size  *)
(* of the datagrams it has received from that address (RFC 9000 section 8.1).       *)
(*                                                                                  *)
(* The machine is the one the property describes: per address the bytes received,   *)
(* the bytes sent, whether the server considers the address validated, and whether  *)
(* the server has seen evidence that the client receives at that address (a         *)
(* Handshake packet, which can only be built from the server's own flight sent to   *)
(* that address, or a Retry token issued to that address).  Every datagram counts:  *)
(* Initial, Handshake, 1-RTT, Retry, Version Negotiation, stateless reset,          *)
(* CONNECTION_CLOSE, garbage, truncated and duplicated ones.                        *)
(*                                                                                  *)
(* What is NOT fixed here: when and what the server sends, how it batches or pads,  *)
(* when its PTO fires.  Only the bound is asserted.                                 *)
EXTENDS Integers

CONSTANTS Addrs,     \* client addresses (ip:port)
          Factor     \* 3

VARIABLES recv,       \* [Addrs -> Nat] bytes of all datagrams received from the address
          sent,       \* [Addrs -> Nat] bytes of all datagrams sent to the address
          validated,  \* [Addrs -> BOOLEAN] the server considers the address validated
          proof,      \* [Addrs -> BOOLEAN] the server has received evidence of return routability
          over        \* [Addrs -> BOOLEAN] the latest server datagram broke the bound

avars == <<recv, sent, validated, proof, over>>

AInit ==
    /\ recv = [a \in Addrs |-> 0]
    /\ sent = [a \in Addrs |-> 0]
    /\ validated = [a \in Addrs |-> FALSE]
    /\ proof = [a \in Addrs |-> FALSE]
    /\ over = [a \in Addrs |-> FALSE]

NoneOver == [a \in Addrs |-> FALSE]

\* A datagram of n bytes from address a reaches the server's socket.  isProof: it carries
\* evidence that the sender receives what the server sends to a.  nowValid: the server's
\* view of a after processing it.  A server may validate an address only on evidence.
ClientDatagram(a, n, isProof, nowValid) ==
    /\ n >= 0
    /\ recv' = [recv EXCEPT ![a] = @ + n]
    /\ proof' = [proof EXCEPT ![a] = @ \/ isProof]
    /\ (nowValid /\ ~validated[a]) => proof'[a]
    /\ validated' = [validated EXCEPT ![a] = @ \/ nowValid]
    /\ over' = NoneOver
    /\ UNCHANGED sent

\* The server writes a datagram of n bytes to address a (whatever it contains).
ServerDatagram(a, n) ==
    /\ n >= 0
    /\ sent' = [sent EXCEPT ![a] = @ + n]
    /\ over' = [over EXCEPT ![a] = ~validated[a] /\ sent'[a] > Factor * recv[a]]
    /\ UNCHANGED <<recv, validated, proof>>

\* Time passes (timers may fire inside the server); nothing observable changes.
Tick == over' = NoneOver /\ UNCHANGED <<recv, sent, validated, proof>>

(* ------------------------------------------------------------------ properties *)
\* C27, as a statement about every datagram the server sends:
AmpLimit == \A a \in Addrs : ~over[a]
\* C27, as a statement about states (equivalent while the address stays unvalidated):
AmpState == \A a \in Addrs : ~validated[a] => sent[a] <= Factor * recv[a]
\* a server validates only on evidence
ValidatedOnEvidence == \A a \in Addrs : validated[a] => proof[a]
=============================================================================
