SPECIFICATION Spec
CONSTANTS
  NAddr = 2
  Depth = 12
INVARIANT Emit
CHECK_DEADLOCK FALSE
