------------------------------- MODULE AmpAlg -------------------------------
(* Design-level model for C27: the anti-amplification accounting a server keeps     *)
(* (quic/loss.go: antiAmplificationLimit, datagramReceived, packetSent, sendLimit;  *)
(* quic/conn_send.go: datagram size limit and padding of ack-eliciting Initial      *)
(* datagrams; quic/endpoint.go: stateless replies) composed with an arbitrary       *)
(* client.  TLC checks that this accounting refines QuicAmp (AmpState, AmpLimit).   *)
(*                                                                                  *)
(* Sizes are in abstract units (the real constants are 128 / 1200 / 1200 bytes).    *)
(*                                                                                  *)
(* PadBeyondLimit = TRUE models the pinned tree: an ack-eliciting Initial datagram  *)
(* is padded to Pad bytes even when the allowance is smaller (conn_send.go pads     *)
(* after the writer was limited to maxSendSize).  With it TLC produces a            *)
(* counterexample to AmpLimit (finding quicamp-F1); the registered configurations   *)
(* use FALSE, i.e. the accounting as it should be.                                  *)
EXTENDS QuicAmp

CONSTANTS MinPkt,          \* smallest allowance with which the server still sends (minPacketSize)
          Pad,             \* padded size of datagrams carrying ack-eliciting Initial packets
          MaxDgram,        \* largest datagram the server builds
          ClientSizes,     \* sizes of client datagrams
          MaxRecv,         \* bound: total bytes received per address
          PadBeyondLimit   \* BOOLEAN, see above

VARIABLES lim,     \* [Addrs -> Int] allowance of the connection from that address; Unl after validation
          conn,    \* [Addrs -> BOOLEAN] a connection exists for the address
          owed     \* [Addrs -> Nat] size of the datagram a stateless reply may answer (0: none)

vars == <<avars, lim, conn, owed>>

Unl == 0 - 1
Min(a, b) == IF a < b THEN a ELSE b
Max(a, b) == IF a > b THEN a ELSE b

Init ==
    /\ AInit
    /\ lim = [a \in Addrs |-> 0]
    /\ conn = [a \in Addrs |-> FALSE]
    /\ owed = [a \in Addrs |-> 0]

\* A datagram that creates a connection or is routed to the existing one (valid, duplicate,
\* truncated, undecryptable: all are credited, loss.datagramReceived).  Evidence needs a
\* previous server datagram.
ToConn(a, n, isProof) ==
    /\ recv[a] + n <= MaxRecv
    /\ (conn[a] \/ n >= Pad)                 \* the first Initial must come in a full-size datagram
    /\ isProof => sent[a] > 0
    /\ \E v \in {FALSE, isProof} :           \* the server may validate on evidence (Handshake) or not (Retry token)
          /\ ClientDatagram(a, n, isProof, v)
          /\ lim' = [lim EXCEPT ![a] = IF validated'[a] THEN Unl ELSE @ + Factor * n]
    /\ conn' = [conn EXCEPT ![a] = TRUE]
    /\ UNCHANGED owed

\* A datagram no connection takes: too short, unknown version, stateless-reset bait, Initial
\* without token when address validation is required, invalid token.  The endpoint may answer
\* it once with a datagram no larger than the one received (Retry, Version Negotiation,
\* CONNECTION_CLOSE, stateless reset).
ToEndpoint(a, n) ==
    /\ recv[a] + n <= MaxRecv
    /\ ClientDatagram(a, n, FALSE, FALSE)
    /\ owed' = [owed EXCEPT ![a] = n]
    /\ UNCHANGED <<lim, conn>>

EndpointReply(a, m) ==
    /\ owed[a] > 0 /\ m >= 1 /\ m <= owed[a]
    /\ ServerDatagram(a, m)
    /\ owed' = [owed EXCEPT ![a] = 0]
    /\ UNCHANGED <<lim, conn>>

\* The connection sends a datagram: n bytes written under the limit min(allowance, MaxDgram);
\* a datagram carrying an ack-eliciting Initial packet is padded to Pad bytes.
ConnSend(a, n, padded) ==
    /\ conn[a] /\ n >= 1 /\ n <= MaxDgram
    /\ LET size == IF padded THEN Max(n, Pad) ELSE n IN
       IF validated[a]
       THEN sent[a] + size <= Factor * recv[a] + 2 * Pad     \* bound for model checking only
            /\ ServerDatagram(a, size) /\ UNCHANGED lim
       ELSE /\ lim[a] >= MinPkt
            /\ n <= lim[a]
            /\ (padded => (PadBeyondLimit \/ Pad <= lim[a]))
            /\ ServerDatagram(a, size)
            /\ lim' = [lim EXCEPT ![a] = Max(0, @ - size)]
    /\ UNCHANGED <<conn, owed>>

Next ==
    \/ \E a \in Addrs, n \in ClientSizes, p \in BOOLEAN : ToConn(a, n, p)
    \/ \E a \in Addrs, n \in ClientSizes : ToEndpoint(a, n)
    \/ \E a \in Addrs, m \in 1..Pad : EndpointReply(a, m)
    \/ \E a \in Addrs, n \in 1..MaxDgram, p \in BOOLEAN : ConnSend(a, n, p)

Spec == Init /\ [][Next]_vars

\* the allowance never promises more than the property allows
LimSound == \A a \in Addrs : ~validated[a] => (lim[a] >= 0 /\ sent[a] + lim[a] <= Factor * recv[a])
TypeOK == /\ \A a \in Addrs : recv[a] \in 0..MaxRecv /\ sent[a] >= 0 /\ lim[a] >= Unl
=============================================================================
