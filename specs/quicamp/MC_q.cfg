SPECIFICATION Spec
CONSTANTS
  Addrs = {1}
  Factor = 3
  MinPkt = 2
  Pad = 5
  MaxDgram = 5
  ClientSizes = {1, 2, 5, 6}
  MaxRecv = 12
  PadBeyondLimit = FALSE
INVARIANTS TypeOK AmpLimit AmpState ValidatedOnEvidence LimSound
CHECK_DEADLOCK FALSE
