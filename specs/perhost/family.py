# perhost family hooks: signatures that name the class of a C53 violation.  The verdict always
# comes from TLC (replay mismatch against the TLC-computed set of routes, or a rejected trace
# line); this file only classifies rejected scenarios for reporting and known-findings.


def _host_class(h):
    k = h.get("k")
    if k == "ip":
        b = h.get("b", [])
        if len(b) == 4:
            return "ip4"
        mapped = b[:10] == [0] * 10 and b[10:12] == [255, 255]
        return "ip6" + ("/mapped" if mapped else "")
    if k == "name":
        return "name/" + {"l": "lower", "m": "Title", "d": "trailing-dot"}.get(h.get("sp"), "?")
    return str(k)


def _related(rule, h):
    """label-level: could this rule be about this host at all (only used to keep signatures small)"""
    if h.get("k") == "name" and rule.get("k") in ("zone", "host"):
        rl, hl = rule.get("l", []), h.get("l", [])
        return len(rl) <= len(hl) and hl[len(hl) - len(rl):] == rl
    if h.get("k") == "ip" and rule.get("k") in ("ip", "net"):
        return True
    return False


def _rule_class(r):
    k = r.get("k")
    if k in ("zone", "host"):
        return "%s/%s" % (k, {"l": "lower", "m": "Title", "d": "trailing-dot"}.get(r.get("sp"), "?"))
    return "%s%d" % (k, 4 if len(r.get("b", [])) == 4 else 6)


def _sig(rules, h, allowed, got):
    rel = [r for r in rules if _related(r, h)]
    if h.get("k") == "name" and h.get("sp") == "d" and sorted(allowed) == ["bypass"] and got == "default":
        dots = sorted({r.get("k") for r in rel if r.get("sp") == "d"})
        if dots:
            return "ph:trailing-dot-on-both-sides-not-matched;rules=" + "+".join(dots)
    rc = ",".join(sorted({_rule_class(r) for r in rel})) or "-"
    junk = sorted({r.get("j", "?") for r in rules if r.get("k") == "junk"})
    if junk:
        rc += ";malformed-items=" + "+".join(junk)
    return "ph:host=%s;related-rules=%s;allowed=%s;got=%s" % (_host_class(h), rc, "|".join(sorted(allowed)) or "?", got[:60])


def signature(prop, kind, scenario, detail):
    try:
        if kind == "replay" and isinstance(scenario, dict):
            exp = detail.get("expected") or {}
            act = detail.get("actual") or {}
            return _sig(scenario["cfg"], scenario["h"], exp.get("allowed", []), act.get("r", "?"))
        if kind == "trace":
            lines = scenario["lines"]
            cfg, last = lines[0], lines[-1]
            if last.get("e") == "dial":
                # the set of routes is TLC's business; name the class by what TLC must have required
                h = last["h"]
                got = last.get("r", "?")
                need = ["bypass"] if got == "default" else ["default"] if got == "bypass" else ["rejected-by-TLC"]
                return _sig(cfg.get("rules", []), h, need, got)
    except Exception:
        return None
    return None
