SPECIFICATION GSpec
CONSTANT Lvl = 2
INVARIANTS Sane Emit
CHECK_DEADLOCK FALSE
