------------------------------ MODULE TracePH ------------------------------
(* C53 trace validation.  One trace = one PerHost configuration and a batch of dials:  *)
(*   {"e":"cfg","rules":[rule..]}                                                      *)
(*   {"e":"dial","h":host,"api":"Dial"|"DialContext"|"DialContextPlain","r":route}     *)
(* r is what the two recording dialers saw: "bypass" / "default" (exactly that dialer   *)
(* was called once, with the network and address given to PerHost), "none" (no dialer   *)
(* called, error returned), or a description of anything else.  A line is accepted iff  *)
(* the documented rules (PerHost!Route) admit r.                                       *)
EXTENDS PerHost, TraceIO

VARIABLES rules, cur, l
tvars == <<rules, cur, l>>
Line == Trace[l]

TInit == \E t \in 1 .. NT :
            LET h == Trace[Meta.starts[t]] IN
            /\ h.e = "cfg"
            /\ cur = t /\ l = Meta.starts[t] + 1
            /\ rules = h.rules

TDial == /\ Line.e = "dial"
         /\ Line.r \in Route(rules, Line.h)
         /\ UNCHANGED rules

TNext == /\ l <= Meta.ends[cur] /\ l' = l + 1 /\ cur' = cur /\ TDial
TSpec == TInit /\ [][TNext]_tvars
Mark == HighWater(cur, l)
=============================================================================
