------------------------------ MODULE NetNames ------------------------------
(* Abstract values shared by the name/address routing specifications (C52, C53).   *)
(* (The same file is kept in specs/proxyselect and specs/perhost: a family only     *)
(* sees specs/common and its own directory.)                                        *)
(*                                                                                 *)
(* IP address  = sequence of 4 (IPv4) or 16 (IPv6) bytes.                           *)
(* Network     = record with b (address bytes, host bits may be set, as in the      *)
(*               documented example 1.2.3.4/8) and bits (prefix length).            *)
(* Host name   = sequence of labels (strings), leftmost label first.                *)
EXTENDS Integers, Sequences

IsIP(b) == Len(b) \in {4, 16}

\* ip lies in net: same family and the first net.bits bits agree.
InNet(ip, net) ==
    /\ Len(ip) = Len(net.b)
    /\ net.bits <= 8 * Len(ip)
    /\ LET full == net.bits \div 8
           rem  == net.bits % 8
       IN  /\ \A i \in 1 .. full : ip[i] = net.b[i]
           /\ rem > 0 => (ip[full + 1] \div (2 ^ (8 - rem))) = (net.b[full + 1] \div (2 ^ (8 - rem)))

\* loopback addresses: 127.0.0.0/8 and ::1 (RFC 1122, RFC 4291)
Loopback(ip) ==
    \/ Len(ip) = 4 /\ ip[1] = 127
    \/ Len(ip) = 16 /\ (\A i \in 1 .. 15 : ip[i] = 0) /\ ip[16] = 1

\* IPv4-mapped IPv6 address ::ffff:a.b.c.d.  Whether it denotes "the same address" as
\* a.b.c.d is not fixed by the documentation of either package: wherever the answer
\* depends on it the specifications accept both decisions.
Mapped(ip) == Len(ip) = 16 /\ (\A i \in 1 .. 10 : ip[i] = 0) /\ ip[11] = 255 /\ ip[12] = 255
Unmap(ip)  == IF Mapped(ip) THEN SubSeq(ip, 13, 16) ELSE ip

\* label sequences
SuffixOf(s, t)     == Len(s) <= Len(t) /\ SubSeq(t, Len(t) - Len(s) + 1, Len(t)) = s
ProperSuffix(s, t) == Len(s) < Len(t) /\ SuffixOf(s, t)

\* the elements of a sequence as a set
Elems(s) == {s[i] : i \in 1 .. Len(s)}
=============================================================================
