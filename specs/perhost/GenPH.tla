------------------------------- MODULE GenPH -------------------------------
(* C53 case generator.  Configurations are built by a small state machine (start with   *)
(* no rule, add one rule per step); every reachable state is one configuration and       *)
(* prints one CASE item per dialled host with the set of admissible routes.  The sanity  *)
(* properties of PerHost are checked on every configuration.                             *)
EXTENDS PerHost, TLC, Json, FiniteSets

CONSTANT Lvl            \* 1 = quick, 2 = thorough

VARIABLE c              \* the sequence of rules added so far
gvars == <<c>>

Z(n) == [i \in 1 .. n |-> 0]
V4(a, b, cc, d) == <<a, b, cc, d>>
Doc6(x, y, last) == <<32, 1, 13, 184, x, y>> \o Z(9) \o <<last>>
Doc9(last)       == <<32, 1, 13, 185>> \o Z(11) \o <<last>>
Map6(a, b, cc, d) == Z(10) \o <<255, 255, a, b, cc, d>>

NameH(l, sp) == [k |-> "name", l |-> l, sp |-> sp, b |-> <<>>]
IpH(b)       == [k |-> "ip", l |-> <<>>, sp |-> "l", b |-> b]
BadH(l)      == [k |-> "bad", l |-> l, sp |-> "l", b |-> <<>>]

Hosts == {
    NameH(<<"example", "com">>, "l"), NameH(<<"example", "com">>, "m"), NameH(<<"example", "com">>, "d"),
    NameH(<<"www", "example", "com">>, "l"), NameH(<<"www", "example", "com">>, "m"),
    NameH(<<"www", "example", "com">>, "d"),
    NameH(<<"a", "www", "example", "com">>, "l"),
    NameH(<<"myexample", "com">>, "l"),
    NameH(<<"com">>, "l"),
    NameH(<<"example", "org">>, "l"),
    NameH(<<"localhost">>, "l"),
    IpH(V4(10, 1, 2, 3)), IpH(V4(10, 127, 255, 255)), IpH(V4(10, 128, 0, 0)), IpH(V4(11, 0, 0, 0)),
    IpH(V4(127, 0, 0, 1)),
    IpH(Doc6(0, 0, 1)), IpH(Doc6(128, 0, 1)), IpH(Doc9(1)),
    IpH(Map6(10, 1, 2, 3)),
    BadH(<<"example", "com">>) }

IpR(via, b)          == [k |-> "ip", via |-> via, l |-> <<>>, sp |-> "l", lead |-> "", b |-> b, bits |-> 0]
NetR(via, b, bits)   == [k |-> "net", via |-> via, l |-> <<>>, sp |-> "l", lead |-> "", b |-> b, bits |-> bits]
ZoneR(via, l, sp, lead) == [k |-> "zone", via |-> via, l |-> l, sp |-> sp, lead |-> lead, b |-> <<>>, bits |-> 0]
HostR(via, l, sp)    == [k |-> "host", via |-> via, l |-> l, sp |-> sp, lead |-> "", b |-> <<>>, bits |-> 0]

RulesCore == {
    IpR("str", V4(10, 1, 2, 3)), IpR("api", V4(10, 1, 2, 3)), IpR("str", Doc6(0, 0, 1)),
    NetR("str", V4(10, 0, 0, 0), 9), NetR("api", V4(10, 0, 0, 0), 8), NetR("str", Doc6(0, 0, 0), 33),
    ZoneR("str", <<"example", "com">>, "l", "."), ZoneR("api", <<"example", "com">>, "l", ""),
    ZoneR("str", <<"example", "com">>, "m", "."), ZoneR("str", <<"example", "com">>, "d", "."),
    HostR("str", <<"example", "com">>, "l"), HostR("api", <<"www", "example", "com">>, "l"),
    HostR("str", <<"example", "com">>, "d"), HostR("str", <<"localhost">>, "l") }

RulesMore == {
    IpR("api", Doc6(0, 0, 1)), IpR("str", Map6(10, 1, 2, 3)), IpR("str", V4(127, 0, 0, 1)),
    NetR("str", V4(10, 1, 2, 3), 16), NetR("str", V4(10, 1, 2, 3), 32), NetR("str", V4(0, 0, 0, 0), 0),
    NetR("api", Doc6(0, 0, 0), 32), NetR("str", Doc6(0, 0, 1), 128),
    ZoneR("api", <<"example", "com">>, "l", "."), ZoneR("api", <<"example", "com">>, "d", ""),
    ZoneR("str", <<"com">>, "l", "."), ZoneR("str", <<"www", "example", "com">>, "l", "."),
    HostR("str", <<"example", "com">>, "m"), HostR("api", <<"example", "com">>, "d"),
    HostR("str", <<"com">>, "l"), HostR("str", <<"myexample", "com">>, "l") }

Rules == RulesCore \cup RulesMore

\* ---- AddFromString items that are none of the documented forms (PerHost header)
JunkR(j) == [k |-> "junk", via |-> "str", l |-> <<>>, sp |-> "l", lead |-> "", b |-> <<>>, bits |-> 0, j |-> j]
JunkKinds == {"cidr33", "cidrab", "cidrnobits", "cidrnoaddr", "cidrzone", "path", "empty", "space", "stardot", "dot", "star"}
JunkMid   == IF Lvl = 1 THEN {"cidr33", "empty", "stardot", "star"} ELSE JunkKinds
Junk      == {JunkR(j) : j \in JunkKinds}
IsJunk(r) == r.k = "junk"
HasJunk(rules) == \E i \in 1 .. Len(rules) : IsJunk(rules[i])
\* one well-formed item of every kind, in the same string as the junk item; each is the only rule
\* that matches "its" dial target (localhost / www.example.com / 10.1.2.3 / 2001:db8::1)
FHost == HostR("str", <<"localhost">>, "l")
FZone == ZoneR("str", <<"example", "com">>, "l", ".")
FIp   == IpR("str", V4(10, 1, 2, 3))
FNet  == NetR("str", Doc6(0, 0, 0), 33)
Follow == {FHost, FZone, FIp, FNet}
NextF(r) == CASE r = FHost -> FNet [] r = FNet -> FZone [] r = FZone -> FIp [] OTHER -> FHost
\* dial targets printed for configurations with a junk item (quick tier)
HostsJ == { NameH(<<"localhost">>, "l"), NameH(<<"www", "example", "com">>, "l"), NameH(<<"example", "com">>, "d"),
            NameH(<<"myexample", "com">>, "l"), NameH(<<"example", "org">>, "l"),
            IpH(V4(10, 1, 2, 3)), IpH(V4(10, 128, 0, 0)), IpH(Doc6(0, 0, 1)), IpH(Doc6(128, 0, 1)) }

\* quick tier: pairs over this subset only
RulesPair == RulesCore \ { IpR("api", V4(10, 1, 2, 3)), HostR("str", <<"localhost">>, "l") }

Triple == { IpR("str", V4(10, 1, 2, 3)), NetR("str", V4(10, 0, 0, 0), 9), NetR("str", Doc6(0, 0, 0), 33),
            ZoneR("str", <<"example", "com">>, "l", "."), HostR("str", <<"example", "com">>, "d"),
            HostR("api", <<"www", "example", "com">>, "l") }

\* junk item first: <<junk>>, <<junk, f>>;  last: <<f, junk>>;  middle: <<f, junk, f'>>
NextJ(rules) ==
    LET n == Len(rules) IN
    IF n = 0 THEN Junk
    ELSE IF n = 1 /\ IsJunk(rules[1]) THEN Follow
    ELSE IF n = 1 /\ rules[1] \in Follow THEN {JunkR(j) : j \in JunkMid}
    ELSE IF n = 2 /\ rules[1] \in Follow /\ IsJunk(rules[2])
         THEN (IF Lvl = 1 THEN {NextF(rules[1])} ELSE Follow)
    ELSE {}

Next1(rules) ==
    LET n == Len(rules) IN
    IF HasJunk(rules) THEN {}
    ELSE IF n = 0 THEN Rules
    ELSE IF Lvl = 1
    THEN IF n = 1 /\ rules[1] \in RulesPair THEN RulesPair ELSE {}
    ELSE IF n = 1 THEN Rules
    ELSE IF n = 2 /\ rules[1] \in Triple /\ rules[2] \in Triple THEN Triple
    ELSE {}

GInit == c = <<>>
GNext == \E r \in Next1(c) \cup NextJ(c) : c' = Append(c, r)
GSpec == GInit /\ [][GNext]_gvars

Item(rules, h) == [cfg |-> rules, h |-> h, r |-> Route(rules, h)]

Emit == \A h \in (IF Lvl = 1 /\ HasJunk(c) THEN HostsJ ELSE Hosts) : PrintT(<<"CASE", ToJson(Item(c, h))>>)

MonoSet == IF Lvl = 1 THEN {IpR("str", V4(10, 1, 2, 3)), NetR("str", V4(10, 0, 0, 0), 9),
                            ZoneR("str", <<"example", "com">>, "l", "."), HostR("str", <<"example", "com">>, "d")}
           ELSE RulesCore

Sane == /\ OrderIrrelevant(c, Hosts)
        /\ Monotone(c, Hosts, MonoSet)
        /\ KindsSeparate(c, Hosts)
        /\ NoRulesDefault(c, Hosts)
        /\ JunkIrrelevant(c, Hosts)
        /\ \A h \in Hosts : Route(c, h) # {}
=============================================================================
