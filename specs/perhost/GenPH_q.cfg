SPECIFICATION GSpec
CONSTANT Lvl = 1
INVARIANTS Sane Emit
CHECK_DEADLOCK FALSE
