------------------------------- MODULE PerHost -------------------------------
(* C53: which dialer golang.org/x/net/proxy.PerHost hands a connection to.            *)
(*                                                                                   *)
(* Transcription of the DOCUMENTED rules (doc comments in proxy/per_host.go and the   *)
(* property text), not of the code:                                                   *)
(*   D1  "A PerHost directs connections to a default Dialer unless the host name       *)
(*       requested matches one of a number of exceptions."                            *)
(*   D2  AddFromString: comma-separated values, each "an IP address, a CIDR range, a   *)
(*       zone [*.example.com] or a host name [localhost]".                            *)
(*   D3  AddIP / AddNetwork: "will only take effect if a literal IP address is         *)
(*       dialed. A connection to a named host will never match".                      *)
(*   D4  AddZone: "a DNS suffix ...  A zone of "example.com" matches "example.com" and  *)
(*       all of its subdomains."                                                      *)
(*   D5  AddHost: "a host name that will use the bypass proxy".                        *)
(*   D6  Dial/DialContext connect "to the address addr on the given network through    *)
(*       either defaultDialer or bypass".                                             *)
(*                                                                                   *)
(* Values                                                                            *)
(*   host  [k |-> "name", l |-> labels, sp |-> "l" | "m" | "d", b |-> <<>>]             *)
(*         [k |-> "ip",   l |-> <<>>,   sp |-> "l",             b |-> bytes]            *)
(*         [k |-> "bad", ...]   an address without port (net.SplitHostPort fails)      *)
(*         sp is the SPELLING of a name: "l" lower case, "m" Title Case, "d" lower     *)
(*         case with a trailing dot.  Two names with the same labels and the same sp   *)
(*         are the same string.                                                      *)
(*   rule  [k |-> "ip" | "net" | "zone" | "host", via |-> "str" | "api", l, sp, lead,   *)
(*          b, bits]    via: AddFromString or the typed Add* method; lead: AddZone     *)
(*          argument with ("." ) or without ("") leading dot.                         *)
(*         [k |-> "junk", via |-> "str", j |-> kind, ...]  an AddFromString item that is    *)
(*          none of the four documented forms.  "A best effort is made to parse the     *)
(*          string and errors are ignored": such an item adds no rule and does not       *)
(*          affect the other items of the string, wherever it stands.  Kinds: malformed   *)
(*          CIDR ("10.0.0.0/33", "a/b", "1.2.3.4/", "/8", "fe80::1%en0/10", "host/path"),  *)
(*          empty and white-space-only items.  The items "*.", "." and "*" (U5) are        *)
(*          not documented either way: they may match nothing or act as a catch-all.      *)
(* Route(rules, h) is the SET of admissible outcomes out of "bypass", "default",       *)
(* "none" (error without dialling).  More than one element exactly where the          *)
(* documentation is silent:                                                          *)
(*   U1  names that differ only in letter case (sp l vs m),                           *)
(*   U2  a trailing dot on one side only (sp d vs l/m),                               *)
(*   U3  IPv4-mapped IPv6 literals read as IPv6 or as the embedded IPv4 address,       *)
(*   U4  an address without a port: default dialer, or an error without dialling,     *)
(*   U5  the items "*." / "." (every name?) and "*" (every address?).                 *)
(* Identical spellings are decided: a dialled name that is the same string as an added *)
(* host, or is/ends in (on a label boundary) the same string as an added zone, has to  *)
(* go to the bypass dialer -- also when both carry a trailing dot.                     *)
EXTENDS NetNames

Readings(ip) == IF Mapped(ip) THEN {ip, Unmap(ip)} ELSE {ip}                 \* U3

\* label-level relation between a rule and a dialled name
NameRel(rule, h) ==
    CASE rule.k = "host" -> h.l = rule.l                                      \* D5
      [] rule.k = "zone" -> SuffixOf(rule.l, h.l)                             \* D4: the zone and its subdomains
      [] OTHER -> FALSE

\* rule applies to an IP literal, for one reading of the two addresses
IpRel(rule, hb, rb) ==
    CASE rule.k = "ip"  -> hb = rb                                            \* D3
      [] rule.k = "net" -> InNet(hb, [b |-> rb, bits |-> rule.bits])          \* D3
      [] OTHER -> FALSE

RReadings(rule) == IF rule.k = "ip" THEN Readings(rule.b) ELSE {rule.b}

Def(rule, h) ==
    CASE h.k = "name" -> rule.k \in {"host", "zone"} /\ NameRel(rule, h) /\ rule.sp = h.sp
      [] h.k = "ip"   -> rule.k \in {"ip", "net"} /\ \A hb \in Readings(h.b), rb \in RReadings(rule) : IpRel(rule, hb, rb)
      [] OTHER -> FALSE

\* U5: undocumented catch-all spellings
Lenient(rule, h) ==
    /\ rule.k = "junk"
    /\ \/ rule.j \in {"stardot", "dot", "star"} /\ h.k = "name"
       \/ rule.j = "star" /\ h.k = "ip"
StrictJunk(rule) == rule.k = "junk" /\ rule.j \notin {"stardot", "dot", "star"}

May(rule, h) ==
    CASE Lenient(rule, h) -> TRUE
      [] h.k = "name" -> rule.k \in {"host", "zone"} /\ NameRel(rule, h)                        \* U1, U2
      [] h.k = "ip"   -> rule.k \in {"ip", "net"} /\ \E hb \in Readings(h.b), rb \in RReadings(rule) : IpRel(rule, hb, rb)
      [] OTHER -> FALSE

DefBypass(rules, h) == \E i \in 1 .. Len(rules) : Def(rules[i], h)
MayBypass(rules, h) == \E i \in 1 .. Len(rules) : May(rules[i], h)

Route(rules, h) ==
    IF h.k = "bad" THEN {"default", "none"}                                   \* U4
    ELSE IF DefBypass(rules, h) THEN {"bypass"}
    ELSE IF MayBypass(rules, h) THEN {"bypass", "default"}
    ELSE {"default"}                                                          \* D1

-----------------------------------------------------------------------------
(* Sanity properties of the rule set (checked by TLC on the whole domain).    *)

Rev(s) == [i \in 1 .. Len(s) |-> s[Len(s) + 1 - i]]

OrderIrrelevant(rules, H) == \A h \in H : Route(rules, h) = Route(Rev(rules), h)

Monotone(rules, H, R) ==
    \A r \in R, h \in H :
        /\ DefBypass(rules, h) => DefBypass(Append(rules, r), h)
        /\ ~MayBypass(Append(rules, r), h) => ~MayBypass(rules, h)

\* D3: a named host never matches an IP or network rule, an IP literal never a zone or host rule
KindsSeparate(rules, H) ==
    \A h \in H : \A i \in 1 .. Len(rules) :
        /\ (h.k = "name" /\ rules[i].k \in {"ip", "net"}) => ~May(rules[i], h)
        /\ (h.k = "ip" /\ rules[i].k \in {"zone", "host"}) => ~May(rules[i], h)

\* "errors are ignored": the rule set is the union of the rules of the well-formed items,
\* independent of the malformed ones and of where they stand
NotJunk(r) == ~StrictJunk(r)
JunkIrrelevant(rules, H) == \A h \in H : Route(rules, h) = Route(SelectSeq(rules, NotJunk), h)

NoRulesDefault(rules, H) == rules = <<>> => \A h \in H : h.k # "bad" => Route(rules, h) = {"default"}
=============================================================================
