---------------------------- MODULE HeaderChars ----------------------------
(* C55.  The HTTP header grammar of RFC 9110 on byte sequences.                   *)
(*                                                                               *)
(*   section 5.6.2   token = 1*tchar                                             *)
(*                   tchar = "!" / "#" / "$" / "%" / "&" / "'" / "*" / "+" / "-" *)
(*                         / "." / "^" / "_" / "`" / "|" / "~" / DIGIT / ALPHA   *)
(*                         ; any VCHAR, except delimiters                        *)
(*                   delimiters = DQUOTE and "(),/:;<=>?@[\]{}"                  *)
(*   section 5.1     field-name = token                                          *)
(*   section 5.5     field values: "Field values containing CR, LF, or NUL       *)
(*                   characters are invalid and dangerous"; the property fixes   *)
(*                   the predicate: no control byte (CTL = %x00-1F / %x7F,       *)
(*                   RFC 5234 B.1) other than HTAB.                              *)
(*   section 5.6.1   lists: elements separated by ",", optional whitespace       *)
(*                   (OWS = *( SP / HTAB )) around an element is not part of it. *)
(*                                                                               *)
(* A string is a sequence of bytes 0..255.  Nothing here is transcribed from the *)
(* Go code; the definitions are declarative (sets, quantifiers), on purpose      *)
(* different in shape from the table/loops of httplex.go.                        *)
EXTENDS Integers, Sequences, FiniteSets

Byte   == 0..255
ALPHA  == (65..90) \cup (97..122)
DIGIT  == 48..57
VCHAR  == 33..126
CTL    == (0..31) \cup {127}
HTAB   == 9
SP     == 32
COMMA  == 44
OWS    == {SP, HTAB}

\* ! # $ % & ' * + - . ^ _ ` | ~
TCharSymbols == {33, 35, 36, 37, 38, 39, 42, 43, 45, 46, 94, 95, 96, 124, 126}
TChar == TCharSymbols \cup DIGIT \cup ALPHA

\* DQUOTE ( ) , / : ; < = > ? @ [ \ ] { }
Delimiters == {34, 40, 41, 44, 47, 58, 59, 60, 61, 62, 63, 64, 91, 92, 93, 123, 125}

IsToken(s) == Len(s) >= 1 /\ \A i \in 1..Len(s) : s[i] \in TChar

ValidName(s)  == IsToken(s)
ValidValue(s) == \A i \in 1..Len(s) : s[i] \in CTL => s[i] = HTAB
\* a rune is a code point (a natural number); tchars are ASCII
IsTokenRune(r) == r \in TChar

---------------------------------------------------------------------------
\* Lists (section 5.6.1), declaratively.

\* the comma-separated elements of v: the segments between two neighbouring cuts, where the
\* cuts are the positions of the commas, the position before the first byte and the one
\* after the last (an element may be empty)
Elements(v) ==
    LET cut == {0, Len(v) + 1} \cup { i \in 1..Len(v) : v[i] = COMMA } IN
    { SubSeq(v, p[1] + 1, p[2] - 1) :
        p \in { q \in cut \X cut : q[1] < q[2] /\ \A k \in cut : ~(q[1] < k /\ k < q[2]) } }

\* e without its leading and trailing optional whitespace
TrimOWS(e) ==
    LET black == { i \in 1..Len(e) : e[i] \notin OWS } IN
    IF black = {} THEN << >>
    ELSE SubSeq(e, CHOOSE i \in black : \A j \in black : i <= j,
                   CHOOSE i \in black : \A j \in black : i >= j)

Lower(b) == IF b \in 65..90 THEN b + 32 ELSE b
EqFold(x, y) == Len(x) = Len(y) /\ \A i \in 1..Len(x) : Lower(x[i]) = Lower(y[i])

ValueContains(v, tok) == \E e \in Elements(v) : EqFold(TrimOWS(e), tok)
Contains(values, tok) == \E i \in 1..Len(values) : ValueContains(values[i], tok)

\* What HeaderValuesContainsToken may answer.  The property speaks about finding a *token*;
\* tokens are ASCII.  For an argument with a byte >= 0x80 (obs-text, never part of a token) the
\* property does not fix the answer.  For every other argument, including the empty string
\* and strings with separators, the literal reading is used.
HasObsText(s) == \E i \in 1..Len(s) : s[i] >= 128
ContainsAllowed(values, tok) ==
    IF HasObsText(tok) THEN BOOLEAN ELSE {Contains(values, tok)}

---------------------------------------------------------------------------
\* Spec-level properties (checked by TLC in the model / generator runs).

\* the two formulations of tchar in section 5.6.2 agree, and the set has 77 members
TCharIsVCharMinusDelimiters == TChar = VCHAR \ Delimiters /\ Cardinality(TChar) = 77

\* a field name is always a valid field value; an invalid value is never a name
NameImpliesValue(s) == ValidName(s) => ValidValue(s)

\* CR, LF, NUL always rejected; HTAB, SP, obs-text accepted
ValueClauses(s) ==
    /\ (\E i \in 1..Len(s) : s[i] \in {0, 10, 13}) => ~ValidValue(s)
    /\ (\A i \in 1..Len(s) : s[i] \in VCHAR \cup OWS \cup (128..255)) => ValidValue(s)

\* list facts: joining two values with a comma is the same as giving both; OWS around a
\* value and the case of the token are immaterial
ListFacts(v, w, tok) ==
    /\ ValueContains(v \o <<COMMA>> \o w, tok) <=> (ValueContains(v, tok) \/ ValueContains(w, tok))
    /\ Contains(<<v, w>>, tok) <=> (ValueContains(v, tok) \/ ValueContains(w, tok))
    /\ ValueContains(<<SP>> \o v \o <<HTAB>>, tok) <=> ValueContains(v, tok)
    /\ ValueContains(v, [i \in 1..Len(tok) |-> Lower(tok[i])]) <=> ValueContains(v, tok)
=============================================================================
