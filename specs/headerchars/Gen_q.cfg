INIT GInit
NEXT GNext
CONSTANTS
  StrLen = 3
  ListLen = 3
  FoldAll = FALSE
INVARIANTS Facts Emit
CHECK_DEADLOCK FALSE
