# headerchars family hooks: signatures naming the function and the class of input on which the
# real code disagreed with the specification (the verdict itself always comes from TLC).


def _cls(b):
    b = int(b)
    if b in (0x30 + i for i in range(10)):
        return "D"
    if 65 <= b <= 90 or 97 <= b <= 122:
        return "A"
    if b in b"!#$%&'*+-.^_`|~":
        return "t"
    if b == 32:
        return "_"
    if b == 9:
        return "T"
    if b == 44:
        return ","
    if b < 32 or b == 127:
        return "C%02x" % b
    if b >= 128:
        return "H"
    return "d%02x" % b          # delimiter


def _shape(s):
    return "".join(_cls(b) for b in s[:8])


def signature(prop, kind, scenario, detail):
    try:
        if prop != "C55":
            return None
        if kind == "replay" and isinstance(scenario, dict):
            fn = detail.get("what", "?").split(":")[0]
            k = scenario.get("k")
            if k == "b":
                inp = "byte=%02x" % scenario["b"]
            elif k == "r":
                inp = "rune=U+%04X" % scenario["r"]
            elif k == "s":
                inp = "str=" + _shape(scenario["s"])
            else:
                inp = "values=%s;token=%s" % ("|".join(_shape(v) for v in scenario.get("vs", [])),
                                              _shape(scenario.get("tok", [])))
            return "%s:expected=%s:%s" % (fn, str(detail.get("expected")).lower(), inp)
        if kind == "trace":
            ln = scenario["lines"][-1]
            e = ln.get("e")
            if e in ("name", "value"):
                return "%s:got=%s:str=%s" % (e, str(ln.get("r")).lower(), _shape(ln.get("s", [])))
            if e == "rune":
                return "rune:got=%s:U+%04X" % (str(ln.get("r")).lower(), ln.get("c", 0))
            if e == "contains":
                return "contains:got=%s:values=%s;token=%s" % (
                    str(ln.get("r")).lower(), "|".join(_shape(v) for v in ln.get("vs", [])), _shape(ln.get("tok", [])))
            return "%s" % e
    except Exception:
        return None
    return None
