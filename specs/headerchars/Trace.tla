------------------------------- MODULE Trace -------------------------------
(* C55 trace validation.  A trace is a list of independent calls recorded from    *)
(* the real package:                                                             *)
(*   {"e":"name","s":[bytes],"r":b}      ValidHeaderFieldName                     *)
(*   {"e":"value","s":[bytes],"r":b}     ValidHeaderFieldValue                    *)
(*   {"e":"rune","c":n,"r":b}            IsTokenRune                              *)
(*   {"e":"contains","vs":[[bytes]..],"tok":[bytes],"r":b}  HeaderValuesContainsToken *)
(* A line is accepted iff the logged answer is the one HeaderChars determines    *)
(* (panic / hang lines match nothing).                                           *)
EXTENDS HeaderChars, TraceIO

VARIABLES cur, l
tvars == <<cur, l>>
Line == Trace[l]

TInit == \E t \in 1..NT : cur = t /\ l = Meta.starts[t]

TCall ==
    \/ Line.e = "name"     /\ Line.r = ValidName(Line.s)
    \/ Line.e = "value"    /\ Line.r = ValidValue(Line.s)
    \/ Line.e = "rune"     /\ Line.r = IsTokenRune(Line.c)
    \/ Line.e = "contains" /\ Line.r \in ContainsAllowed(Line.vs, Line.tok)

TNext == /\ l <= Meta.ends[cur] /\ l' = l + 1 /\ cur' = cur /\ TCall
TSpec == TInit /\ [][TNext]_tvars
Mark == HighWater(cur, l)
=============================================================================
