-------------------------------- MODULE Gen --------------------------------
(* C55 case generator: the bounded input domain as states, one CASE item per     *)
(* state with the answers HeaderChars predicts.  Kinds of cases:                 *)
(*   "b"  every single byte b: name/value of the one-byte string, rune b         *)
(*   "r"  code points above 255 (among them ones whose low byte is a tchar)      *)
(*   "s"  all strings up to StrLen over Reps (a member of every class the        *)
(*        grammar distinguishes): name, value                                    *)
(*   "t"  token lists: one value up to ListLen over ListAlpha, or two values up  *)
(*        to 2 over a sub-alphabet, against the tokens Toks                      *)
(*   "f"  case folding: a one-byte value against a one-byte token (FoldAll: all  *)
(*        256 x 256 pairs; otherwise every byte against itself and the bytes     *)
(*        0x20 away), and two-byte values against two-byte tokens over Fold2     *)
(*        (letters, the non-letters 0x20 away from each other, obs-text)         *)
(* The spec-level facts of HeaderChars are checked on every case on the way.     *)
EXTENDS HeaderChars, TLC, Json

CONSTANTS StrLen, ListLen, FoldAll

VARIABLE c

SeqsUpTo(A, n) == UNION { [1..m -> A] : m \in 0..n }

\* a Z 5 - ~ ! SP HTAB CR LF NUL DEL 0x1f 0x80 0xff : ( DQUOTE ,
Reps == {97, 90, 53, 45, 126, 33, 32, 9, 13, 10, 0, 127, 31, 128, 255, 58, 40, 34, 44}

HighRunes == {256, 256 + 65, 256 + 45, 383, 8192 + 97, 20013, 65536 + 65, 1114111}

\* a A b , SP HTAB
ListAlpha == {97, 65, 98, 44, 32, 9}
PairAlpha == {97, 44, 32}
Toks == { <<97>>, <<65>>, <<98>>, <<97, 98>>, <<65, 66>>, << >>, <<97, 32, 98>>, <<32, 97>>, <<97, 44, 98>>, <<44>> }

\* @ ` [ { A a Z z 0xC1 0xE1
FoldAlpha == {64, 96, 91, 123, 65, 97, 90, 122, 193, 225}
Fold2 == IF FoldAll THEN FoldAlpha ELSE {64, 96, 65, 97, 193}

\* The domain is split into chunks (initial states) that TLC workers expand in parallel;
\* the cases are the successors of the chunks.
Chunks ==
         [k : {"B"}, hi : 0..7]
    \cup [k : {"R"}]
    \cup [k : {"S"}, len : 0..StrLen, first : Reps]
    \cup [k : {"T"}, tok : Toks]
    \cup [k : {"F"}, tok : { <<y>> : y \in Byte } \cup [1..2 -> Fold2]]

Expand(ch) ==
    IF ch.k = "B" THEN [k : {"b"}, b : (ch.hi * 32)..(ch.hi * 32 + 31)]
    ELSE IF ch.k = "R" THEN [k : {"r"}, r : HighRunes]
    ELSE IF ch.k = "S" THEN
        IF ch.len = 0 THEN {[k |-> "s", s |-> << >>]}
        ELSE [k : {"s"}, s : { t \in [1..ch.len -> Reps] : t[1] = ch.first }]
    ELSE IF ch.k = "T" THEN
        [k : {"t"}, vs : { <<v>> : v \in SeqsUpTo(ListAlpha, ListLen) }
                          \cup (SeqsUpTo(PairAlpha, 2) \X SeqsUpTo(PairAlpha, 2)), tok : {ch.tok}]
    ELSE IF Len(ch.tok) = 1 THEN
        [k : {"f"}, vs : { <<(<<x>>)>> : x \in IF FoldAll THEN Byte
                                                ELSE {ch.tok[1], ch.tok[1] + 32, ch.tok[1] - 32} \cap Byte },
                    tok : {ch.tok}]
    ELSE [k : {"f"}, vs : { <<v>> : v \in [1..2 -> Fold2] }, tok : {ch.tok}]

IsChunk == c.k \in {"B", "R", "S", "T", "F"}

GInit == c \in Chunks
GNext == IsChunk /\ c' \in Expand(c)

Case(x) ==
    IF x.k = "b" THEN [k |-> "b", b |-> x.b, name |-> ValidName(<<x.b>>), value |-> ValidValue(<<x.b>>),
                       rune |-> IsTokenRune(x.b)]
    ELSE IF x.k = "r" THEN [k |-> "r", r |-> x.r, rune |-> IsTokenRune(x.r)]
    ELSE IF x.k = "s" THEN [k |-> "s", s |-> x.s, name |-> ValidName(x.s), value |-> ValidValue(x.s)]
    ELSE [k |-> "t", vs |-> x.vs, tok |-> x.tok,
          yes |-> TRUE \in ContainsAllowed(x.vs, x.tok), no |-> FALSE \in ContainsAllowed(x.vs, x.tok)]

Emit == IsChunk \/ PrintT(<<"CASE", ToJson(Case(c))>>)

ASSUME TCharIsVCharMinusDelimiters

Facts ==
    IsChunk \/
      /\ c.k = "b" => NameImpliesValue(<<c.b>>) /\ ValueClauses(<<c.b>>)
      /\ c.k = "s" => NameImpliesValue(c.s) /\ ValueClauses(c.s)
      /\ c.k = "t" =>
           /\ ListFacts(c.vs[1], c.vs[Len(c.vs)], c.tok)
           /\ (IsToken(c.tok) /\ Contains(c.vs, c.tok)) => \E i \in 1..Len(c.vs) : Len(c.vs[i]) >= Len(c.tok)
=============================================================================
