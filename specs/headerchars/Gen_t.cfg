INIT GInit
NEXT GNext
CONSTANTS
  StrLen = 4
  ListLen = 5
  FoldAll = TRUE
INVARIANTS Facts Emit
CHECK_DEADLOCK FALSE
