SPECIFICATION TSpec
CONSTANTS
  OurLimit <- TrOurLimit
  IssueCap <- TrIssueCap
  Deviations <- AllDeviations
INVARIANTS NoDevX01 LocalSeqs LocalWithinLimit LocalToppedUp RemoteWithinLimit RetiredCovered FlyConsistent CurActive ZeroLenAlone TransientOnlyInHandshake
CONSTRAINT Mark
POSTCONDITION AllConsumed
CHECK_DEADLOCK FALSE
