----------------------------- MODULE QuicConnID -----------------------------
(* Connection-ID management of one QUIC connection (golang.org/x/net/quic, conn_id.go and  *)
(* its call sites), as RFC 9000 sections 5.1, 7.3, 10.3, 19.15, 19.16 and the comments in  *)
(* the code describe it.  One endpoint ("we"), a scripted and possibly hostile peer.        *)
(*                                                                                          *)
(* Local ids  = ids WE issue; the peer puts them into the Destination Connection ID of the  *)
(*              packets it sends us; the endpoint routes datagrams by them.                 *)
(* Remote ids = ids the PEER issues (NEW_CONNECTION_ID, handshake, preferred_address); we    *)
(*              put one of them into the packets we send; each may carry a stateless reset  *)
(*              token.                                                                      *)
(*                                                                                          *)
(* One action per protocol event: handshake milestones (Retry, first server Initial, the    *)
(* peer's transport parameters, the client's first Handshake packet), every frame received  *)
(* (NEW_CONNECTION_ID, RETIRE_CONNECTION_ID), every packet sent, the fate of sent packets   *)
(* (acknowledged / declared lost), a stateless reset, closing and draining.                 *)
(*                                                                                          *)
(* Where the RFC leaves a choice (MAY) the action takes the outcome as a parameter and      *)
(* allows every permitted value.  Behaviours of the pinned code that contradict the         *)
(* contract are modelled as *named deviations*: they are only enabled when their name is in *)
(* the constant Deviations and they set the per-step variable dev, so that design-level     *)
(* model checking runs with Deviations = {} and trace validation reports each occurrence.   *)
EXTENDS Integers, FiniteSets, TLC

CONSTANTS
    OurLimit,      \* active_connection_id_limit we advertise: most active remote ids we accept
    IssueCap,      \* most local ids we are willing to keep issued, whatever the peer allows
    Deviations     \* names of known deviations of the implementation that the model may follow

VARIABLES
    side,          \* "client" | "server": which role WE play
    cfg,           \* what the peer's handshake carries (fixed per connection), see CfgOK
    hs,            \* "start" | "init" (client: first server Initial seen) | "params" (server:
                   \*  peer parameters applied) | "live" (1-RTT frames can flow)
    retry,         \* client: a Retry packet was accepted
    \* ---- local ids
    lact,          \* active local ids: sequence number -> state of its NEW_CONNECTION_ID frame
    lret,          \* retired local sequence numbers
    lsent,         \* local sequence numbers the peer may know: carried by the handshake (0) or by
                   \*  a NEW_CONNECTION_ID frame that has been put into a packet
    nextSeq,       \* next local sequence number to issue
    ltrans,        \* server: the client-chosen original destination id is still accepted
    peerLimit,     \* the peer's active_connection_id_limit (0 = not known yet)
    \* ---- remote ids
    ract,          \* active remote ids: set of [seq, cid, tok]; seq -1 = the client's transient choice
    rpt,           \* largest Retire Prior To received
    retq,          \* remote sequence numbers that need a RETIRE_CONNECTION_ID frame
    retfly,        \* ... whose RETIRE_CONNECTION_ID frame is in flight
    retack,        \* ... whose RETIRE_CONNECTION_ID frame has been acknowledged
    rgone,         \* retired remote ids (history)
    dcid,           \* connection id in use as Destination Connection ID
    used,          \* remote connection ids that have been used as destination
    \* ---- packets
    pn,            \* largest packet number seen in a sent packet
    fly,           \* in-flight packets that carry connection-id frames: [p, nci, ret]
    \* ---- lifetime
    err,           \* "none" or the way the connection ended (error code, "CLOSED", "STATELESS_RESET")
    drained,       \* the connection is gone: the endpoint has forgotten it
    dev            \* deviation taken by the last step ("none" normally)

vars == <<side, cfg, hs, retry, lact, lret, lsent, nextSeq, ltrans, peerLimit,
          ract, rpt, retq, retfly, retack, rgone, dcid, used, pn, fly, err, drained, dev>>

None == "none"
Z    == "Z"           \* "no stateless reset token"
ZL   == "ZL"          \* the zero-length connection id
TS   == 0 - 1         \* sequence number of a transient id
PV   == "PROTOCOL_VIOLATION"
FEE  == "FRAME_ENCODING_ERROR"
CIL  == "CONNECTION_ID_LIMIT_ERROR"
TPE  == "TRANSPORT_PARAMETER_ERROR"

Min(a, b) == IF a < b THEN a ELSE b
Max(a, b) == IF a > b THEN a ELSE b

SS(st, p) == [st |-> st, p |-> p]     \* st: "na" (never needs a frame) | "unsent" | "sent" (in packet p) | "acked"

Cids(R) == {r.cid : r \in R}
Toks(R) == {r.tok : r \in R} \ {Z}

(* ---------------------------------------------------------------------------------------- *)
(* Derived views the endpoint must agree with.                                              *)

\* local ids for which the endpoint routes datagrams to this connection
RoutesExpected == IF drained THEN {} ELSE DOMAIN lact \cup (IF ltrans THEN {TS} ELSE {})

\* stateless reset tokens the endpoint associates with this connection
TokensExpected == IF drained THEN {} ELSE Toks(ract)

(* ---------------------------------------------------------------------------------------- *)

CfgOK(c) ==
    /\ c.scid # None                                  \* cid the peer uses as Source Connection ID (may be ZL)
    /\ c.limit >= 2                                   \* smaller values are rejected by the parameter parser
    /\ c.odcid \in {"ok", "bad", "absent"}           \* original_destination_connection_id parameter
    /\ c.rscid \in {"retry", "bad", "absent"}        \* retry_source_connection_id parameter
    /\ c.iscid \in {"ok", "bad"}                     \* initial_source_connection_id parameter

InitWith(s, c) ==
    /\ side = s /\ cfg = c /\ hs = "start" /\ retry = FALSE
    /\ lact = (0 :> SS("na", 0)) /\ lret = {} /\ lsent = {0} /\ nextSeq = 1
    /\ ltrans = (s = "server") /\ peerLimit = 0
    /\ ract = IF s = "client" THEN {[seq |-> TS, cid |-> "ODCID", tok |-> Z]}
                               ELSE {[seq |-> 0, cid |-> c.scid, tok |-> Z]}
    /\ rpt = 0 /\ retq = {} /\ retfly = {} /\ retack = {} /\ rgone = {}
    /\ dcid = IF s = "client" THEN "ODCID" ELSE c.scid
    /\ used = {}
    /\ pn = 0 - 1 /\ fly = {}
    /\ err = None /\ drained = FALSE /\ dev = None

Alive == err = None /\ ~drained

\* the connection ends with an error; what the rest of the state looks like no longer matters
Fail(code) ==
    /\ err' = code /\ dev' = None
    /\ UNCHANGED <<side, cfg, hs, retry, lact, lret, lsent, nextSeq, ltrans, peerLimit,
                   ract, rpt, retq, retfly, retack, rgone, dcid, used, pn, fly, drained>>

\* issue new local ids until `tgt` are active
TopUp(act, tgt) ==
    LET k   == tgt - Cardinality(DOMAIN act)
        new == IF k > 0 THEN nextSeq .. (nextSeq + k - 1) ELSE {}
    IN  [s \in DOMAIN act \cup new |-> IF s \in new THEN SS("unsent", 0) ELSE act[s]]

NewNext(act, tgt) == nextSeq + Max(0, tgt - Cardinality(DOMAIN act))

(* ------------------------------------------------------------------ handshake milestones *)

\* client: a valid Retry packet (first one, before any other packet of the server): the
\* destination id becomes the Retry's Source Connection ID
Retry(c) ==
    /\ Alive /\ side = "client" /\ hs = "start" /\ ~retry
    /\ retry' = TRUE
    /\ ract' = {[seq |-> TS, cid |-> c, tok |-> Z]}
    /\ dcid' = c
    /\ dev' = None
    /\ UNCHANGED <<side, cfg, hs, lact, lret, lsent, nextSeq, ltrans, peerLimit,
                   rpt, retq, retfly, retack, rgone, used, pn, fly, err, drained>>

\* client: the first Initial packet of the server: its Source Connection ID is remote id 0
SrvInitial ==
    /\ Alive /\ side = "client" /\ hs = "start"
    /\ hs' = "init"
    /\ ract' = {[seq |-> 0, cid |-> cfg.scid, tok |-> Z]}
    /\ dcid' = cfg.scid
    /\ dev' = None
    /\ UNCHANGED <<side, cfg, retry, lact, lret, lsent, nextSeq, ltrans, peerLimit,
                   rpt, retq, retfly, retack, rgone, used, pn, fly, err, drained>>

\* the peer's transport parameters: authenticate the connection ids of the handshake
\* (RFC 9000 7.3), learn the peer's limit and issue ids up to it, take the stateless reset
\* token of remote id 0 and the preferred_address connection id (= remote id 1)
ParamsValid ==
    IF side = "client"
    THEN /\ cfg.odcid = "ok" /\ cfg.iscid = "ok"
         /\ cfg.rscid = (IF retry THEN "retry" ELSE "absent")
    ELSE /\ cfg.odcid = "absent" /\ cfg.iscid = "ok" /\ cfg.rscid = "absent"
         /\ cfg.tok = Z                                \* server-only parameters (RFC 9000 18.2)

ParamsApply ==
    LET tgt  == Min(cfg.limit, IssueCap)
        r0   == {[r EXCEPT !.tok = cfg.tok] : r \in ract}
        pref == IF cfg.prefcid = None THEN {} ELSE {[seq |-> 1, cid |-> cfg.prefcid, tok |-> cfg.preftok]}
    IN  /\ peerLimit' = cfg.limit
        /\ lact' = TopUp(lact, tgt)
        /\ nextSeq' = NewNext(lact, tgt)
        /\ ract' = r0 \cup pref
        /\ hs' = IF side = "client" THEN "live" ELSE "params"
        /\ UNCHANGED <<side, cfg, retry, lret, lsent, ltrans, rpt, retq, retfly, retack, rgone,
                       dcid, used, pn, fly, err, drained>>

\* preferred_address is a server-only parameter (RFC 9000 18.2: a server MUST treat receipt as
\* TRANSPORT_PARAMETER_ERROR); a zero-length id must not come with a preferred address nor
\* in it (18.2, 19.15-6).  7.3: authentication failures are TRANSPORT_PARAMETER_ERROR or
\* PROTOCOL_VIOLATION.
PrefOnServer == cfg.prefcid # None /\ side = "server"
PrefZeroLen  == cfg.prefcid # None /\ (cfg.scid = ZL \/ cfg.prefcid = ZL)

ParamsDev ==
    IF PrefOnServer THEN "server_accepts_preferred_address"
    ELSE IF PrefZeroLen THEN "zero_length_preferred_address"
    ELSE None

ParamsOuts ==
    IF ~ParamsValid THEN {TPE, PV}
    ELSE IF ParamsDev # None
         THEN {TPE, PV} \cup (IF ParamsDev \in Deviations /\ cfg.scid # ZL THEN {None} ELSE {})
    ELSE {None}

Params(out) ==
    /\ Alive
    /\ \/ side = "client" /\ hs = "init"
       \/ side = "server" /\ hs = "start"
    /\ out \in ParamsOuts
    /\ IF out # None THEN Fail(out)
       ELSE ParamsApply /\ dev' = ParamsDev

\* server: the first Handshake packet of the client: the client-chosen original destination
\* id will never be used again
CliHandshake ==
    /\ Alive /\ side = "server" /\ hs = "params"
    /\ hs' = "live" /\ ltrans' = FALSE
    /\ dev' = None
    /\ UNCHANGED <<side, cfg, retry, lact, lret, lsent, nextSeq, peerLimit,
                   ract, rpt, retq, retfly, retack, rgone, dcid, used, pn, fly, err, drained>>

(* ----------------------------------------------------------------------- frames received *)

\* NEW_CONNECTION_ID(seq, rp = Retire Prior To, cid, tok): what it would do to the remote ids
NCI(seq, rp, cid, tok) ==
    LET rpt2  == Max(rpt, rp)
        keep  == {r \in ract : r.seq >= rpt2}
        same  == {r \in keep : r.seq = seq}
        ract2 == IF same = {} THEN keep \cup {[seq |-> seq, cid |-> cid, tok |-> tok]} ELSE keep
        retq2 == retq \cup (rpt .. (rp - 1))
    IN [rpt |-> rpt2, ract |-> ract2, retq |-> retq2, gone |-> ract \ keep,
        \* RFC 9000 19.15-8: a sequence number used for different ids MAY be an error; the
        \* implementation documents that it is one.  5.1.1-5: more active ids than our limit
        \* after retiring MUST be CONNECTION_ID_LIMIT_ERROR.
        must |-> (IF \E r \in same : r.cid # cid THEN {PV} ELSE {})
                 \cup (IF Cardinality(ract2) > OurLimit THEN {CIL} ELSE {}),
        \* MAY: same id with another token, same id under another sequence number (19.15-8);
        \* too many retirements awaiting acknowledgement (5.1.2-6, at least 2 * limit allowed)
        may  |-> (IF \E r \in same : r.cid = cid /\ r.tok # tok THEN {PV} ELSE {})
                 \cup (IF same = {} /\ cid \in Cids(keep) THEN {PV} ELSE {})
                 \cup (IF Cardinality(retq2 \cup retfly) > 2 * OurLimit THEN {CIL} ELSE {})]

\* the answers the contract permits
NCIOuts(seq, rp, cid, tok) ==
    IF rp > seq \/ cid = ZL THEN {FEE}                                  \* 19.15-9, 19.15-4.6
    ELSE IF dcid = ZL THEN {PV}                                           \* 19.15-6
    ELSE IF seq < rpt THEN {None}     \* retired already; its RETIRE_CONNECTION_ID is queued, in
                                      \* flight or acknowledged (invariant RetiredCovered)
    ELSE LET v == NCI(seq, rp, cid, tok)
         IN  v.must \cup v.may \cup (IF v.must = {} THEN {None} ELSE {})

RecvNCI(seq, rp, cid, tok, out) ==
    /\ Alive /\ hs = "live"
    /\ out \in NCIOuts(seq, rp, cid, tok)
    /\ IF out # None THEN Fail(out)
       ELSE IF seq < rpt
       THEN dev' = None /\ UNCHANGED <<side, cfg, hs, retry, lact, lret, lsent, nextSeq,
                 ltrans, peerLimit, ract, rpt, retq, retfly, retack, rgone, dcid, used, pn, fly, err, drained>>
       ELSE LET v == NCI(seq, rp, cid, tok) IN
            /\ rpt' = v.rpt /\ ract' = v.ract /\ retq' = v.retq /\ rgone' = rgone \cup v.gone
            /\ IF dcid \in Cids(v.ract) THEN dcid' = dcid ELSE dcid' \in Cids(v.ract)
            /\ dev' = None
            /\ UNCHANGED <<side, cfg, hs, retry, lact, lret, lsent, nextSeq, ltrans, peerLimit,
                           retfly, retack, used, pn, fly, err, drained>>

\* what retiring local id seq does: forget it (the endpoint stops routing it) and issue a
\* replacement (5.1.1-6)
DoRetire(seq) ==
    LET tgt  == Min(peerLimit, IssueCap)
        rest == [s \in DOMAIN lact \ {seq} |-> lact[s]]
    IN  /\ IF seq \in DOMAIN lact
           THEN lact' = TopUp(rest, tgt) /\ nextSeq' = NewNext(rest, tgt) /\ lret' = lret \cup {seq}
           ELSE UNCHANGED <<lact, nextSeq, lret>>
        /\ UNCHANGED <<side, cfg, hs, retry, lsent, ltrans, peerLimit,
                       ract, rpt, retq, retfly, retack, rgone, dcid, used, pn, fly, err, drained>>

\* RETIRE_CONNECTION_ID(seq) in a packet addressed to local id `via`: the permitted answers
RetireOuts(seq, via) ==
    IF seq >= nextSeq THEN {PV}                                          \* 19.16-7
    ELSE IF seq \notin lsent
    THEN \* issued but never sent: "greater than any previously sent to the peer" (19.16-7)
         {PV} \cup (IF "retire_unsent_accepted" \in Deviations THEN {None} ELSE {})
    ELSE {None} \cup (IF seq = via THEN {PV} ELSE {})                   \* MAY (19.16-8)

RecvRetire(seq, via, out) ==
    /\ Alive /\ hs = "live"
    /\ out \in RetireOuts(seq, via)
    /\ IF out # None THEN Fail(out)
       ELSE /\ DoRetire(seq)
            /\ dev' = IF seq \notin lsent THEN "retire_unsent_accepted" ELSE None

(* --------------------------------------------------------------------------- packets sent *)

\* A packet leaves: type, number p, destination id dst, source id src (long headers), the
\* NEW_CONNECTION_ID frames nci (set of [seq, rp]) and RETIRE_CONNECTION_ID frames ret it
\* carries.  Only ids that are active and not acknowledged are announced; only retirements
\* not yet acknowledged are sent; the destination is an active remote id (never a retired
\* one); the source is never the client-chosen transient id.
Send(ptype, p, dst, src, nci, ret) ==
    LET seqs == {f.seq : f \in nci}
        bad  == ret \ (retq \cup retfly)
    IN
    /\ Alive
    /\ (ptype # "1rtt" \/ p > pn) = TRUE         \* packet numbers of the application space only
    /\ pn' = IF ptype = "1rtt" THEN p ELSE pn
    /\ dst \in Cids(ract)
    /\ (ptype = "1rtt" \/ src \in DOMAIN lact) = TRUE
    /\ ((nci = {} /\ ret = {}) \/ (ptype = "1rtt" /\ peerLimit > 0)) = TRUE
    /\ (\A f \in nci : /\ f.seq \in DOMAIN lact /\ lact[f.seq].st \in {"unsent", "sent"}
                       /\ f.rp >= 0 /\ f.rp <= f.seq) = TRUE             \* 19.15-9
    /\ \/ bad = {} /\ dev' = None
       \/ /\ bad # {} /\ bad \subseteq retack
          /\ "retire_resent_after_ack" \in Deviations /\ dev' = "retire_resent_after_ack"
    /\ lact' = [s \in DOMAIN lact |-> IF s \in seqs THEN SS("sent", p) ELSE lact[s]]
    /\ lsent' = lsent \cup seqs
    /\ retq' = retq \ ret /\ retfly' = retfly \cup ret
    /\ fly' = IF nci = {} /\ ret = {} THEN fly ELSE fly \cup {[p |-> p, nci |-> seqs, ret |-> ret]}
    /\ dcid' = dst /\ used' = used \cup {dst}
    /\ UNCHANGED <<side, cfg, hs, retry, lret, nextSeq, ltrans, peerLimit,
                   ract, rpt, retack, rgone, err, drained>>

\* The packets in A are acknowledged, those in L are declared lost (each packet meets its fate
\* once).  An acknowledged frame is never sent again; a lost one is queued again unless
\* another copy has been acknowledged.
Fates(A, L) ==
    LET ackN  == UNION {k.nci : k \in A}
        ackR  == UNION {k.ret : k \in A}
        lostR == UNION {k.ret : k \in L}
    IN
    /\ Alive
    /\ A \subseteq fly /\ L \subseteq fly /\ A \cap L = {} /\ A \cup L # {}
    /\ lact' = [s \in DOMAIN lact |->
                  IF s \in ackN THEN SS("acked", 0)
                  ELSE IF lact[s].st = "sent" /\ \E k \in L : k.p = lact[s].p /\ s \in k.nci
                       THEN SS("unsent", 0)
                  ELSE lact[s]]
    /\ retack' = retack \cup ackR
    /\ retq' = (retq \cup lostR) \ (retack \cup ackR)
    /\ retfly' = retfly \ (ackR \cup lostR)
    /\ fly' = fly \ (A \cup L)
    /\ dev' = None
    /\ UNCHANGED <<side, cfg, hs, retry, lret, lsent, nextSeq, ltrans, peerLimit,
                   ract, rpt, rgone, dcid, used, pn, err, drained>>

(* ---------------------------------------------------------------------- stateless reset *)

\* A datagram that cannot be decrypted and ends in tok.  RFC 9000 10.3.1: it is a stateless
\* reset exactly when tok is the token of a remote id that is not retired and has been used;
\* an id for which the peer gave no token has none.
Reset(tok, accepted) ==
    LET weak   == tok # Z /\ \E r \in ract : r.tok = tok /\ r.cid \in used \cup {dcid}
        strong == tok # Z /\ (\E r \in ract : r.cid = dcid /\ r.tok = tok)
                          /\ ~(\E r \in ract : r.cid = dcid /\ r.tok # tok)
        zero   == tok = Z /\ \E r \in ract : r.cid = dcid /\ r.tok = Z
    IN
    /\ Alive /\ hs = "live"
    /\ \/ /\ ((~accepted \/ weak) /\ (~strong \/ accepted)) = TRUE
          /\ dev' = None
       \/ /\ accepted /\ zero /\ "zero_token_reset" \in Deviations
          /\ dev' = "zero_token_reset"
    /\ err' = IF accepted THEN "STATELESS_RESET" ELSE err
    /\ UNCHANGED <<side, cfg, hs, retry, lact, lret, lsent, nextSeq, ltrans, peerLimit,
                   ract, rpt, retq, retfly, retack, rgone, dcid, used, pn, fly, drained>>

(* ----------------------------------------------------------------------------- lifetime *)

\* the application (or the peer) closes the connection
Close == Alive /\ Fail("CLOSED")

\* the connection has finished closing/draining: the endpoint forgets all its ids and tokens
Drain ==
    /\ err # None /\ ~drained
    /\ drained' = TRUE /\ dev' = None
    /\ UNCHANGED <<side, cfg, hs, retry, lact, lret, lsent, nextSeq, ltrans, peerLimit,
                   ract, rpt, retq, retfly, retack, rgone, dcid, used, pn, fly, err>>

(* ------------------------------------------------------------------ design-level properties *)

LocalSeqs    == /\ DOMAIN lact \cap lret = {}
                /\ DOMAIN lact \cup lret = 0 .. (nextSeq - 1)          \* consecutive, never reused
                /\ lsent \subseteq 0 .. (nextSeq - 1)

\* never more active local ids than the peer allows (nor than we are willing to issue) ...
LocalWithinLimit == peerLimit > 0 => Cardinality(DOMAIN lact) <= Min(peerLimit, IssueCap)
\* ... and, while the connection is healthy, exactly that many (replacement after retirement)
LocalToppedUp == (err = None /\ peerLimit > 0) => Cardinality(DOMAIN lact) = Min(peerLimit, IssueCap)
LocalBeforeParams == peerLimit = 0 => DOMAIN lact = {0}

RemoteWithinLimit == err = None => Cardinality(ract) <= OurLimit

\* every remote sequence number below Retire Prior To is retired, and its
\* RETIRE_CONNECTION_ID frame is queued, in flight or acknowledged
RetiredCovered ==
    /\ \A r \in ract : r.seq >= rpt \/ (r.seq = TS /\ rpt = 0)
    /\ \A n \in 0 .. (rpt - 1) : n \in retq \cup retfly \cup retack
    /\ retq \cup retfly \cup retack \subseteq 0 .. (rpt - 1)

NoRetireAfterAck == retack \cap (retq \cup retfly) = {}

\* nothing in flight is forgotten: every frame marked in flight is in a tracked packet
FlyConsistent ==
    /\ \A n \in retfly : \E k \in fly : n \in k.ret
    /\ \A s \in DOMAIN lact : lact[s].st = "sent" => \E k \in fly : k.p = lact[s].p /\ s \in k.nci

CurActive == (err = None) => dcid \in Cids(ract)

\* a peer with a zero-length connection id never gets a second one
ZeroLenAlone == (err = None /\ dcid = ZL) => Cardinality(ract) = 1

TransientOnlyInHandshake ==
    /\ ltrans => side = "server" /\ hs # "live"
    /\ (\E r \in ract : r.seq = TS) => side = "client" /\ hs = "start"

Monotone == [][rpt' >= rpt /\ nextSeq' >= nextSeq /\ lret \subseteq lret' /\ retack \subseteq retack'
               /\ lsent \subseteq lsent' /\ rgone \subseteq rgone']_vars
=============================================================================
