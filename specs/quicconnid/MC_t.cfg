SPECIFICATION MCSpec
CONSTANTS
  OurLimit = 2
  IssueCap = 3
  Deviations = {}
  MaxSeq = 2
  MaxLocal = 3
  MaxPkts = 2
  PeerLimits = {2, 4}
  MCCids = {"P1", "P2"}
  MCToks = {"Z", "T1"}
  Sides = {"client", "server"}
  Focus = {"local", "remote"}
  MCScids = {"P0", "ZL"}
  MCTok0s = {"T0"}
  MCPrefs = {"none", "P1"}
INVARIANTS LocalSeqs LocalWithinLimit LocalToppedUp LocalBeforeParams RemoteWithinLimit RetiredCovered
  NoRetireAfterAck FlyConsistent CurActive ZeroLenAlone TransientOnlyInHandshake NoDeviation
PROPERTIES Monotone
CONSTRAINT Bound
VIEW MCView
CHECK_DEADLOCK FALSE
