# Signature of a violation = the class of the failing scenario, so that one defect is reported
# once and a different failure of the same property still shows.
import re


def signature(prop, kind, scenario, detail):
    what = (detail or {}).get("what", "")
    if kind != "trace":
        return None
    side = "?"
    if isinstance(scenario, dict) and scenario.get("lines"):
        side = scenario["lines"][0].get("side", "?")
    m = re.search(r'"e": "(\w+)"', what)
    ev = m.group(1) if m else "?"
    inv = re.match(r"invariant (\w+)", what)
    if inv:
        d = re.search(r'"dev": "(?:\\")?(\w+)', what)
        if d and d.group(1) != "none":
            return "trace;deviation=%s" % d.group(1)
        return "trace;%s;inv=%s;event=%s" % (side, inv.group(1), ev)
    extra = ""
    p = re.search(r'"perr": "(\w+)"', what)
    if p:
        extra = ";answer=" + p.group(1)
    return "trace;%s;unmatched;event=%s%s" % (side, ev, extra)
