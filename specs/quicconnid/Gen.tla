-------------------------------- MODULE Gen --------------------------------
(* Scenario generator: scripts for the driver taken from the model.  A script is the         *)
(* handshake variant followed by the operations of a (possibly hostile) peer and of the      *)
(* network: NEW_CONNECTION_ID / RETIRE_CONNECTION_ID frames (one or several per packet),     *)
(* acknowledgements, loss, probe timeouts, stateless resets, routing probes, close, drain.  *)
(* Only the operations are exported; the driver executes them on the real connection and     *)
(* TLC judges what it did (Trace.tla).  The model is stepped to quiescence between the       *)
(* operations (everything due is sent in one packet, as the implementation does), so that    *)
(* the operations chosen next refer to ids and packets that really exist.  Where the         *)
(* contract leaves a choice the generator follows the implementation's documented one.       *)
(* NEW_CONNECTION_ID frames always carry a real token here: the implementation represents    *)
(* "no token" as the all-zero token, so an all-zero token in a frame cannot be told apart.   *)
EXTENDS QuicConnID, Sequences, Json

CONSTANTS GenDepth, GMaxSeq, GLimits

VARIABLES hist, open, done
gvars == <<vars, hist, open, done>>

CidOf == <<"P1", "P2", "P3", "P4", "P5", "P6", "P7", "P8">>     \* honest id of remote sequence number n >= 1
TokOf == <<"T1", "T2", "T3", "T4", "T5", "T6", "T7", "T8">>

Base(l, sc, tk, pc) ==
    [scid |-> sc, limit |-> l, odcid |-> "ok", rscid |-> "absent", iscid |-> "ok",
     tok |-> tk, prefcid |-> pc, preftok |-> IF pc = None THEN Z ELSE "T1"]

GenCfgs(s) ==
    IF s = "client"
    THEN {Base(lm, "P0", tk, pc) : lm \in GLimits, tk \in {Z, "T0"}, pc \in {None, "P1"}}
         \cup {Base(lm, ZL, Z, pc) : lm \in {2, 4}, pc \in {None, "P1"}}
         \cup {[Base(2, "P0", "T0", None) EXCEPT !.rscid = "retry"],
               [Base(3, "P0", Z, "P1") EXCEPT !.rscid = "retry"],
               [Base(2, "P0", Z, None) EXCEPT !.rscid = "bad"],
               [Base(2, "P0", Z, None) EXCEPT !.odcid = "bad"],
               [Base(2, "P0", Z, None) EXCEPT !.odcid = "absent"],
               [Base(2, "P0", Z, None) EXCEPT !.iscid = "bad"],
               Base(2, "P0", Z, ZL)}
    ELSE {[Base(lm, "P0", Z, None) EXCEPT !.odcid = "absent"] : lm \in GLimits}
         \cup {[Base(lm, "P0", Z, None) EXCEPT !.odcid = "absent"] : lm \in GLimits}
         \cup {[Base(lm, ZL, Z, None) EXCEPT !.odcid = "absent"] : lm \in {2, 4}}
         \cup {[Base(2, "P0", "T0", None) EXCEPT !.odcid = "absent"],
               [Base(2, "P0", Z, "P1") EXCEPT !.odcid = "absent"],
               [Base(2, "P0", Z, None) EXCEPT !.odcid = "bad"],
               [Base(2, "P0", Z, None) EXCEPT !.odcid = "absent", !.rscid = "bad"],
               [Base(2, "P0", Z, None) EXCEPT !.odcid = "absent", !.iscid = "bad"]}

Rec(r) == hist' = Append(hist, r)

GInit ==
    /\ \E s \in {"client", "server"} : \E c \in GenCfgs(s) :
          InitWith(s, c) /\ hist = <<[op |-> "cfg", side |-> s, cfg |-> c]>>
    /\ open = FALSE /\ done = FALSE

\* follow the implementation where the contract leaves a choice
Pick(S) == IF None \in S THEN None ELSE CHOOSE o \in S : TRUE

PendingN == {s \in DOMAIN lact : lact[s].st = "unsent"}
MinAct   == CHOOSE m \in DOMAIN lact : \A s \in DOMAIN lact : m <= s
Due      == Alive /\ peerLimit > 0 /\ (PendingN # {} \/ retq # {})

\* everything due leaves in one packet
GSend ==
    /\ Due /\ ~open
    /\ Send("1rtt", pn + 1, dcid, MinAct, {[seq |-> s, rp |-> MinAct] : s \in PendingN}, retq)
    /\ UNCHANGED <<hist, open>>

\* a probe timeout: everything unacknowledged is sent again
GPto ==
    /\ Alive /\ hs = "live" /\ fly # {}
    /\ Send("1rtt", pn + 1, dcid, MinAct,
            {[seq |-> s, rp |-> MinAct] : s \in {x \in DOMAIN lact : lact[x].st \in {"unsent", "sent"}}},
            retq \cup retfly)
    /\ Rec([op |-> "pto"]) /\ UNCHANGED open

GHandshake ==
    \/ /\ cfg.rscid # "absent" \/ cfg.limit = 8
       /\ Retry("P100") /\ Rec([op |-> "retry"]) /\ UNCHANGED open
    \/ SrvInitial /\ Rec([op |-> "srvinit"]) /\ UNCHANGED open
    \/ Params(Pick(ParamsOuts)) /\ Rec([op |-> "params"]) /\ UNCHANGED open
    \/ CliHandshake /\ Rec([op |-> "clihs"]) /\ UNCHANGED open

\* Frames of the peer.  The parameters are drawn at random (RandomElement is seeded by
\* -seed) from candidates around the current state, so that a simulation step has one
\* successor per kind of operation.  A frame with more = TRUE shares its packet with the
\* next frame.
Vias == IF open THEN {hist[Len(hist)].via} ELSE DOMAIN lact
MaxR == CHOOSE m \in {r.seq : r \in ract} : \A r \in ract : r.seq <= m
Clip(S) == LET c == S \cap (1 .. GMaxSeq) IN IF c = {} THEN {1} ELSE c

\* (a bound variable is evaluated once; a LET definition would draw again at every use)
One(S) == {RandomElement(S)}

GNciWith(seq, rp, cid, tok, more) ==
    \E via \in One(Vias) :
    /\ hs = "live"
    /\ RecvNCI(seq, rp, cid, tok, Pick(NCIOuts(seq, rp, cid, tok)))
    /\ Rec([op |-> "nci", seq |-> seq, rp |-> rp, cid |-> cid, tok |-> tok, via |-> via, more |-> more])
    /\ open' = (more /\ err' = None)

\* honest: the next new id (sometimes skipping one), retiring enough older ids to stay within
\* our limit, or everything older
GNciHonest ==
    \E seq \in One(Clip({MaxR + 1, MaxR + 1, MaxR + 1, MaxR + 2})) :
    \E rp \in One({seq - 1, seq - 1, seq - 1, seq} \cap (0 .. seq)) :
    \E tok \in One({TokOf[seq]}) :
    \E more \in One({FALSE, FALSE, TRUE}) :
       GNciWith(seq, Max(rp, IF Cardinality(ract) < OurLimit THEN 0 ELSE rp), CidOf[seq], tok, more)

\* odd but legal: repeated frames, frames for retired numbers, stale Retire Prior To,
\* another token for a known id
GNciOdd ==
    \E seq \in One(Clip({r.seq : r \in ract} \cup {rpt - 1, rpt - 2, MaxR})) :
    \E rp \in One({0, rpt, rpt - 1, seq} \cap (0 .. seq)) :
    \E tok \in One({TokOf[seq], TokOf[seq], TokOf[seq], "T9"}) :
    \E more \in One({FALSE, FALSE, TRUE}) :
       GNciWith(seq, rp, CidOf[seq], tok, more)

\* hostile: another id for a known number, too many ids, Retire Prior To beyond the number,
\* a zero-length id, a known id under a new number
GNciHostile ==
    \E seq \in One(Clip({MaxR + 1, MaxR + 1, MaxR, MaxR + 2, rpt})) :
    \E rp \in One({0, rpt, rpt, seq, seq + 1}) :
    \E cid \in One({CidOf[seq], CidOf[seq], "P9", "P9", ZL, CidOf[Max(1, seq - 1)]}) :
    \E tok \in One({TokOf[seq], "T9"}) :
       GNciWith(seq, rp, cid, tok, FALSE)

GRetire ==
    \E seq \in One((0 .. nextSeq) \cup DOMAIN lact \cup DOMAIN lact \cup {nextSeq - 1}) :
    \E via \in One(Vias) :
    \E more \in One({FALSE, FALSE, TRUE}) :
    /\ hs = "live"
    /\ RecvRetire(seq, via, Pick(RetireOuts(seq, via)))
    /\ Rec([op |-> "retire", seq |-> seq, via |-> via, more |-> more])
    /\ open' = (more /\ err' = None)

\* rank of packet k among the tracked in-flight packets (1 = oldest)
Rank(k) == Cardinality({j \in fly : j.p <= k.p})

GNet ==
    \/ /\ fly # {}
       /\ \E k \in One(fly) : Fates({k}, {}) /\ Rec([op |-> "ack", idx |-> Rank(k)]) /\ UNCHANGED open
    \/ fly # {} /\ Fates(fly, {}) /\ Rec([op |-> "ack", idx |-> 0]) /\ UNCHANGED open
    \/ fly # {} /\ Fates({}, fly) /\ Rec([op |-> "lose"]) /\ UNCHANGED open
    \/ GPto

KnownToks == Toks(ract) \cup Toks(rgone) \cup {Z, "T9"}

GProbe ==
    \/ \E tok \in One(KnownToks) : \E path \in One({"conn", "ep"}) :
          LET strong == tok # Z /\ (\E r \in ract : r.cid = dcid /\ r.tok = tok)
                                /\ ~(\E r \in ract : r.cid = dcid /\ r.tok # tok)
              zero   == tok = Z /\ \E r \in ract : r.cid = dcid /\ r.tok = Z
          IN /\ Reset(tok, strong \/ zero)
             /\ Rec([op |-> "reset", tok |-> tok, path |-> path]) /\ UNCHANGED open
    \/ /\ Alive /\ hs = "live"
       /\ \E id \in One(0 .. nextSeq) : Rec([op |-> "route", id |-> id])
       /\ UNCHANGED <<vars, open>>

GEnd ==
    \/ Alive /\ hs = "live" /\ Close /\ Rec([op |-> "close"]) /\ UNCHANGED open
    \/ Drain /\ Rec([op |-> "drain"]) /\ UNCHANGED open

\* the script is complete: it is printed once, for the behaviour actually taken
GStop == ~done /\ done' = TRUE /\ UNCHANGED <<vars, hist, open>>

GNext ==
    IF done THEN FALSE
    ELSE IF Len(hist) >= GenDepth \/ drained THEN GStop
    ELSE /\ done' = done
         /\ IF Due /\ ~open THEN GSend
            ELSE IF err # None THEN GEnd
            ELSE IF open THEN GNciHonest \/ GNciOdd \/ GRetire \/ GRetire
            ELSE IF hs # "live" THEN GHandshake \/ GHandshake \/ GHandshake \/ GNet
            ELSE \/ GNciHonest \/ GNciHonest \/ GNciHonest \/ GNciOdd \/ GNciOdd \/ GRetire \/ GRetire \/ GRetire
                 \/ GNet \/ GNet \/ GProbe \/ GProbe
                 \/ Len(hist) > GenDepth \div 3 /\ GNciHostile
                 \/ Len(hist) > GenDepth - 4 /\ GEnd

GSpec == GInit /\ [][GNext]_gvars

Emit == done => PrintT(<<"BEH", ToJson(hist)>>)
=============================================================================
