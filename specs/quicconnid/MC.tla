--------------------------------- MODULE MC ---------------------------------
(* Exhaustive design-level check of QuicConnID on small constants: a hostile peer chooses  *)
(* every frame, every acknowledgement / loss pattern and every handshake variant; the      *)
(* implementation side chooses any permitted outcome and any permitted packetisation.      *)
EXTENDS QuicConnID

CONSTANTS
    MaxSeq,        \* remote sequence numbers 0..MaxSeq
    MaxLocal,      \* local sequence numbers are explored while nextSeq <= MaxLocal
    MaxPkts,       \* packets with connection-id frames are explored while pn < MaxPkts
    PeerLimits,    \* values of the peer's active_connection_id_limit
    MCCids,        \* connection ids the peer puts into NEW_CONNECTION_ID frames
    MCToks,        \* stateless reset tokens (Z = none)
    Sides,
    MCScids, MCTok0s, MCPrefs,   \* handshake variants: the peer's first id, its token, preferred_address id
    Focus          \* "local": the peer only retires our ids; "remote": it only issues its own;
                   \* "both".  The two halves interact only through packet fates and errors,
                   \* so exploring them separately avoids the product of their state spaces.

VARIABLE focus

BaseCfg(l, sc, tk, pc) ==
    [scid |-> sc, limit |-> l, odcid |-> "ok", rscid |-> "absent", iscid |-> "ok",
     tok |-> tk, prefcid |-> pc, preftok |-> IF pc = None THEN Z ELSE "T1"]

\* handshake variants: what a correct server / client would send, and single faults
CfgsFor(s) ==
    IF s = "client"
    THEN {BaseCfg(l, sc, tk, pc) : l \in PeerLimits, sc \in MCScids, tk \in MCTok0s, pc \in MCPrefs}
         \cup {[BaseCfg(2, "P0", Z, None) EXCEPT !.rscid = "retry"],
               [BaseCfg(2, "P0", Z, None) EXCEPT !.rscid = "bad"],
               [BaseCfg(2, "P0", Z, None) EXCEPT !.odcid = "bad"],
               [BaseCfg(2, "P0", Z, None) EXCEPT !.odcid = "absent"],
               [BaseCfg(2, "P0", Z, None) EXCEPT !.iscid = "bad"]}
    ELSE {[BaseCfg(l, sc, Z, None) EXCEPT !.odcid = "absent"] : l \in PeerLimits, sc \in MCScids}
         \cup {[BaseCfg(2, "P0", "T0", None) EXCEPT !.odcid = "absent"],
               [BaseCfg(2, "P0", Z, "P1") EXCEPT !.odcid = "absent"],
               [BaseCfg(2, "P0", Z, None) EXCEPT !.odcid = "bad"],
               [BaseCfg(2, "P0", Z, None) EXCEPT !.odcid = "absent", !.rscid = "bad"],
               [BaseCfg(2, "P0", Z, None) EXCEPT !.odcid = "absent", !.iscid = "bad"]}

MCInit == /\ focus \in Focus
          /\ \E s \in Sides : \E c \in CfgsFor(s) : InitWith(s, c)

PendingN == {s \in DOMAIN lact : lact[s].st = "unsent"}
ResendN  == {s \in DOMAIN lact : lact[s].st = "sent"}
MinAct   == CHOOSE m \in DOMAIN lact : \A s \in DOMAIN lact : m <= s

\* a packet carrying any selection of what may be sent, or a packet without connection-id frames
\* what goes into one packet: everything that is due; everything due or unacknowledged (a
\* probe); or any single frame
Loads ==
    {<<PendingN, retq>>, <<PendingN \cup ResendN, retq \cup retfly>>}
    \cup {<<{s}, {}>> : s \in PendingN \cup ResendN} \cup {<<{}, {n}>> : n \in retq \cup retfly}

MCSend ==
    /\ pn < MaxPkts
    /\ \E dst \in Cids(ract) :
          \/ \E ld \in Loads :
                /\ ld[1] \cup ld[2] # {} /\ peerLimit > 0
                /\ Send("1rtt", pn + 1, dst, MinAct, {[seq |-> s, rp |-> MinAct] : s \in ld[1]}, ld[2])
          \/ /\ dst # dcid
             /\ Send(IF hs = "live" THEN "1rtt" ELSE "initial", pn + 1, dst, MinAct, {}, {})

MCFates ==
    \/ \E k \in fly : Fates({k}, {}) \/ Fates({}, {k})
    \/ Fates({}, fly) \/ Fates(fly, {})
    \/ \E k \in fly : Fates({k}, fly \ {k})

\* the frames the peer may send: every well-formed one over the small constants, and one
\* representative of each malformed kind (their handling does not depend on the state)
NCIFrames ==
    {f \in (0 .. MaxSeq) \X (0 .. MaxSeq) \X MCCids \X MCToks : f[2] <= f[1]}
        \cup {<<0, 1, "P1", Z>>, <<1, 0, ZL, Z>>}

MCNext ==
    \/ Retry("R1")
    \/ SrvInitial
    \/ \E o \in ParamsOuts : Params(o)
    \/ CliHandshake
    \/ /\ focus # "local"
       /\ hs = "live"
       /\ \E f \in NCIFrames :
             \E o \in NCIOuts(f[1], f[2], f[3], f[4]) : RecvNCI(f[1], f[2], f[3], f[4], o)
    \/ /\ focus # "remote"
       /\ hs = "live"
       /\ \E seq \in 0 .. (MaxLocal + 1), via \in DOMAIN lact :
             \E o \in RetireOuts(seq, via) : RecvRetire(seq, via, o)
    \/ MCSend
    \/ MCFates
    \/ focus # "local" /\ \E tok \in MCToks \cup MCTok0s \cup {Z}, acc \in BOOLEAN : Reset(tok, acc)
    \/ Close
    \/ Drain

MCSpec == MCInit /\ [][MCNext /\ focus' = focus]_<<vars, focus>>

Bound == nextSeq <= MaxLocal + 1 /\ pn <= MaxPkts

\* Fingerprint: history variables that no guard reads are left out; once the connection has
\* failed only err / drained matter (Fail freezes the rest); once the handshake is over the
\* handshake scenario no longer matters.
MCView == IF err # None THEN <<focus, err, drained>>
          ELSE <<focus, side, IF hs = "live" THEN <<>> ELSE cfg, hs, retry, lact, lret, lsent, nextSeq,
                 ltrans, peerLimit, ract, rpt, retq, retfly, retack, dcid, used, pn, fly>>

NoDeviation == dev = None
=============================================================================
