SPECIFICATION MCSpec
CONSTANTS
  OurLimit = 2
  IssueCap = 3
  Deviations = {}
  MaxSeq = 2
  MaxLocal = 2
  MaxPkts = 1
  PeerLimits = {2}
  MCCids = {"P1"}
  MCToks = {"T1"}
  Sides = {"client", "server"}
  Focus = {"local", "remote"}
  MCScids = {"P0", "ZL"}
  MCTok0s = {"T0"}
  MCPrefs = {"none"}
INVARIANTS LocalSeqs LocalWithinLimit LocalToppedUp LocalBeforeParams RemoteWithinLimit RetiredCovered
  NoRetireAfterAck FlyConsistent CurActive ZeroLenAlone TransientOnlyInHandshake NoDeviation
PROPERTIES Monotone
CONSTRAINT Bound
VIEW MCView
CHECK_DEADLOCK FALSE
