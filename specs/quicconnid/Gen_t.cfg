SPECIFICATION GSpec
CONSTANTS
  OurLimit = 2
  IssueCap = 4
  Deviations = {"retire_unsent_accepted", "retire_resent_after_ack", "server_accepts_preferred_address", "zero_length_preferred_address", "zero_token_reset", "token_not_removed"}
  GenDepth = 30
  GMaxSeq = 8
  GLimits = {2, 3, 4, 8}
INVARIANT Emit
CHECK_DEADLOCK FALSE
