------------------------------- MODULE Trace -------------------------------
(* Trace validation for the quicconnid family (X01, X02).  A trace is one scripted          *)
(* connection of the real package (newTestConn + the endpoint's real routing), recorded by   *)
(* drivers/quic/zz_verif_quicconnid_test.go: handshake milestones, every NEW_CONNECTION_ID / *)
(* RETIRE_CONNECTION_ID frame delivered (with the error the connection answered the packet   *)
(* with), every packet the connection sent (destination / source id, connection-id frames), *)
(* the fate of those packets, stateless-reset and routing probes, and after every step a     *)
(* white-box snapshot ("obs") of connIDState and of the endpoint's tables.  Every line must  *)
(* be a step of QuicConnID and every snapshot must equal the projection of the model state.  *)
EXTENDS QuicConnID, TraceIO

VARIABLES cur, l, seenleak
tvars == <<vars, cur, l, seenleak>>

Line == Trace[l]

\* constants of the implementation, read from the package by the driver (header of trace 1)
TrOurLimit == Trace[Meta.starts[1]].ourlimit
TrIssueCap == Trace[Meta.starts[1]].issuecap

SetOf(s) == {s[i] : i \in 1 .. Len(s)}

TInit ==
    \E t \in 1 .. NT :
       LET h == Trace[Meta.starts[t]] IN
       /\ cur = t /\ l = Meta.starts[t] + 1
       /\ seenleak = {}
       /\ h.e = "hdr" /\ h.ourlimit = OurLimit /\ h.issuecap = IssueCap
       /\ h.side \in {"client", "server"} /\ CfgOK(h.cfg)
       /\ InitWith(h.side, h.cfg)

Stutter == UNCHANGED <<side, cfg, hs, retry, lact, lret, lsent, nextSeq, ltrans, peerLimit,
                       ract, rpt, retq, retfly, retack, rgone, dcid, used, pn, fly, err, drained>>

\* the error the connection answered the whole packet with is logged on each of its frames;
\* the first error of a packet sticks
OutOK(out) == IF Line.last THEN out = Line.perr ELSE out \in {None, Line.perr}

TRetry   == Line.e = "retry" /\ Retry(Line.cid)
TSrvInit == Line.e = "srvinit" /\ SrvInitial
TParams  == Line.e = "params" /\ Params(Line.perr)
TCliHs   == Line.e = "clihs" /\ CliHandshake

TNci ==
    /\ Line.e = "nci" /\ err = None
    /\ Line.seq >= 0 /\ Line.rp >= 0
    /\ \E out \in NCIOuts(Line.seq, Line.rp, Line.cid, Line.tok) :
          OutOK(out) /\ RecvNCI(Line.seq, Line.rp, Line.cid, Line.tok, out)

TRetire ==
    /\ Line.e = "retire" /\ err = None
    /\ Line.seq >= 0
    /\ \E out \in RetireOuts(Line.seq, Line.via) :
          /\ OutOK(out)
          \* a deviation is only followed when the whole packet was accepted
          /\ (out # None \/ Line.seq \in lsent \/ Line.perr = None) = TRUE
          /\ RecvRetire(Line.seq, Line.via, out)

\* frames that follow the failing frame of a packet, packets of a closing connection
TDead ==
    /\ Line.e \in {"nci", "retire", "send", "fates"} /\ err # None
    /\ Stutter /\ dev' = None

TSend ==
    /\ Line.e = "send" /\ err = None
    /\ Send(Line.ptype, Line.p, Line.dst, Line.src,
            {[seq |-> f.seq, rp |-> f.rp] : f \in SetOf(Line.nci)}, SetOf(Line.ret))

TFates ==
    /\ Line.e = "fates" /\ err = None
    /\ LET A == {k \in fly : k.p \in SetOf(Line.acked)}
           L == {k \in fly : k.p \in SetOf(Line.lost)}
       IN  IF A \cup L = {} THEN Stutter /\ dev' = None ELSE Fates(A, L)

TReset == Line.e = "reset" /\ Reset(Line.tok, Line.accepted)

\* a datagram addressed to local id Line.id reaches the connection exactly when the id is
\* issued and not retired
TRoute ==
    /\ Line.e = "route"
    /\ Line.delivered = (Line.id \in RoutesExpected)
    /\ Stutter /\ dev' = None

\* the connection-id transport parameters WE sent (RFC 9000 7.3): initial_source_connection_id is
\* our id 0; a server echoes the client-chosen original destination id, a client sends neither
\* that nor retry_source_connection_id (no Retry is sent by the server under test here); the
\* advertised active_connection_id_limit is the one we enforce
TOurParams ==
    /\ Line.e = "ourparams"
    /\ Line.iscid = "0" /\ Line.limit = OurLimit /\ Line.rscid = "absent"
    /\ Line.odcid = (IF side = "server" THEN "-1" ELSE "absent")
    /\ (side = "client" => ~Line.hastoken) = TRUE
    /\ Stutter /\ dev' = None

TClose == Line.e = "close" /\ Close
TDrain == Line.e = "drain" /\ Drain

\* white-box snapshot after the connection has become idle
LocalView == {[seq |-> s, st |-> lact[s].st] : s \in DOMAIN lact}
             \cup (IF ltrans THEN {[seq |-> TS, st |-> "na"]} ELSE {})

Quiet == retq = {} /\ \A s \in DOMAIN lact : lact[s].st # "unsent"

TObs ==
    /\ Line.e = "obs"
    /\ Line.err = err /\ Line.drained = drained
    /\ IF err = None
       THEN /\ {[seq |-> x.seq, st |-> x.st] : x \in SetOf(Line.local)} = LocalView
            /\ Line.next = nextSeq /\ Line.plimit = peerLimit
            /\ {[seq |-> x.seq, cid |-> x.cid, tok |-> x.tok] : x \in SetOf(Line.remote)} = ract
            /\ Line.rpt = rpt
            /\ SetOf(Line.retq) = retq /\ SetOf(Line.retfly) = retfly
            /\ Line.dst = dcid
            /\ SetOf(Line.routes) = RoutesExpected
            /\ (~Line.quiet \/ peerLimit = 0 \/ Quiet) = TRUE
       ELSE (~drained \/ SetOf(Line.routes) = {}) = TRUE
    /\ LET tokS  == SetOf(Line.tokens)
           extra == tokS \ TokensExpected
       IN  IF err # None /\ ~drained
           THEN dev' = None /\ seenleak' = seenleak     \* closing: frames after the failing one are not modelled
           ELSE /\ TokensExpected \subseteq tokS
                /\ \/ extra = {}
                   \* the tokens of retired ids (after an error: also of the ids the failing
                   \* frame retired before it failed) are known to stay behind
                   \/ /\ "token_not_removed" \in Deviations
                      /\ extra \subseteq Toks(rgone) \cup (IF err \in {None, "CLOSED", "STATELESS_RESET"} THEN {} ELSE Toks(ract))
                /\ seenleak' = seenleak \cup extra
                \* reported once per trace, at its last line, so that it never hides a
                \* different failure earlier in the same trace
                /\ dev' = IF l = Meta.ends[cur] /\ seenleak \cup extra # {}
                          THEN "token_not_removed" ELSE None
    /\ Stutter

TNext ==
    /\ l <= Meta.ends[cur]
    /\ l' = l + 1 /\ cur' = cur
    /\ \/ TObs
       \/ (\/ TRetry \/ TSrvInit \/ TParams \/ TCliHs \/ TNci \/ TRetire \/ TDead
           \/ TSend \/ TFates \/ TReset \/ TRoute \/ TOurParams \/ TClose \/ TDrain) /\ seenleak' = seenleak

TSpec == TInit /\ [][TNext]_tvars

Mark == HighWater(cur, l)

\* deviations of the pinned implementation judged by X01 / by X02
DevX01 == {"retire_unsent_accepted", "retire_resent_after_ack", "server_accepts_preferred_address",
           "zero_length_preferred_address"}
DevX02 == {"zero_token_reset", "token_not_removed"}
NoDevX01 == dev \notin DevX01
NoDevX02 == dev \notin DevX02
AllDeviations == DevX01 \cup DevX02
=============================================================================
