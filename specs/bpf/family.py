# bpf family hooks: signatures that name the specific scenario class of a C48/C49 violation,
# so that a known finding does not hide a different violation of the same property.
# (The verdict itself always comes from TLC: a replay mismatch against TLC's prediction or
# a trace TLC rejected. This file only classifies rejected scenarios for reporting.)


def _hexw(k):
    try:
        return "%08x" % ((int(k[0]) << 16) | int(k[1]))
    except Exception:
        return "?"


def _raw_class(line):
    """Rejected C48 trace line: which part of the raw instruction the round trip lost."""
    if line.get("e") != "dis":
        return "%s@%s" % (line.get("e"), line.get("at", "?"))
    r, i, b = line.get("raw", {}), line.get("ins", {}), line.get("back", {})
    ty = i.get("ty", "?")
    if ty == "Raw":
        return "Raw:canonical-encoding-not-decoded:op=%02x" % (r.get("op", 0) & 0xff)
    if line.get("aerr"):
        return "%s:reassemble-error" % ty
    x = int(r.get("op", 0)) ^ int(b.get("op", 0))
    low = x & 0xff
    if low:
        # name the opcode bit field that was lost (one per case: mode > width > dst / src)
        cls = int(b.get("op", 0)) & 7
        if cls in (0, 1):
            f = "mode" if low & 0xe0 else "width" if low & 0x18 else "dst" if low & 0x01 else "op.low^%02x" % low
        elif cls in (4, 5):
            f = "src" if low == 0x08 else "op.low^%02x" % low
        else:
            f = "op.low^%02x" % low
        return "%s:lost=%s" % (ty, f)
    if x >> 8:
        return "%s:lost=op.high-byte" % ty
    if r.get("jt") != b.get("jt") or r.get("jf") != b.get("jf"):
        return "%s:lost=jt/jf" % ty
    if r.get("k") != b.get("k"):
        return "%s:lost=k" % ty
    return "%s:round-trips-but-not-the-table-type(op=%02x)" % (ty, r.get("op", 0) & 0xff)


def _typed_class(item, detail):
    i = item.get("i", {})
    ty = i.get("ty", "?")
    what = detail.get("what", "")
    if what.startswith("Disassemble(Assemble(i))"):
        got = (detail.get("actual") or {}).get("ty", "?") if isinstance(detail.get("actual"), dict) else "?"
        if not item.get("acc"):
            return "%s:outside-documented-domain-accepted" % ty
        if not item.get("canon"):
            return "%s:non-injective-encoding->%s" % (ty, got)
        return "%s:canonical-value-does-not-round-trip->%s" % (ty, got)
    if what.startswith("Assemble: raw encoding"):
        return "%s:encoding-differs-from-table" % ty
    if what.startswith("Assemble rejects"):
        return "%s:rejected" % ty
    return "%s:%s" % (ty, what.replace(" ", "-")[:40])


def _vm_class(item, detail):
    ops = sorted({x.get("op", "?") + (":" + x["alu"] if x.get("alu") else "") + (":" + x["cond"] if x.get("cond") else "")
                  for x in item.get("prog", [])})
    return "%s;ops=%s" % (detail.get("what", "?").replace(" ", "-")[:60], ",".join(ops)[:120])


def signature(prop, kind, scenario, detail):
    try:
        if prop == "C48" and kind == "trace":
            return "dis-asm:" + _raw_class(scenario["lines"][-1])
        if prop == "C48" and kind == "replay" and isinstance(scenario, dict):
            return "asm-dis:" + _typed_class(scenario, detail)
        if prop == "C49" and kind == "replay" and isinstance(scenario, dict):
            return "vm:" + _vm_class(scenario, detail)
    except Exception:
        return None
    return None
