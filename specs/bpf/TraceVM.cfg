SPECIFICATION TSpec
INVARIANTS Sane
CONSTRAINT Mark
POSTCONDITION AllConsumed
CHECK_DEADLOCK FALSE
