INIT Init
NEXT Next
CONSTANT NVec = 0
INVARIANTS KnownValues Identities
CHECK_DEADLOCK FALSE
