------------------------------- MODULE GenAsm -------------------------------
(* C48 generator: every typed instruction of BpfAsm!TypedDomain (all types, fields at *)
(* their boundaries, values outside the documented domain, non-canonical values) with *)
(*   acc   whether it is inside the documented domain of Assemble,                     *)
(*   raw   the encoding the bit-field table gives (meaningful if acc),                 *)
(*   back  what Disassemble(Assemble(i)) has to be whenever Assemble accepts i: i,      *)
(*   canon whether i is the canonical representative of its raw form (reporting only). *)
(* The spec-level equations are checked on the way (see BpfAsm).                       *)
EXTENDS MCAsm, Json

GInit == Init                      \* typed domain (printed) and raw domain (spec-level check only)
GNext == UNCHANGED c

Item(i) == [i |-> i, acc |-> Accepts(i), raw |-> IF Accepts(i) THEN Asm(i) ELSE Raw(0, 0, 0, Zero), back |-> i,
            canon |-> Canonical(i)]

Emit == IsTyped(c) => PrintT(<<"CASE", ToJson(Item(c))>>)
=============================================================================
