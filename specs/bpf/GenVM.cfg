SPECIFICATION GSpec
CONSTANT Level = 1
INVARIANTS Emit MachineOK
PROPERTY Forward
CHECK_DEADLOCK FALSE
