INIT GInit
NEXT GNext
CONSTANT Lvl = 1
INVARIANTS Emit RoundTripTyped NonCanonicalCollides RoundTripRaw
CHECK_DEADLOCK FALSE
