----------------------------- MODULE Word32Test -----------------------------
(* Model for the Word32 self-test: one state per vector (see Word32Vectors). *)
EXTENDS Word32Vectors

CONSTANT NVec             \* how many of the vectors to check (0 = all)
VARIABLE c
Init == c \in 1..(IF NVec = 0 THEN Len(Vectors) ELSE NVec)
Next == UNCHANGED c
KnownValues == KnownAt(c)
Identities == IdentAt(c)
=============================================================================
