------------------------------- MODULE BpfAsm -------------------------------
(* Classic-BPF instruction encoding (property C48).                                   *)
(*                                                                                    *)
(* Raw instruction: [op, jt, jf, k]  op in 0..65535, jt/jf in 0..255, k a Word32 word. *)
(* Typed instruction (uniform record, fields not used by a type are 0 / Zero):         *)
(*   ty   "LoadConstant" "LoadScratch" "LoadAbsolute" "LoadIndirect" "LoadMemShift"    *)
(*        "LoadExtension" "StoreScratch" "ALUOpConstant" "ALUOpX" "NegateA" "Jump"     *)
(*        "JumpIf" "JumpIfX" "RetA" "RetConstant" "TAX" "TXA"   ("Raw": not decoded,    *)
(*        then alu = op, st/sf = jt/jf, k = k)                                          *)
(*   r register, n scratch slot, sz load size, num extension number, alu ALUOp value,   *)
(*   cond JumpTest value 0..7, st/sf SkipTrue/SkipFalse, k Val/Off/Skip.                *)
(*                                                                                    *)
(* Asm is the bit-field table (the classic BPF opcode layout, <linux/filter.h>):        *)
(*   class   bits 0-2  LD 0 LDX 1 ST 2 STX 3 ALU 4 JMP 5 RET 6 MISC 7                  *)
(*   LD/LDX  size bits 3-4 (W 0x00 H 0x08 B 0x10), mode bits 5-7 (IMM 0x00 ABS 0x20     *)
(*           IND 0x40 MEM 0x60 LEN 0x80 MSH 0xa0)                                       *)
(*   ALU/JMP source bit 3 (K 0x00, X 0x08), operator bits 4-7                           *)
(*   RET     value bit 4 (K 0x00, A 0x10);  MISC  TAX 0x00, TXA 0x80                    *)
(* Dis is the decoder the property determines: Dis(r) = i for the canonical typed i     *)
(* with Asm(i) = r, and Raw for every r outside the image of Asm.  TLC checks           *)
(* (MC_asm.cfg) that the two equations of C48 hold for this pair on the whole domain,   *)
(* and that they cannot hold outside Canonical (Asm is not injective there).            *)
EXTENDS Word32, FiniteSets, TLC

Types == {"LoadConstant", "LoadScratch", "LoadAbsolute", "LoadIndirect", "LoadMemShift", "LoadExtension",
          "StoreScratch", "ALUOpConstant", "ALUOpX", "NegateA", "Jump", "JumpIf", "JumpIfX",
          "RetA", "RetConstant", "TAX", "TXA"}

T0 == [ty |-> "", r |-> 0, n |-> 0, sz |-> 0, num |-> 0, alu |-> 0, cond |-> 0, st |-> 0, sf |-> 0, k |-> Zero]
Raw(op, jt, jf, k) == [op |-> op, jt |-> jt, jf |-> jf, k |-> k]
RawT(r) == [T0 EXCEPT !.ty = "Raw", !.alu = r.op, !.st = r.jt, !.sf = r.jf, !.k = r.k]

(* classes, sizes, modes, operators *)
LD == 0   LDX == 1   ST == 2   STX == 3   ALUc == 4   JMP == 5   RET == 6   MISC == 7
SzBits(sz) == CASE sz = 4 -> 0 [] sz = 2 -> 8 [] sz = 1 -> 16
IMM == 0   ABS == 32   IND == 64   MEM == 96   LEN == 128   MSH == 160
SrcK == 0  SrcX == 8
ALUOps == {0, 16, 32, 48, 64, 80, 96, 112, 144, 160}   \* add sub mul div or and lsh rsh (neg = 128) mod xor
NEG == 128
JA == 0   JEQ == 16   JGT == 32   JGE == 48   JSET == 64
ExtBase == <<65535, 61440>>                             \* 0xfffff000 = SKF_AD_OFF
ExtLenNum == 1

(* JumpTest value -> <<operator, flip>>  (eq ne gt lt ge le set nset) *)
CondOp(c) == CASE c = 0 -> <<JEQ, FALSE>> [] c = 1 -> <<JEQ, TRUE>>
               [] c = 2 -> <<JGT, FALSE>> [] c = 3 -> <<JGE, TRUE>>
               [] c = 4 -> <<JGE, FALSE>> [] c = 5 -> <<JGT, TRUE>>
               [] c = 6 -> <<JSET, FALSE>> [] c = 7 -> <<JSET, TRUE>>

(* documented domain of Assemble *)
Accepts(i) ==
    CASE i.ty = "LoadConstant"  -> i.r \in {0, 1}
      [] i.ty = "LoadScratch"   -> i.r \in {0, 1} /\ i.n \in 0..15
      [] i.ty = "LoadAbsolute"  -> i.sz \in {1, 2, 4}
      [] i.ty = "LoadIndirect"  -> i.sz \in {1, 2, 4}
      [] i.ty = "LoadExtension" -> i.num \in 0..4095
      [] i.ty = "StoreScratch"  -> i.r \in {0, 1} /\ i.n \in 0..15
      [] i.ty = "ALUOpConstant" -> i.alu \in ALUOps
      [] i.ty = "ALUOpX"        -> i.alu \in ALUOps
      [] i.ty \in {"JumpIf", "JumpIfX"} -> i.cond \in 0..7
      [] OTHER -> i.ty \in Types

JRaw(i, src, k) ==
    LET co == CondOp(i.cond) IN
    IF co[2] THEN Raw(JMP + co[1] + src, i.sf, i.st, k) ELSE Raw(JMP + co[1] + src, i.st, i.sf, k)

Asm(i) ==
    CASE i.ty = "LoadConstant"  -> Raw(i.r + IMM, 0, 0, i.k)
      [] i.ty = "LoadScratch"   -> Raw(i.r + MEM, 0, 0, FromNat(i.n))
      [] i.ty = "LoadAbsolute"  -> Raw(LD + SzBits(i.sz) + ABS, 0, 0, i.k)
      [] i.ty = "LoadIndirect"  -> Raw(LD + SzBits(i.sz) + IND, 0, 0, i.k)
      [] i.ty = "LoadMemShift"  -> Raw(LDX + SzBits(1) + MSH, 0, 0, i.k)
      [] i.ty = "LoadExtension" -> IF i.num = ExtLenNum THEN Raw(LD + LEN, 0, 0, Zero)
                                   ELSE Raw(LD + ABS, 0, 0, Add(ExtBase, FromNat(i.num)))
      [] i.ty = "StoreScratch"  -> Raw(IF i.r = 0 THEN ST ELSE STX, 0, 0, FromNat(i.n))
      [] i.ty = "ALUOpConstant" -> Raw(ALUc + SrcK + i.alu, 0, 0, i.k)
      [] i.ty = "ALUOpX"        -> Raw(ALUc + SrcX + i.alu, 0, 0, Zero)
      [] i.ty = "NegateA"       -> Raw(ALUc + NEG, 0, 0, Zero)
      [] i.ty = "Jump"          -> Raw(JMP + JA, 0, 0, i.k)
      [] i.ty = "JumpIf"        -> JRaw(i, SrcK, i.k)
      [] i.ty = "JumpIfX"       -> JRaw(i, SrcX, Zero)
      [] i.ty = "RetA"          -> Raw(RET + 16, 0, 0, Zero)
      [] i.ty = "RetConstant"   -> Raw(RET, 0, 0, i.k)
      [] i.ty = "TAX"           -> Raw(MISC, 0, 0, Zero)
      [] i.ty = "TXA"           -> Raw(MISC + 128, 0, 0, Zero)

(* Typed values whose unused fields are at their defaults: Go structs only have the     *)
(* used fields, so every Go value corresponds to exactly one such record.                *)
Used(ty) ==
    CASE ty = "LoadConstant" -> {"r", "k"}   [] ty = "LoadScratch" -> {"r", "n"}
      [] ty = "LoadAbsolute" -> {"sz", "k"}  [] ty = "LoadIndirect" -> {"sz", "k"}
      [] ty = "LoadMemShift" -> {"k"}        [] ty = "LoadExtension" -> {"num"}
      [] ty = "StoreScratch" -> {"r", "n"}   [] ty = "ALUOpConstant" -> {"alu", "k"}
      [] ty = "ALUOpX" -> {"alu"}            [] ty = "Jump" -> {"k"}
      [] ty = "JumpIf" -> {"cond", "st", "sf", "k"}  [] ty = "JumpIfX" -> {"cond", "st", "sf"}
      [] ty = "RetConstant" -> {"k"}         [] OTHER -> {}
WellFormed(i) == \A f \in (DOMAIN T0) \ ({"ty"} \cup Used(i.ty)) : i[f] = T0[f]

(* The encoding is not injective on the typed values Assemble accepts:                   *)
(*  - the eight jump tests share four operators: (ne, a, b) and (eq, b, a) have the same  *)
(*    raw form; the canonical one is the test with st # 0, or the negated test with       *)
(*    sf = 0 when the raw jt is 0 (golang/go#18470);                                      *)
(*  - LoadAbsolute with an offset at or above 0xfffff000 is the raw form of an extension. *)
(*    (a word load at 0xfffff000 + num is LoadExtension{num}, except num = 1 = ExtLen,     *)
(*    which has its own addressing mode).                                                  *)
(* Canonical(i): i is the representative Dis returns for its raw form.                    *)
IsExtOff(sz, k) == sz = 4 /\ Ge(k, ExtBase) /\ k # Add(ExtBase, FromNat(ExtLenNum))
Canonical(i) ==
    /\ Accepts(i) /\ WellFormed(i)
    /\ i.ty \in {"JumpIf", "JumpIfX"} =>
          IF i.cond \in {0, 2, 4, 6} THEN i.st # 0 ELSE i.sf = 0
    /\ i.ty = "LoadAbsolute" => ~IsExtOff(i.sz, i.k)

(* ---- the decoder determined by Asm and the property -------------------------------- *)
UnCond(jop, jt) ==       \* operator, raw jt -> JumpTest value
    IF jt = 0 THEN (CASE jop = JEQ -> 1 [] jop = JGT -> 5 [] jop = JGE -> 3 [] jop = JSET -> 7)
    ELSE (CASE jop = JEQ -> 0 [] jop = JGT -> 2 [] jop = JGE -> 4 [] jop = JSET -> 6)

Candidate(r) ==          \* decode by bit fields, ignoring everything a type does not encode
    LET cls == r.op % 8
        szb == ((r.op \div 8) % 4) * 8
        mode == ((r.op \div 32) % 8) * 32
        src == ((r.op \div 8) % 2) * 8
        opr == ((r.op \div 16) % 16) * 16
        sz  == CASE szb = 0 -> 4 [] szb = 8 -> 2 [] szb = 16 -> 1 [] OTHER -> 0
        small == r.k[1] = 0 /\ r.k[2] < 16
    IN
    CASE cls \in {LD, LDX} ->
            (CASE mode = IMM -> [T0 EXCEPT !.ty = "LoadConstant", !.r = cls, !.k = r.k]
               [] mode = MEM -> IF small THEN [T0 EXCEPT !.ty = "LoadScratch", !.r = cls, !.n = r.k[2]] ELSE RawT(r)
               [] mode = ABS -> IF IsExtOff(sz, r.k)
                                THEN [T0 EXCEPT !.ty = "LoadExtension", !.num = ToNat(Sub(r.k, ExtBase))]
                                ELSE [T0 EXCEPT !.ty = "LoadAbsolute", !.sz = sz, !.k = r.k]
               [] mode = IND -> [T0 EXCEPT !.ty = "LoadIndirect", !.sz = sz, !.k = r.k]
               [] mode = LEN -> [T0 EXCEPT !.ty = "LoadExtension", !.num = ExtLenNum]
               [] mode = MSH -> [T0 EXCEPT !.ty = "LoadMemShift", !.k = r.k]
               [] OTHER -> RawT(r))
      [] cls \in {ST, STX} -> IF small THEN [T0 EXCEPT !.ty = "StoreScratch", !.r = cls - ST, !.n = r.k[2]] ELSE RawT(r)
      [] cls = ALUc ->
            IF opr = NEG THEN [T0 EXCEPT !.ty = "NegateA"]
            ELSE IF src = SrcX THEN [T0 EXCEPT !.ty = "ALUOpX", !.alu = opr]
            ELSE [T0 EXCEPT !.ty = "ALUOpConstant", !.alu = opr, !.k = r.k]
      [] cls = JMP ->
            IF opr = JA THEN [T0 EXCEPT !.ty = "Jump", !.k = r.k]
            ELSE IF opr \in {JEQ, JGT, JGE, JSET}
            THEN LET c == UnCond(opr, r.jt)
                     st == IF r.jt = 0 THEN r.jf ELSE r.jt
                     sf == IF r.jt = 0 THEN 0 ELSE r.jf
                 IN IF src = SrcX THEN [T0 EXCEPT !.ty = "JumpIfX", !.cond = c, !.st = st, !.sf = sf]
                    ELSE [T0 EXCEPT !.ty = "JumpIf", !.cond = c, !.st = st, !.sf = sf, !.k = r.k]
            ELSE RawT(r)
      [] cls = RET -> IF opr = 16 THEN [T0 EXCEPT !.ty = "RetA"] ELSE [T0 EXCEPT !.ty = "RetConstant", !.k = r.k]
      [] cls = MISC -> IF opr = 128 THEN [T0 EXCEPT !.ty = "TXA"] ELSE [T0 EXCEPT !.ty = "TAX"]

(* Dis(r): the candidate, if it is a typed instruction whose encoding is exactly r. *)
Dis(r) ==
    LET c == Candidate(r) IN
    IF c.ty # "Raw" /\ Accepts(c) /\ Asm(c) = r THEN c ELSE RawT(r)
=============================================================================
