INIT Init
NEXT Next
CONSTANT Lvl = 1
INVARIANTS RoundTripTyped NonCanonicalCollides RoundTripRaw
CHECK_DEADLOCK FALSE
