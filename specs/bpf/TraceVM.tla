------------------------------ MODULE TraceVM ------------------------------
(* C49 trace validation.  One trace = one program:                                   *)
(*   {"e":"prog","prog":[...]}            header: the typed program given to NewVM   *)
(*   {"e":"newvm","ok":b}                 NewVM returned a nil error (b) or not       *)
(*   {"e":"pkt","pkt":[bytes]}            Run is about to be called on this packet    *)
(*   {"e":"run","err":b,"v":[hi,lo]}      what Run returned                           *)
(* (a panic or a hang is logged as {"e":"panic"} / {"e":"hang"}: no step matches).   *)
(* Between "pkt" and "run" the reference machine of BpfVM takes its steps silently    *)
(* (l unchanged); "run" is matched only in a halted state whose verdict is the one    *)
(* logged.                                                                            *)
EXTENDS BpfVM, TraceIO

VARIABLES cur, l, phase
tvars == <<vars, cur, l, phase>>

Line == Trace[l]
mvars == <<pc, A, X, M, halted, verdict>>
Reset == pc' = 1 /\ A' = Zero /\ X' = Zero /\ M' = M0 /\ halted' = FALSE /\ verdict' = Zero

TInit ==
    \E t \in 1..NT :
       LET h == Trace[Meta.starts[t]] IN
       /\ cur = t /\ l = Meta.starts[t] + 1
       /\ h.e = "prog"
       /\ Load(h.prog, <<>>)
       /\ phase = "new"

TNewVM == /\ Line.e = "newvm" /\ phase = "new"
          /\ Line.ok = Accepts(prog)
          /\ phase' = IF Line.ok THEN "idle" ELSE "rejected"
          /\ UNCHANGED vars

TPkt == /\ Line.e = "pkt" /\ phase = "idle"
        /\ pkt' = Line.pkt /\ Reset /\ phase' = "run"
        /\ UNCHANGED prog

TRun == /\ Line.e = "run" /\ phase = "run" /\ halted
        /\ Line.err = FALSE
        /\ Line.v = verdict
        /\ phase' = "idle"
        /\ UNCHANGED vars

TSilent == phase = "run" /\ Next /\ UNCHANGED phase

TNext ==
    /\ l <= Meta.ends[cur]
    /\ cur' = cur
    /\ \/ l' = l + 1 /\ (TNewVM \/ TPkt \/ TRun)
       \/ l' = l /\ TSilent

TSpec == TInit /\ [][TNext]_tvars

Mark == HighWater(cur, l)
Sane == phase = "run" => (TypeOK /\ NeverFallsOff)
=============================================================================
