SPECIFICATION SSpec
CONSTANT Level = 1
INVARIANTS SEmit SMachineOK
CHECK_DEADLOCK FALSE
