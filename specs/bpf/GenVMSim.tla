------------------------------ MODULE GenVMSim ------------------------------
(* C49 random-program generator for TLC -simulate: a program of tgt instructions is    *)
(* built one instruction per step from an alphabet of every instruction type (jumps     *)
(* land inside the program, often exactly on the last instruction; a few choices are    *)
(* deliberately what NewVM has to reject), then the reference machine runs it on the     *)
(* packet chosen initially.  Printed once per behaviour, at the end:                      *)
(*   [prog, pkt, ok, vs]  as in GenVM.                                                   *)
EXTENDS GenVM

VARIABLES phase, tgt
svars == <<vars, phase, tgt>>

S5 == {N(0), N(1), N(3), <<32768, 0>>, <<65535, 65535>>}
S3 == {N(0), N(2), <<65535, 65535>>}
SimPkts == {Pkt(0), Pkt(1), Pkt(3), Pkt(4), Pkt(6), Pkt(8)}

JumpPairs(rest) == {j \in {<<0, 0>>, <<0, 1>>, <<1, 0>>, <<0, rest - 1>>, <<rest - 1, 0>>, <<rest - 1, 1>>} :
                       j[1] >= 0 /\ j[2] >= 0 /\ j[1] < rest /\ j[2] < rest}

Alphabet(rest) ==
    {LdC(r, k) : r \in {0, 1}, k \in S5}
    \cup {LdM(r, n) : r \in {0, 1}, n \in {0, 15}}
    \cup {St(r, n) : r \in {0, 1}, n \in {0, 15}}
    \cup {LdA(N(o), sz) : o \in {0, 1, 3, 5}, sz \in {1, 2, 4}}
    \cup {LdI(k, sz) : k \in {N(0), N(2), <<65535, 65535>>}, sz \in {1, 2, 4}}
    \cup {Msh(N(o)) : o \in {0, 2, 7}}
    \cup {Ext(1), Tax, Txa}
    \cup {AluK(a, k) : a \in ALUs, k \in S5 \ {N(0)}} \cup {AluK(a, N(0)) : a \in ALUs \ {"mod"}}
    \cup {AluX(a) : a \in ALUs}
    \cup {Ja(N(s)) : s \in {0, 1, rest - 1, rest} \cap 0..rest}
    \cup {Jk(c, k, j[1], j[2]) : c \in Conds, k \in S3, j \in JumpPairs(rest)}
    \cup {Jx(c, j[1], j[2]) : c \in Conds, j \in JumpPairs(rest)}

SInit == /\ tgt \in 2..9 /\ phase = "build"
         /\ \E b \in SimPkts : Load(<<>>, b)

Build == /\ phase = "build" /\ Len(prog) < tgt - 1
         /\ \E i \in Alphabet(tgt - Len(prog) - 1) : prog' = Append(prog, i)
         /\ UNCHANGED <<pkt, pc, A, X, M, halted, verdict, phase, tgt>>
Finish == /\ phase = "build" /\ Len(prog) = tgt - 1
          /\ \E i \in {RetA, RetK(N(9))} : prog' = Append(prog, i)
          /\ phase' = "run"
          /\ UNCHANGED <<pkt, pc, A, X, M, halted, verdict, tgt>>
Run == phase = "run" /\ Accepts(prog) /\ Next /\ UNCHANGED <<phase, tgt>>

SNext == Build \/ Finish \/ Run
SSpec == SInit /\ [][SNext]_svars

Done == phase = "run" /\ (halted \/ ~Accepts(prog))
SEmit == Done => PrintT(<<"CASE", ToJson(Item(prog, pkt))>>)
SMachineOK == (phase = "run" /\ Accepts(prog)) => (TypeOK /\ NeverFallsOff /\ VerdictAllowed)
=============================================================================
