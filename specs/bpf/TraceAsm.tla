------------------------------ MODULE TraceAsm ------------------------------
(* C48 trace validation.  One trace = one raw instruction pushed through the real     *)
(* Disassemble and Assemble:                                                           *)
(*   {"e":"dis","raw":{op,jt,jf,k},"ins":{ty,...},"aerr":b,"back":{op,jt,jf,k}}         *)
(* Accepted iff (1) the decoded instruction is the one the bit-field table allows for  *)
(* this raw instruction (BpfAsm!Dis: the typed value whose encoding is exactly raw, or *)
(* Raw when there is none) and (2) when it is a known type, re-assembling it succeeded *)
(* and reproduced raw exactly.                                                         *)
EXTENDS BpfAsm, TraceIO

VARIABLES cur, l
tvars == <<cur, l>>
Line == Trace[l]

TInit == \E t \in 1..NT : cur = t /\ l = Meta.starts[t]

TDis ==
    /\ Line.e = "dis"
    /\ LET r == Line.raw
           d == Dis(r)
       IN  /\ Line.ins = d
           /\ d.ty # "Raw" => (Line.aerr = FALSE /\ Line.back = r)

TNext == /\ l <= Meta.ends[cur] /\ l' = l + 1 /\ cur' = cur /\ TDis
TSpec == TInit /\ [][TNext]_tvars
Mark == HighWater(cur, l)
Init0 == TInit
=============================================================================
