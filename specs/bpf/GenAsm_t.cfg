INIT GInit
NEXT GNext
CONSTANT Lvl = 2
INVARIANTS Emit RoundTripTyped NonCanonicalCollides RoundTripRaw
CHECK_DEADLOCK FALSE
