------------------------------- MODULE MCAsm -------------------------------
(* Model for BpfAsm: the two equations of C48 hold for the pair (Asm, Dis) on every   *)
(* canonical typed value / every raw instruction of a bounded domain, and cannot hold  *)
(* for the accepted non-canonical values (another accepted value shares the raw form). *)
EXTENDS BpfAsm

CONSTANT Lvl              \* 1 = quick domain, 2 = thorough domain

(* ---------------------------------------------------------------------------------- *)
(* Model: the two equations of C48 for the pair (Asm, Dis) over a bounded domain.       *)
(* ---------------------------------------------------------------------------------- *)
KSet == (IF Lvl >= 2 THEN {<<0, 2>>, <<0, 65535>>, <<1, 0>>, <<65535, 65534>>, <<65535, 61445>>, <<65535, 61500>>, <<4660, 22136>>} ELSE {}) \cup
        {Zero, <<0, 1>>, <<0, 15>>, <<0, 16>>, <<32767, 65535>>, <<32768, 0>>,
         <<65535, 61439>>, <<65535, 61440>>, <<65535, 61441>>, <<65535, 61444>>, <<65535, 65535>>}
JSet == IF Lvl >= 2 THEN {0, 1, 2, 5, 128, 254, 255} ELSE {0, 1, 5, 255}

TypedDomain ==
    {[T0 EXCEPT !.ty = "LoadConstant", !.r = r, !.k = k] : r \in 0..2, k \in KSet}
    \cup {[T0 EXCEPT !.ty = t, !.r = r, !.n = n] : t \in {"LoadScratch", "StoreScratch"}, r \in 0..2, n \in {0 - 1, 0, 1, 15, 16}}
    \cup {[T0 EXCEPT !.ty = t, !.sz = sz, !.k = k] : t \in {"LoadAbsolute", "LoadIndirect"}, sz \in 0..5, k \in KSet}
    \cup {[T0 EXCEPT !.ty = "LoadMemShift", !.k = k] : k \in KSet}
    \cup {[T0 EXCEPT !.ty = "LoadExtension", !.num = n] : n \in {0 - 4096, 0 - 1, 0, 1, 4, 56, 60, 4095, 4096, 4097}}
    \cup {[T0 EXCEPT !.ty = "ALUOpConstant", !.alu = a, !.k = k] : a \in ALUOps \cup {NEG, 176, 8, 1, 256}, k \in KSet}
    \cup {[T0 EXCEPT !.ty = "ALUOpX", !.alu = a] : a \in ALUOps \cup {NEG, 176, 8, 1, 256}}
    \cup {[T0 EXCEPT !.ty = t] : t \in {"NegateA", "RetA", "TAX", "TXA"}}
    \cup {[T0 EXCEPT !.ty = t, !.k = k] : t \in {"Jump", "RetConstant"}, k \in KSet}
    \cup {[T0 EXCEPT !.ty = "JumpIf", !.cond = c, !.st = a, !.sf = b, !.k = k] :
             c \in 0..8, a \in JSet, b \in JSet, k \in {Zero, <<65535, 65535>>}}
    \cup {[T0 EXCEPT !.ty = "JumpIfX", !.cond = c, !.st = a, !.sf = b] : c \in 0..8, a \in JSet, b \in JSet}

VARIABLE c
vars == <<c>>
Init == c \in TypedDomain \cup [op : (IF Lvl >= 2 THEN 0..1023 ELSE 0..255) \cup {256, 32768 + 32, 65280 + 135}, jt : {0, 5}, jf : {0, 7},
                                k : {Zero, <<0, 15>>, <<0, 16>>, <<65535, 61440>>, <<65535, 61441>>}]
Next == UNCHANGED c

IsTyped(x) == "ty" \in DOMAIN x

(* C48, first half, for the spec pair: every canonical typed value round-trips *)
RoundTripTyped == (IsTyped(c) /\ Canonical(c)) => Dis(Asm(c)) = c
(* outside Canonical the first half cannot hold for any decoder: another accepted value has the same raw form *)
NonCanonicalCollides ==
    (IsTyped(c) /\ Accepts(c) /\ WellFormed(c) /\ ~Canonical(c)) =>
        LET d == Dis(Asm(c)) IN d.ty # "Raw" /\ d # c /\ Canonical(d) /\ Asm(d) = Asm(c)
(* C48, second half: whatever Dis decodes re-assembles to the same raw instruction *)
RoundTripRaw == ~IsTyped(c) => LET d == Dis(c) IN (d.ty = "Raw" /\ d = RawT(c)) \/ (Canonical(d) /\ Asm(d) = c)
=============================================================================
