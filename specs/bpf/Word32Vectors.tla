--------------------------- MODULE Word32Vectors -----------------------------
(* Self-test of Word32 in TLC: known values computed independently (python big     *)
(* integers; columns a, b, a+b, a-b, a*b, a/b, a%b, a&b, a|b, a^b, a<<b, a>>b with  *)
(* /,% = 0 for b = 0) and algebraic identities.  Vectors: word32_vectors.json.    *)
EXTENDS Word32, TLC, Json

Vectors == JsonDeserialize("word32_vectors.json")

KnownAt(i) ==
    LET v == Vectors[i]  a == v[1]  b == v[2] IN
    /\ Add(a, b) = v[3] /\ Sub(a, b) = v[4] /\ Mul(a, b) = v[5]
    /\ (IsZero(b) \/ (Div(a, b) = v[6] /\ Mod(a, b) = v[7]))
    /\ And(a, b) = v[8] /\ Or(a, b) = v[9] /\ Xor(a, b) = v[10]
    /\ Shl(a, b) = v[11] /\ Shr(a, b) = v[12]

IdentAt(i) ==
    LET v == Vectors[i]  a == v[1]  b == v[2] IN
    /\ IsWord(Add(a, b)) /\ IsWord(Mul(a, b)) /\ IsWord(Sub(a, b))
    /\ Add(Sub(a, b), b) = a
    /\ Add(a, b) = Add(b, a) /\ Mul(a, b) = Mul(b, a)
    /\ Neg(Neg(a)) = a /\ Add(a, Neg(a)) = Zero
    /\ Xor(Xor(a, b), b) = a
    /\ Or(a, b) = Add(Xor(a, b), And(a, b))
    /\ (IsZero(b) \/ (Add(Mul(Div(a, b), b), Mod(a, b)) = a /\ Lt(Mod(a, b), b)))
    /\ (Lt(a, b) \/ Eq(a, b) \/ Gt(a, b))
    /\ (FitsNat(a) => FromNat(ToNat(a)) = a)
    /\ Shl(a, One) = Add(a, a) /\ Shl(a, W(0, 32)) = Zero /\ Shr(a, W(1, 0)) = Zero
    /\ Shr(a, W(0, 31)) = W(0, a[1] \div 32768)
=============================================================================
