------------------------------- MODULE GenVM -------------------------------
(* C49 generator: programs x packets with the outcome the reference predicts.       *)
(*  - bfs (GenVM.cfg): template programs covering every instruction type, the        *)
(*    boundary constants, jumps onto the last instruction and one past it, scratch   *)
(*    slots 0 and 15, packets of length 0..8 around every load width, and the         *)
(*    programs NewVM has to reject.  Every case is also run through the state         *)
(*    machine (VerdictAllowed ties the machine to the Verdicts function).             *)
(*  - simulate (GenVMSim.cfg): random straight-line/branching programs built          *)
(*    instruction by instruction, then run.                                           *)
(* Item: [prog, pkt, ok, vs]  ok = NewVM accepts; vs = set of allowed verdicts.       *)
EXTENDS BpfVM, Word32Vectors

CONSTANT Level            \* 1 = quick domain, 2 = thorough domain (more operand pairs, offsets, packets)

(* the ALU is re-validated against the known vectors whenever the generator runs *)
ASSUME \A i \in 1..300 : KnownAt(i) /\ IdentAt(i)

I0 == Ins("", 0, 0, 0, "", "", 0, 0, Zero)
LdC(r, k)   == [I0 EXCEPT !.op = "ldc", !.r = r, !.k = k]
LdM(r, n)   == [I0 EXCEPT !.op = "ldm", !.r = r, !.n = n]
LdA(k, sz)  == [I0 EXCEPT !.op = "lda", !.k = k, !.sz = sz]
LdI(k, sz)  == [I0 EXCEPT !.op = "ldi", !.k = k, !.sz = sz]
Msh(k)      == [I0 EXCEPT !.op = "msh", !.k = k]
Ext(n)      == [I0 EXCEPT !.op = "ext", !.n = n]
St(r, n)    == [I0 EXCEPT !.op = "st", !.r = r, !.n = n]
AluK(a, k)  == [I0 EXCEPT !.op = "aluk", !.alu = a, !.k = k]
AluX(a)     == [I0 EXCEPT !.op = "alux", !.alu = a]
Ja(k)       == [I0 EXCEPT !.op = "ja", !.k = k]
Jk(c, k, jt, jf) == [I0 EXCEPT !.op = "jk", !.cond = c, !.k = k, !.jt = jt, !.jf = jf]
Jx(c, jt, jf)    == [I0 EXCEPT !.op = "jx", !.cond = c, !.jt = jt, !.jf = jf]
RetA        == [I0 EXCEPT !.op = "reta"]
RetK(k)     == [I0 EXCEPT !.op = "retk", !.k = k]
Tax         == [I0 EXCEPT !.op = "tax"]
Txa         == [I0 EXCEPT !.op = "txa"]

N(n) == FromNat(n)
B7 == {N(0), N(1), N(31), N(32), <<32767, 65535>>, <<32768, 0>>, <<65535, 65535>>}
B9 == IF Level >= 2 THEN B7 \cup {N(2), N(33), N(65535), <<1, 0>>, <<4660, 22136>>, <<65535, 65534>>} ELSE B7
B5 == IF Level >= 2 THEN B7 \cup {N(2), <<65535, 65534>>, <<32768, 1>>}
      ELSE {N(0), N(1), <<32767, 65535>>, <<32768, 0>>, <<65535, 65535>>}
BigOff == {<<32767, 65535>>, <<32768, 0>>, <<65535, 65535>>, <<65535, 61440>>, <<1, 0>>}

PktBytes == <<129, 146, 163, 180, 197, 214, 231, 248>>
Pkt(len) == [i \in 1..len |-> PktBytes[i]]
Pkts == {Pkt(len) : len \in 0..8}
Tails == {<<RetA>>, <<RetK(N(9))>>}

C(p, b) == [prog |-> p, pkt |-> b]

TAlu ==
    {C(<<LdC(0, a), AluK(alu, b), RetA>>, Pkt(0)) : alu \in ALUs, a \in B9, b \in B9}
    \cup {C(<<LdC(0, a), LdC(1, b), AluX(alu), RetA>>, Pkt(0)) : alu \in ALUs, a \in B9, b \in B9}
    \cup {C(<<LdC(1, N(0)), LdC(0, N(7)), AluX(alu), RetK(N(9))>>, Pkt(0)) : alu \in ALUs}

JPairs == {<<0, 1>>, <<1, 0>>, <<2, 0>>, <<0, 2>>, <<2, 2>>, <<3, 0>>, <<0, 3>>, <<1, 3>>, <<255, 0>>}
JTail == <<RetK(N(10)), RetK(N(11)), RetK(N(12))>>
TJmp ==
    (* every test on every ordered pair of boundary words ... *)
    {C(<<LdC(0, a), Jk(c, b, 0, 1)>> \o JTail, Pkt(0)) : c \in Conds, a \in B5, b \in B5}
    \cup {C(<<LdC(0, a), LdC(1, b), Jx(c, 0, 1)>> \o JTail, Pkt(0)) : c \in Conds, a \in B5, b \in B5}
    (* ... and every skip pair (onto the last instruction, one past it, far) for a true and a false test *)
    \cup {C(<<LdC(0, a), Jk(c, N(1), j[1], j[2])>> \o JTail, Pkt(0)) : c \in Conds, a \in {N(1), N(2)}, j \in JPairs}
    \cup {C(<<LdC(0, a), LdC(1, N(1)), Jx(c, j[1], j[2])>> \o JTail, Pkt(0)) : c \in Conds, a \in {N(1), N(2)}, j \in JPairs}
    \cup {C(<<Ja(k), RetK(N(10)), RetK(N(11)), RetK(N(12))>>, Pkt(0)) :
         k \in {N(0), N(1), N(2), N(3), N(4), <<1, 0>>, <<1, 1>>, <<32768, 0>>, <<65535, 65535>>}}

TLoad ==
    {C(<<LdA(k, sz)>> \o t, b) : k \in {N(o) : o \in 0..8} \cup BigOff, sz \in {1, 2, 4}, t \in Tails, b \in Pkts}
    \cup {C(<<LdC(1, x), LdI(k, sz)>> \o t, b) :
            x \in {N(0), N(1), N(3), <<65535, 65535>>, <<65535, 65534>>},
            k \in {N(0), N(1), N(2), N(5), <<65535, 65535>>}, sz \in {1, 2, 4}, t \in Tails,
            b \in IF Level >= 2 THEN Pkts ELSE {Pkt(len) : len \in {0, 1, 2, 4, 5, 8}}}
    \cup {C(<<Msh(k), Txa>> \o t, b) : k \in {N(o) : o \in 0..8} \cup BigOff, t \in Tails, b \in Pkts}
    \cup {C(<<Ext(1), RetA>>, b) : b \in Pkts}
    \cup {C(<<Ext(n), RetA>>, Pkt(2)) : n \in {0, 4, 56, 60, 4096}}

TScratch ==
    {C(<<LdC(0, a), St(0, n), LdM(1, n), LdC(0, N(0)), Txa, RetA>>, Pkt(0)) : a \in B7, n \in {0, 7, 15}}
    \cup {C(<<LdC(1, a), St(1, n), LdM(0, n), RetA>>, Pkt(0)) : a \in B7, n \in {0, 7, 15}}
    \cup {C(<<LdC(0, N(5)), LdM(r, n), Tax, RetA>>, Pkt(0)) : r \in {0, 1}, n \in {0, 15}}      \* fresh scratch is 0
    \cup {C(<<LdC(0, N(5)), St(0, n), LdC(0, N(6)), St(0, m), LdM(0, n), RetA>>, Pkt(0)) :
            n \in {0, 1, 14, 15}, m \in {0, 1, 14, 15}}
    \cup {C(<<LdC(0, N(5)), St(r, n), RetA>>, Pkt(0)) : r \in {0, 1, 2}, n \in {0 - 1, 0, 15, 16}}
    \cup {C(<<LdM(r, n), RetA>>, Pkt(0)) : r \in {0, 1, 2}, n \in {0 - 1, 0, 15, 16}}

TMisc ==
    {C(<<RetK(k)>>, Pkt(1)) : k \in B7}
    \cup {C(<<LdC(0, k), RetA>>, Pkt(1)) : k \in B7}
    \cup {C(<<LdC(r, k), Txa, RetA>>, Pkt(0)) : r \in {0, 1, 2}, k \in B5}
    \cup {C(<<LdC(0, a), Tax, LdC(0, N(0)), Txa, RetA>>, Pkt(0)) : a \in B5}
    \cup {C(<<>>, Pkt(0)), C(<<LdC(0, N(1))>>, Pkt(0)), C(<<RetA, Tax>>, Pkt(0)), C(<<RetK(N(1)), RetA>>, Pkt(0))}
    \cup {C(<<LdA(N(0), sz), RetA>>, Pkt(8)) : sz \in {0, 3, 8}}
    \cup {C(<<LdI(N(0), sz), RetA>>, Pkt(8)) : sz \in {0, 3, 8}}
    \cup {C(<<Jk("bad", N(0), 0, 0), RetA>>, Pkt(0)), C(<<Jx("bad", 0, 0), RetA>>, Pkt(0))}

(* ---- long programs: the size dimension.  Jump.Skip is a 32-bit value (the K field of   *)
(* `ja`), conditional skips are 8-bit: offsets of 255, 256, 257, 2^8+k, 511, 512, 1000     *)
(* over a filler body of side-effecting instructions (A += 1, M[3] := A, X := 7 in turn),    *)
(* followed by a tail that exposes A, X and M[3], so that a run that lands anywhere but      *)
(* pc + 1 + Skip, or executes filler it jumped over, changes the verdict.                    *)
FillIns(i) == CASE i % 3 = 1 -> AluK("add", N(1)) [] i % 3 = 2 -> St(0, 3) [] OTHER -> LdC(1, N(7))
Filler(n) == [i \in 1..n |-> FillIns(i)]
LTail == <<AluK("add", N(1000)), AluX("add"), LdM(1, 3), AluX("add"), RetA>>
LongN == IF Level >= 2 THEN {1, 255, 256, 257, 300, 511, 512, 515, 1000} ELSE {255, 256, 257, 300, 515}
(* skip classes for a body of n filler instructions and a tail of 5: the whole body, all but *)
(* its last instruction, into the tail, exactly the last instruction, one past the end       *)
(* (NewVM has to reject), and a short skip that runs most of a long body                      *)
LongSkips(n) == {n, n - 1, n + 1, n + 4, n + 5} \cup (IF n = 255 \/ (Level >= 2 /\ n <= 300) THEN {1} ELSE {})
(* <<SkipTrue, SkipFalse, A>> with A = 1 making `eq 1` true: the long skip is the one taken *)
LongCond == {<<255, 0, N(1)>>, <<0, 255, N(2)>>, <<255, 254, N(1)>>, <<255, 254, N(2)>>, <<254, 255, N(2)>>}
TLong ==
    UNION {{C(<<LdC(0, N(5)), Ja(N(k))>> \o Filler(n) \o LTail, Pkt(0)) : k \in LongSkips(n)} : n \in LongN}
    (* conditional jumps with 8-bit skips of 255 / 254 across a long body, taken and not taken; *)
    (* with the bare RetA tail 255 lands exactly on the last instruction (n = 255) or one past   *)
    (* the end (n = 254)                                                                          *)
    \cup {C(<<LdC(0, j[3]), Jk("eq", N(1), j[1], j[2])>> \o Filler(n) \o t, Pkt(0)) :
            j \in LongCond, n \in {254, 255, 256}, t \in {LTail, <<RetA>>}}
    \cup {C(<<LdC(0, j[3]), LdC(1, N(1)), Jx("eq", j[1], j[2])>> \o Filler(n) \o <<RetA>>, Pkt(0)) :
            j \in LongCond, n \in {254, 255}}
    \cup {C(<<LdC(0, N(2)), Jk("eq", N(1), 255, 0)>> \o Filler(255) \o LTail, Pkt(0))}     \* not taken: runs the whole body

Cases == TAlu \cup TJmp \cup TLoad \cup TScratch \cup TMisc \cup TLong

Item(p, b) ==
    LET ok == Accepts(p) IN
    [prog |-> p, pkt |-> b, ok |-> ok, vs |-> IF ok THEN Verdicts(p, b) ELSE {}]

(* ---------------- bfs: enumerate the templates, run each on the machine ---------------- *)
GInit == \E c \in Cases : Load(c.prog, c.pkt)
GNext == Accepts(prog) /\ Next
GSpec == GInit /\ [][GNext]_vars

Emit == (pc = 1 /\ ~halted) => PrintT(<<"CASE", ToJson(Item(prog, pkt))>>)
MachineOK == Accepts(prog) => (TypeOK /\ NeverFallsOff /\ VerdictAllowed)
=============================================================================
