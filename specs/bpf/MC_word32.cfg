INIT Init
NEXT Next
CONSTANT NVec = 450
INVARIANTS KnownValues Identities
CHECK_DEADLOCK FALSE
