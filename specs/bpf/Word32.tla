------------------------------- MODULE Word32 -------------------------------
(* Unsigned 32-bit words for TLC (whose integers stop at 2^31-1).                  *)
(* A word is a pair <<hi, lo>> of 16-bit limbs: value = hi * 2^16 + lo.            *)
(* All operators are total on Word and return a Word (arithmetic modulo 2^32).     *)
(* No intermediate value exceeds 2^31-1: additions work on limbs (< 2^18),          *)
(* multiplication on bytes (column sums < 2^19), division is restoring division.   *)
EXTENDS Integers, Sequences

L16 == 65536
Limb == 0..(L16 - 1)
Word == Limb \X Limb

W(hi, lo) == <<hi, lo>>
Zero == <<0, 0>>
One  == <<0, 1>>
MaxW == <<65535, 65535>>

IsWord(w) == /\ DOMAIN w = 1..2 /\ w[1] \in Limb /\ w[2] \in Limb

(* small naturals (< 2^31) <-> words *)
FromNat(n) == <<n \div L16, n % L16>>
FitsNat(w) == w[1] < 32768
ToNat(w)   == w[1] * L16 + w[2]                 \* only if FitsNat(w)

Eq(a, b) == a[1] = b[1] /\ a[2] = b[2]
Lt(a, b) == a[1] < b[1] \/ (a[1] = b[1] /\ a[2] < b[2])
Le(a, b) == ~Lt(b, a)
Gt(a, b) == Lt(b, a)
Ge(a, b) == ~Lt(a, b)
IsZero(a) == a[1] = 0 /\ a[2] = 0

(* ---- addition / subtraction --------------------------------------------- *)
AddCarry(a, b) ==                               \* <<carry out, sum>>
    LET lo == a[2] + b[2]
        hi == a[1] + b[1] + (lo \div L16)
    IN  <<hi \div L16, <<hi % L16, lo % L16>> >>
Add(a, b) == AddCarry(a, b)[2]
Not(a)    == <<65535 - a[1], 65535 - a[2]>>
Neg(a)    == Add(Not(a), One)
Sub(a, b) == Add(a, Neg(b))

(* ---- multiplication (bytes, least significant first) -------------------- *)
Bytes(a) == <<a[2] % 256, a[2] \div 256, a[1] % 256, a[1] \div 256>>
Mul(a, b) ==
    LET x  == Bytes(a)
        y  == Bytes(b)
        c1 == x[1] * y[1]
        c2 == x[1] * y[2] + x[2] * y[1]
        c3 == x[1] * y[3] + x[2] * y[2] + x[3] * y[1]
        c4 == x[1] * y[4] + x[2] * y[3] + x[3] * y[2] + x[4] * y[1]
        t2 == c2 + (c1 \div 256)
        t3 == c3 + (t2 \div 256)
        t4 == c4 + (t3 \div 256)
    IN  <<(t4 % 256) * 256 + (t3 % 256), (t2 % 256) * 256 + (c1 % 256)>>

(* ---- shifts (amount is a natural number) -------------------------------- *)
Pow2(n) == 2 ^ n                                 \* n <= 16 wherever used
ShlN(a, n) ==
    IF n >= 32 THEN Zero
    ELSE IF n >= 16 THEN <<(a[2] * Pow2(n - 16)) % L16, 0>>
    ELSE <<(a[1] * Pow2(n) + (a[2] \div Pow2(16 - n))) % L16, (a[2] * Pow2(n)) % L16>>
ShrN(a, n) ==
    IF n >= 32 THEN Zero
    ELSE IF n >= 16 THEN <<0, a[1] \div Pow2(n - 16)>>
    ELSE <<a[1] \div Pow2(n), ((a[1] % Pow2(n)) * Pow2(16 - n)) + (a[2] \div Pow2(n))>>
(* shift amount given as a word: 32 or more (in particular anything >= 2^16) gives 0 *)
Shl(a, s) == IF s[1] # 0 \/ s[2] >= 32 THEN Zero ELSE ShlN(a, s[2])
Shr(a, s) == IF s[1] # 0 \/ s[2] >= 32 THEN Zero ELSE ShrN(a, s[2])

(* ---- bitwise ------------------------------------------------------------- *)
RECURSIVE BitsAnd(_, _, _), BitsOr(_, _, _), BitsXor(_, _, _)
BitsAnd(x, y, n) == IF n = 0 THEN 0 ELSE ((x % 2) * (y % 2)) + 2 * BitsAnd(x \div 2, y \div 2, n - 1)
BitsOr(x, y, n)  == IF n = 0 THEN 0
                    ELSE (IF (x % 2) + (y % 2) > 0 THEN 1 ELSE 0) + 2 * BitsOr(x \div 2, y \div 2, n - 1)
BitsXor(x, y, n) == IF n = 0 THEN 0 ELSE (((x % 2) + (y % 2)) % 2) + 2 * BitsXor(x \div 2, y \div 2, n - 1)
And(a, b) == <<BitsAnd(a[1], b[1], 16), BitsAnd(a[2], b[2], 16)>>
Or(a, b)  == <<BitsOr(a[1], b[1], 16),  BitsOr(a[2], b[2], 16)>>
Xor(a, b) == <<BitsXor(a[1], b[1], 16), BitsXor(a[2], b[2], 16)>>

(* ---- division (restoring, 32 steps; divisor # 0) ------------------------ *)
Bit(a, i) == IF i >= 16 THEN (a[1] \div Pow2(i - 16)) % 2 ELSE (a[2] \div Pow2(i)) % 2
SetBit(q, i) == IF i >= 16 THEN <<q[1] + Pow2(i - 16), q[2]>> ELSE <<q[1], q[2] + Pow2(i)>>
RECURSIVE DivStep(_, _, _, _, _)
(* invariant: r < b; processes bits i-1 .. 0 of a; returns <<quotient, remainder>> *)
DivStep(a, b, i, q, r) ==
    IF i = 0 THEN <<q, r>>
    ELSE LET top == r[1] \div 32768                           \* bit shifted out of r
             r2  == <<(r[1] % 32768) * 2 + (r[2] \div 32768), (r[2] % 32768) * 2 + Bit(a, i - 1)>>
         IN  IF top = 1 \/ Ge(r2, b)
             THEN DivStep(a, b, i - 1, SetBit(q, i - 1), Sub(r2, b))
             ELSE DivStep(a, b, i - 1, q, r2)
DivMod(a, b) == DivStep(a, b, 32, Zero, Zero)
Div(a, b) == DivMod(a, b)[1]
Mod(a, b) == DivMod(a, b)[2]

(* ---- big-endian byte sequences ------------------------------------------ *)
FromBE1(b1) == <<0, b1>>
FromBE2(b1, b2) == <<0, b1 * 256 + b2>>
FromBE4(b1, b2, b3, b4) == <<b1 * 256 + b2, b3 * 256 + b4>>
=============================================================================
