INIT Init
NEXT Next
CONSTANT Lvl = 2
INVARIANTS RoundTripTyped NonCanonicalCollides RoundTripRaw
CHECK_DEADLOCK FALSE
