------------------------------- MODULE BpfVM -------------------------------
(* Reference classic-BPF interpreter (property C49) as a state machine.            *)
(*                                                                                  *)
(* A program is a sequence of typed instructions (records, all fields always        *)
(* present so that Go <-> JSON <-> TLA+ is uniform):                                *)
(*   op   "ldc" LoadConstant  "ldm" LoadScratch  "lda" LoadAbsolute "ldi" LoadIndirect*)
(*        "msh" LoadMemShift  "ext" LoadExtension "st" StoreScratch                  *)
(*        "aluk" ALUOpConstant "alux" ALUOpX  "ja" Jump  "jk" JumpIf  "jx" JumpIfX   *)
(*        "reta" RetA  "retk" RetConstant  "tax" TAX  "txa" TXA                      *)
(*   r    register (0 = A, 1 = X) for ldc/ldm/st                                    *)
(*   n    scratch slot (ldm/st) or extension number (ext; 1 = packet length)        *)
(*   sz   load size in bytes (lda/ldi)                                              *)
(*   alu  "add" "sub" "mul" "div" "or" "and" "lsh" "rsh" "mod" "xor"                 *)
(*   cond "eq" "ne" "gt" "lt" "ge" "le" "set" "nset"                                 *)
(*   jt, jf  skip counts of conditional jumps                                        *)
(*   k    32-bit constant / offset / skip as a Word32 word <<hi, lo>>               *)
(* Semantics exactly as C49 states them: 32-bit unsigned wrap-around arithmetic,     *)
(* shifts by 32 or more give 0, big-endian packet loads, forward jumps, an           *)
(* out-of-bounds load or a division/modulo by a zero X ends the run with verdict 0.  *)
(* NegateA is outside the property (Run does not implement it) and not modelled.     *)
EXTENDS Word32, TLC

ALUs  == {"add", "sub", "mul", "div", "or", "and", "lsh", "rsh", "mod", "xor"}
Conds == {"eq", "ne", "gt", "lt", "ge", "le", "set", "nset"}
Ops   == {"ldc", "ldm", "lda", "ldi", "msh", "ext", "st", "aluk", "alux", "ja", "jk", "jx",
          "reta", "retk", "tax", "txa"}
ExtLen == 1
Slots == 0..15

Ins(op, r, n, sz, alu, cond, jt, jf, k) ==
    [op |-> op, r |-> r, n |-> n, sz |-> sz, alu |-> alu, cond |-> cond, jt |-> jt, jf |-> jf, k |-> k]

(* ------------------------------------------------------------------------ *)
(* What NewVM must accept: exactly the programs on which the reference is    *)
(* defined (every jump lands inside the program, no constant division by     *)
(* zero, only the packet-length extension, last instruction returns) and      *)
(* that assemble (registers, scratch slots, load sizes, jump tests valid).    *)
(* ------------------------------------------------------------------------ *)
Assembles(i) ==
    /\ i.op \in Ops
    /\ i.op \in {"ldc", "ldm", "st"} => i.r \in {0, 1}
    /\ i.op \in {"ldm", "st"} => i.n \in Slots
    /\ i.op \in {"lda", "ldi"} => i.sz \in {1, 2, 4}
    /\ i.op \in {"aluk", "alux"} => i.alu \in ALUs
    /\ i.op \in {"jk", "jx"} => i.cond \in Conds

InsOK(prog, p) ==
    LET i == prog[p]
        rest == Len(prog) - p                  \* instructions after this one
    IN  /\ Assembles(i)
        /\ i.op = "ja" => (i.k[1] = 0 /\ i.k[2] < rest)
        /\ i.op \in {"jk", "jx"} => (i.jt < rest /\ i.jf < rest)
        /\ (i.op = "aluk" /\ i.alu \in {"div", "mod"}) => ~IsZero(i.k)
        /\ i.op = "ext" => i.n = ExtLen

Accepts(prog) ==
    /\ Len(prog) >= 1
    /\ \A p \in 1..Len(prog) : InsOK(prog, p)
    /\ prog[Len(prog)].op \in {"reta", "retk"}

(* ------------------------------------------------------------------------ *)
(* One step of the machine as a function on machine records.                 *)
(* m = [pc, A, X, M, halt, v]; Exec returns the SET of allowed successors    *)
(* (a singleton except where the property text leaves the outcome open).     *)
(* ------------------------------------------------------------------------ *)
M0 == [s \in Slots |-> Zero]
Start == [pc |-> 1, A |-> Zero, X |-> Zero, M |-> M0, halt |-> FALSE, v |-> Zero]

Halt(m, w) == [m EXCEPT !.halt = TRUE, !.v = w]
Adv(m, d)  == [m EXCEPT !.pc = m.pc + 1 + d]

ALU(alu, a, b) ==
    CASE alu = "add" -> Add(a, b)
      [] alu = "sub" -> Sub(a, b)
      [] alu = "mul" -> Mul(a, b)
      [] alu = "div" -> Div(a, b)
      [] alu = "mod" -> Mod(a, b)
      [] alu = "or"  -> Or(a, b)
      [] alu = "and" -> And(a, b)
      [] alu = "xor" -> Xor(a, b)
      [] alu = "lsh" -> Shl(a, b)
      [] alu = "rsh" -> Shr(a, b)

Test(cond, a, b) ==
    CASE cond = "eq"   -> Eq(a, b)
      [] cond = "ne"   -> ~Eq(a, b)
      [] cond = "gt"   -> Gt(a, b)
      [] cond = "lt"   -> Lt(a, b)
      [] cond = "ge"   -> Ge(a, b)
      [] cond = "le"   -> Le(a, b)
      [] cond = "set"  -> ~IsZero(And(a, b))
      [] cond = "nset" -> IsZero(And(a, b))

(* packet: sequence of bytes, offsets from 0.  off is a word. *)
InBounds(pkt, off, sz) == off[1] = 0 /\ off[2] + sz <= Len(pkt)
LoadBE(pkt, o, sz) ==
    CASE sz = 1 -> FromBE1(pkt[o + 1])
      [] sz = 2 -> FromBE2(pkt[o + 1], pkt[o + 2])
      [] sz = 4 -> FromBE4(pkt[o + 1], pkt[o + 2], pkt[o + 3], pkt[o + 4])

(* a load of sz bytes at word offset off into A (or an early verdict 0) *)
LoadA(m, pkt, off, sz) ==
    IF InBounds(pkt, off, sz) THEN Adv([m EXCEPT !.A = LoadBE(pkt, off[2], sz)], 0) ELSE Halt(m, Zero)

Exec(m, i, pkt) ==
    CASE i.op = "ldc"  -> {Adv(IF i.r = 0 THEN [m EXCEPT !.A = i.k] ELSE [m EXCEPT !.X = i.k], 0)}
      [] i.op = "ldm"  -> {Adv(IF i.r = 0 THEN [m EXCEPT !.A = m.M[i.n]] ELSE [m EXCEPT !.X = m.M[i.n]], 0)}
      [] i.op = "st"   -> {Adv([m EXCEPT !.M[i.n] = IF i.r = 0 THEN m.A ELSE m.X], 0)}
      [] i.op = "lda"  -> {LoadA(m, pkt, i.k, i.sz)}
      [] i.op = "ldi"  ->
            (* offset X + k.  The property does not say whether this sum wraps at 2^32 *)
            (* ("32-bit unsigned arithmetic") or is out of bounds: both are allowed.     *)
            LET s == AddCarry(m.X, i.k) IN
            IF s[1] = 0 THEN {LoadA(m, pkt, s[2], i.sz)}
            ELSE {LoadA(m, pkt, s[2], i.sz), Halt(m, Zero)}
      [] i.op = "msh"  ->
            IF InBounds(pkt, i.k, 1)
            THEN {Adv([m EXCEPT !.X = <<0, (pkt[i.k[2] + 1] % 16) * 4>>], 0)}
            ELSE {Halt(m, Zero)}
      [] i.op = "ext"  -> {Adv([m EXCEPT !.A = FromNat(Len(pkt))], 0)}
      [] i.op = "aluk" -> {Adv([m EXCEPT !.A = ALU(i.alu, m.A, i.k)], 0)}
      [] i.op = "alux" ->
            IF i.alu \in {"div", "mod"} /\ IsZero(m.X) THEN {Halt(m, Zero)}
            ELSE {Adv([m EXCEPT !.A = ALU(i.alu, m.A, m.X)], 0)}
      [] i.op = "ja"   -> {Adv(m, i.k[2])}
      [] i.op = "jk"   -> {Adv(m, IF Test(i.cond, m.A, i.k) THEN i.jt ELSE i.jf)}
      [] i.op = "jx"   -> {Adv(m, IF Test(i.cond, m.A, m.X) THEN i.jt ELSE i.jf)}
      [] i.op = "reta" -> {Halt(m, m.A)}
      [] i.op = "retk" -> {Halt(m, i.k)}
      [] i.op = "tax"  -> {Adv([m EXCEPT !.X = m.A], 0)}
      [] i.op = "txa"  -> {Adv([m EXCEPT !.A = m.X], 0)}

(* all verdicts the reference allows for an accepted program on a packet *)
RECURSIVE VerdictsFrom(_, _, _)
VerdictsFrom(m, prog, pkt) ==
    IF m.halt THEN {m.v}
    ELSE UNION {VerdictsFrom(t, prog, pkt) : t \in Exec(m, prog[m.pc], pkt)}
Verdicts(prog, pkt) == VerdictsFrom(Start, prog, pkt)

(* ------------------------------------------------------------------------ *)
(* The state machine                                                          *)
(* ------------------------------------------------------------------------ *)
VARIABLES prog, pkt, pc, A, X, M, halted, verdict
vars == <<prog, pkt, pc, A, X, M, halted, verdict>>

Cur == [pc |-> pc, A |-> A, X |-> X, M |-> M, halt |-> halted, v |-> verdict]
Become(m) == /\ pc' = m.pc /\ A' = m.A /\ X' = m.X /\ M' = m.M /\ halted' = m.halt /\ verdict' = m.v

Load(p, b) == /\ prog = p /\ pkt = b /\ pc = 1 /\ A = Zero /\ X = Zero /\ M = M0
              /\ halted = FALSE /\ verdict = Zero

Step == /\ ~halted
        /\ \E m \in Exec(Cur, prog[pc], pkt) : Become(m)
        /\ UNCHANGED <<prog, pkt>>

(* one action per instruction class (same relation as Step, split for coverage) *)
StepClass(C) == prog[pc].op \in C /\ Step
StepLoad  == StepClass({"ldc", "ldm", "lda", "ldi", "msh", "ext"})
StepStore == StepClass({"st"})
StepALU   == StepClass({"aluk", "alux"})
StepJump  == StepClass({"ja", "jk", "jx"})
StepRet   == StepClass({"reta", "retk"})
StepMisc  == StepClass({"tax", "txa"})
Next == StepLoad \/ StepStore \/ StepALU \/ StepJump \/ StepRet \/ StepMisc

(* properties of the machine on accepted programs *)
TypeOK ==
    /\ pc \in 1..Len(prog) + 1
    /\ IsWord(A) /\ IsWord(X) /\ IsWord(verdict)
    /\ \A s \in Slots : IsWord(M[s])
    /\ halted \in BOOLEAN
NeverFallsOff == ~halted => pc <= Len(prog)          \* Accepts is enough for the run to be defined
Forward == [][pc' > pc \/ (halted' /\ pc' = pc)]_vars  \* jumps are forward: termination within Len(prog) steps
VerdictAllowed == halted => verdict \in Verdicts(prog, pkt)
=============================================================================
