SPECIFICATION GSpec
CONSTANT Level = 2
INVARIANTS Emit MachineOK
PROPERTY Forward
CHECK_DEADLOCK FALSE
