SPECIFICATION GSpec
CONSTANTS Lvl = 2
 StrictMethod = TRUE
INVARIANTS Sane Emit
CHECK_DEADLOCK FALSE
