SPECIFICATION GSpec
CONSTANTS Lvl = 1
 StrictMethod = TRUE
INVARIANTS Sane Emit
CHECK_DEADLOCK FALSE
