SPECIFICATION TSpec
CONSTANT StrictMethod = TRUE
CONSTRAINT Mark
POSTCONDITION AllConsumed
CHECK_DEADLOCK FALSE
