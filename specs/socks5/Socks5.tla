------------------------------- MODULE Socks5 -------------------------------
(* C54: what a SOCKS5 client (golang.org/x/net/proxy.SOCKS5 -> internal/socks) has to     *)
(* put on the wire and what it has to return, per RFC 1928 (protocol) and RFC 1929         *)
(* (username/password sub-negotiation).  Transcription of the RFC message layouts, not of  *)
(* the code:                                                                              *)
(*   greeting            VER=5 NMETHODS METHODS...                       (RFC 1928 s.3)     *)
(*   method selection    VER=5 METHOD            X'FF' = none acceptable (RFC 1928 s.3)     *)
(*   auth request        VER=1 ULEN UNAME PLEN PASSWD                    (RFC 1929 s.2)     *)
(*   auth reply          VER=1 STATUS            STATUS /= 0: failure    (RFC 1929 s.2)     *)
(*   request             VER=5 CMD=1 RSV=0 ATYP DST.ADDR DST.PORT        (RFC 1928 s.4,5)   *)
(*   reply               VER=5 REP RSV=0 ATYP BND.ADDR BND.PORT          (RFC 1928 s.6)     *)
(*   ATYP 1: 4 bytes, ATYP 4: 16 bytes, ATYP 3: one length byte + that many bytes;          *)
(*   ports are two bytes in network order.                                                *)
(*                                                                                        *)
(* A scenario scn fixes the destination, the credentials, the API used and the script of    *)
(* the server: srv[k] are the bytes the server sends after the client's k-th message; the   *)
(* server closes the connection when the client waits for bytes the script does not have.   *)
(*   scn  = [dest |-> [k |-> "ip4"|"ip6"|"name"|"odd", b |-> bytes, port |-> n],             *)
(*           (k = "ip4"/"ip6": b = the address of a PLAIN IP literal; "name": b = the text    *)
(*            of an ordinary host name; "odd": b = the text of a host that is neither -- an   *)
(*            IPv6 literal with a zone (fe80::1%eth0), IPv4-like text that is not a valid     *)
(*            dotted quad (010.0.0.1, 1.2.3, 1.2.3.4.5, 0x7f.1), a name with a trailing dot,  *)
(*            the empty host; an optional field sp only tells the driver how to spell it)     *)
(*           auth |-> [on |-> BOOLEAN, u |-> bytes, p |-> bytes],                           *)
(*           api  |-> "DialContext" | "DialContextCancel" | "Dial",  srv |-> Seq(bytes)]     *)
(* An observation is what the in-memory server saw and what the dialer returned:            *)
(*   obs  = [msgs |-> Seq(bytes)   the client's messages (bytes sent between two replies),   *)
(*           res  |-> "ok" | "err" (anything else, "panic" / "hang", is never admissible),   *)
(*           bnd  |-> [k, b, port] the bound address returned (k = "none": not observable    *)
(*                    through this API, or res = "err"),                                    *)
(*           tail |-> bytes that can be read from the returned connection afterwards]        *)
(* Allowed(scn) is the set of admissible observations.  It has several elements where the   *)
(* RFCs / the package documentation leave a choice:                                         *)
(*   U1  the order of the offered methods, and whether "no authentication" is offered        *)
(*       next to username/password when credentials are configured;                         *)
(*   U2  when a client that cannot encode its destination (name longer than 255 bytes,       *)
(*       port outside 1..65535) or its credentials (longer than 255 bytes / empty user)      *)
(*       gives up: at any point before the message it cannot encode -- but it must fail,     *)
(*       and must not send a request that names another destination;                        *)
(*   U3  port 0: refused (not a TCP destination) or sent as 0;                               *)
(*   U4  an IPv4-mapped IPv6 destination may be sent as ATYP 4 or as the IPv4 address.       *)
(*   U5  an "odd" host: the request carries the host text verbatim as a domain name (what a  *)
(*       conforming server then decodes is exactly the requested host), or the dial fails    *)
(*       without a request -- never an address, which would name a different destination.    *)
(* Every malformed, refused or truncated server message has to end in "err".                *)
EXTENDS Integers, Sequences, FiniteSets

CONSTANT StrictMethod     \* TRUE: a selected method that was not offered is a malformed reply (error)

Port2(p) == <<p \div 256, p % 256>>

IsMapped(b) == Len(b) = 16 /\ (\A i \in 1 .. 10 : b[i] = 0) /\ b[11] = 255 /\ b[12] = 255

\* ------------------------------------------------------------------ client messages
Greetings(scn) ==
    IF scn.auth.on THEN {<<5, 2, 0, 2>>, <<5, 2, 2, 0>>, <<5, 1, 2>>}            \* U1
    ELSE {<<5, 1, 0>>}

Offered(g) == {g[i] : i \in 3 .. Len(g)}

AuthMsg(a) == <<1, Len(a.u)>> \o a.u \o <<Len(a.p)>> \o a.p
AuthEncodable(a) == Len(a.u) \in 1 .. 255 /\ Len(a.p) \in 1 .. 255

DestAddrOK(d) == /\ d.k = "name" => Len(d.b) \in 1 .. 255
                 /\ d.k = "odd"  => Len(d.b) \in 0 .. 255
MayRefuse(d)  == d.k = "odd"                                                              \* U5
DestPortOK(d) == d.port \in 1 .. 65535
\* the destination cannot be expressed in a request at all
Unencodable(d) == ~DestAddrOK(d) \/ d.port > 65535

Requests(d) ==
    LET tl == Port2(d.port) IN
    CASE d.k = "ip4"  -> {<<5, 1, 0, 1>> \o d.b \o tl}
      [] d.k = "ip6"  -> {<<5, 1, 0, 4>> \o d.b \o tl}
                         \cup (IF IsMapped(d.b) THEN {<<5, 1, 0, 1>> \o SubSeq(d.b, 13, 16) \o tl} ELSE {})   \* U4
      [] d.k \in {"name", "odd"} -> {<<5, 1, 0, 3, Len(d.b)>> \o d.b \o tl}                    \* verbatim

\* ------------------------------------------------------------------ a conforming server's decoder
\* (RFC 1928 s.4/5): used to state the property on the spec itself
DecodeReq(q) ==
    IF Len(q) < 4 \/ q[1] # 5 \/ q[3] # 0 THEN [ok |-> FALSE]
    ELSE CASE q[4] = 1 /\ Len(q) = 10 ->
                [ok |-> TRUE, cmd |-> q[2], k |-> "ip4", b |-> SubSeq(q, 5, 8), port |-> q[9] * 256 + q[10]]
           [] q[4] = 4 /\ Len(q) = 22 ->
                [ok |-> TRUE, cmd |-> q[2], k |-> "ip6", b |-> SubSeq(q, 5, 20), port |-> q[21] * 256 + q[22]]
           [] q[4] = 3 /\ Len(q) >= 5 /\ Len(q) = 7 + q[5] ->
                [ok |-> TRUE, cmd |-> q[2], k |-> "name", b |-> SubSeq(q, 6, 5 + q[5]),
                 port |-> q[Len(q) - 1] * 256 + q[Len(q)]]
           [] OTHER -> [ok |-> FALSE]

SameDest(dec, d) ==
    /\ dec.ok /\ dec.cmd = 1 /\ dec.port = d.port
    /\ \/ dec.k = d.k /\ dec.b = d.b
       \/ d.k = "ip6" /\ IsMapped(d.b) /\ dec.k = "ip4" /\ dec.b = SubSeq(d.b, 13, 16)
       \/ d.k = "odd" /\ dec.k = "name" /\ dec.b = d.b

\* the property on the specification: every request the spec admits decodes to the destination
RequestsDecode(d) == (DestAddrOK(d) /\ d.port \in 0 .. 65535) => \A q \in Requests(d) : SameDest(DecodeReq(q), d)

\* ------------------------------------------------------------------ server messages as the client must read them
\* method selection: "trunc" | "badver" | "none" (X'FF') | <method>
MethodSel(r) == IF Len(r) < 2 THEN "trunc" ELSE IF r[1] # 5 THEN "badver" ELSE IF r[2] = 255 THEN "none" ELSE "sel"

AuthReplyOK(r) == Len(r) >= 2 /\ r[1] = 1 /\ r[2] = 0

\* reply to the request: [ok |-> FALSE] or the bound address and the bytes that follow the reply
NoBnd == [k |-> "none", b |-> <<>>, port |-> 0]

ParseReply(r) ==
    IF Len(r) < 4 \/ r[1] # 5 \/ r[2] # 0 \/ r[3] # 0 THEN [ok |-> FALSE]
    ELSE LET alen == CASE r[4] = 1 -> 4
                       [] r[4] = 4 -> 16
                       [] r[4] = 3 -> IF Len(r) >= 5 THEN 1 + r[5] ELSE 0 - 1
                       [] OTHER -> 0 - 1
             tot  == 4 + alen + 2
         IN  IF alen < 0 \/ Len(r) < tot THEN [ok |-> FALSE]
             ELSE [ok   |-> TRUE,
                   bnd  |-> [k    |-> CASE r[4] = 1 -> "ip4" [] r[4] = 4 -> "ip6" [] OTHER -> "name",
                             b    |-> IF r[4] = 3 THEN SubSeq(r, 6, 4 + alen) ELSE SubSeq(r, 5, 4 + alen),
                             port |-> r[tot - 1] * 256 + r[tot]],
                   tail |-> SubSeq(r, tot + 1, Len(r))]

\* ------------------------------------------------------------------ the exchange
Err(msgs) == [msgs |-> msgs, res |-> "err", bnd |-> NoBnd, tail |-> <<>>]

Srv(scn, k) == IF k <= Len(scn.srv) THEN scn.srv[k] ELSE <<>>          \* nothing scripted: the server closes

\* from the point where the request is due; msgs = what has been sent so far
RequestPhase(scn, msgs) ==
    LET d == scn.dest IN
    IF Unencodable(d) THEN {Err(msgs)}                                                    \* U2
    ELSE (IF d.port = 0 \/ MayRefuse(d) THEN {Err(msgs)} ELSE {})                         \* U3, U5
         \cup { LET sent == Append(msgs, q)
                    rep  == ParseReply(Srv(scn, Len(sent)))
                IN  IF ~rep.ok THEN Err(sent)
                    ELSE [msgs |-> sent, res |-> "ok",
                          bnd  |-> IF scn.api = "Dial" THEN NoBnd ELSE rep.bnd,
                          tail |-> rep.tail] : q \in Requests(d) }

\* after the greeting g
AfterGreeting(scn, g) ==
    LET r1  == Srv(scn, 1)
        sel == MethodSel(r1)
        m   == r1[2]
    IN  IF sel # "sel" THEN {Err(<<g>>)}
        ELSE IF m \notin Offered(g)
             THEN {Err(<<g>>)} \cup (IF StrictMethod THEN {} ELSE RequestPhase(scn, <<g>>))
        ELSE IF m = 0 THEN RequestPhase(scn, <<g>>)
        ELSE \* m = 2: username/password
             IF ~AuthEncodable(scn.auth) THEN {Err(<<g>>)}                                 \* U2
             ELSE LET a == AuthMsg(scn.auth) IN
                  IF ~AuthReplyOK(Srv(scn, 2)) THEN {Err(<<g, a>>)}
                  ELSE RequestPhase(scn, <<g, a>>)

Prefixes(s) == {SubSeq(s, 1, n) : n \in 0 .. Len(s)}

Allowed(scn) ==
    LET normal == UNION {AfterGreeting(scn, g) : g \in Greetings(scn)}
        \* U2: a client may notice up front that it cannot encode the destination / the credentials
        early  == IF Unencodable(scn.dest) \/ scn.dest.port = 0 \/ MayRefuse(scn.dest) \/ (scn.auth.on /\ ~AuthEncodable(scn.auth))
                  THEN {Err(<<>>)} \cup
                       {Err(p) : p \in UNION {Prefixes(o.msgs) : o \in {x \in normal : x.res = "err"}}}
                  ELSE {}
    IN  normal \cup early

\* ------------------------------------------------------------------ properties of the specification
\* an unencodable destination never produces a request, and never "ok"
IsRequest(m) == Len(m) >= 4 /\ m[1] = 5 /\ m[2] = 1 /\ m[3] = 0
NeverWrongRequest(scn) ==
    Unencodable(scn.dest) => \A o \in Allowed(scn) :
        o.res = "err" /\ \A i \in 1 .. Len(o.msgs) : ~IsRequest(o.msgs[i])

\* every request that is ever admissible on the wire -- whatever the server answers -- decodes to
\* exactly the requested destination (in particular never to an address for an "odd" host)
RequestsAlwaysName(scn) ==
    \A o \in Allowed(scn) : \A i \in 1 .. Len(o.msgs) :
        IsRequest(o.msgs[i]) => SameDest(DecodeReq(o.msgs[i]), scn.dest)

\* whenever "ok" is admissible the last client message is a request that decodes to the destination
OkMeansNamed(scn) ==
    \A o \in Allowed(scn) : o.res = "ok" =>
        /\ Len(o.msgs) >= 2
        /\ SameDest(DecodeReq(o.msgs[Len(o.msgs)]), scn.dest)
        /\ (scn.api # "Dial" => o.bnd.k # "none")
=============================================================================
