------------------------------ MODULE TraceSk ------------------------------
(* C54 trace validation.  One trace = one line                                          *)
(*   {"e":"socks","scn":{dest,auth,api,srv},"obs":{msgs,res,bnd,tail}}                   *)
(* recorded by running the real dialer against the scripted peer.  The line is accepted  *)
(* iff the observation is one of the admissible observations of the scenario             *)
(* (Socks5!Allowed: request bytes per the RFC 1928 layout, bound address as the reply    *)
(* states it, every malformed / truncated reply an error; "panic" and "hang" never).     *)
EXTENDS Socks5, TraceIO

VARIABLES cur, l
tvars == <<cur, l>>
Line == Trace[l]

TInit == \E t \in 1 .. NT : cur = t /\ l = Meta.starts[t]

TSocks == /\ Line.e = "socks"
          /\ Line.obs \in Allowed(Line.scn)

TNext == /\ l <= Meta.ends[cur] /\ l' = l + 1 /\ cur' = cur /\ TSocks
TSpec == TInit /\ [][TNext]_tvars
Mark == HighWater(cur, l)
=============================================================================
