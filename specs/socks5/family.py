# socks5 family hooks: signatures that name the class of a C54 violation.  The verdict always
# comes from TLC (the observation is not in Socks5!Allowed(scenario)); this file only classifies.


def _len_class(n):
    return "0" if n == 0 else "1..255" if n <= 255 else ">255"


def _port_class(p):
    return "0" if p == 0 else "1..65535" if p <= 65535 else ">65535"


def _sig(scn, obs):
    d, a, srv = scn.get("dest", {}), scn.get("auth", {}), scn.get("srv", [])
    res = str(obs.get("res", "?"))[:40]
    nm = len(obs.get("msgs", []))
    m = srv[0] if srv else []
    offered = {0, 2} if a.get("on") else {0}
    if len(m) >= 2 and m[0] == 5 and m[1] != 255 and m[1] not in offered and nm >= 2:
        return "sk:method-not-offered-accepted;auth=%s" % ("on" if a.get("on") else "off")
    dest = d.get("k", "?") + ("(len %s)" % _len_class(len(d.get("b", []))) if d.get("k") == "name" else "")
    au = "on(u %s,p %s)" % (_len_class(len(a.get("u", []))), _len_class(len(a.get("p", [])))) if a.get("on") else "off"
    shape = "/".join("%d:%s" % (len(x), ".".join(str(v) for v in x[:4])) for x in srv)
    return "sk:%s;dest=%s;port=%s;auth=%s;srv=%s;got=%s/msgs=%d" % (scn.get("api", "?"), dest, _port_class(d.get("port", 0)), au, shape[:80], res, nm)


def signature(prop, kind, scenario, detail):
    try:
        if kind == "replay" and isinstance(scenario, dict):
            return _sig(scenario["scn"], detail.get("actual") or {})
        if kind == "trace":
            last = scenario["lines"][-1]
            return _sig(last["scn"], last["obs"])
    except Exception:
        return None
    return None
