------------------------------- MODULE GenSk -------------------------------
(* C54 case generator: one TLC state = one scenario (destination, credentials, API,      *)
(* server script); the CASE item carries the scenario and the set of admissible          *)
(* observations (Socks5!Allowed).  Three sweeps:                                         *)
(*   A  destinations: address kind x port boundaries x name lengths 1/255/256, with a    *)
(*      well-behaved server (checks the request layout);                                 *)
(*   B  server replies: every method-selection, authentication and reply variant         *)
(*      (each ATYP, each error code, wrong versions, reserved byte, unknown ATYP,         *)
(*      truncation after every field, trailing payload bytes);                           *)
(*   C  credentials: user / password lengths 1, 255, 256.                                *)
(* The spec-level properties (requests decode to the destination, unencodable            *)
(* destinations never produce a request) are checked on every scenario.                  *)
EXTENDS Socks5, TLC, Json

CONSTANT Lvl            \* 1 = quick, 2 = thorough

VARIABLE c
gvars == <<c>>

Z(n) == [i \in 1 .. n |-> 0]
\* a host-name-like byte string of length n: letters with a dot every 30th byte
NameBytes(n) == [i \in 1 .. n |-> IF i % 30 = 0 THEN 46 ELSE 97 + (i % 26)]
Fill(n, v) == [i \in 1 .. n |-> v + (i % 10)]

Dest(k, b, port) == [k |-> k, b |-> b, port |-> port]
V4a == <<192, 0, 2, 33>>
V6a == <<32, 1, 13, 184, 0, 0, 0, 0, 0, 0, 0, 0, 0, 0, 1, 255>>
M6a == Z(10) \o <<255, 255, 198, 51, 100, 7>>

DestAddrs == { <<"ip4", V4a>>, <<"ip6", V6a>>, <<"ip6", M6a>>,
               <<"name", NameBytes(1)>>, <<"name", NameBytes(11)>>, <<"name", NameBytes(255)>>, <<"name", NameBytes(256)>> }
DestPorts == {0, 1, 255, 256, 443, 65535, 65536, 65537}
Dests == {Dest(a[1], a[2], p) : a \in DestAddrs, p \in DestPorts}
\* hosts that are neither a plain IP literal nor an ordinary name (Socks5 header, kind "odd"), as text
OddTexts == {
    <<102, 101, 56, 48, 58, 58, 49, 37, 101, 116, 104, 48>>,   \* "fe80::1%eth0"
    <<102, 101, 56, 48, 58, 58, 100, 101, 97, 100, 58, 98, 101, 101, 102, 37, 49, 50>>,   \* "fe80::dead:beef%12"
    <<70, 69, 56, 48, 58, 58, 65, 37, 87, 108, 97, 110, 48>>,   \* "FE80::A%Wlan0"
    <<48, 49, 48, 46, 48, 46, 48, 46, 49>>,   \* "010.0.0.1"
    <<49, 46, 50, 46, 51>>,   \* "1.2.3"
    <<49, 46, 50, 46, 51, 46, 52, 46, 53>>,   \* "1.2.3.4.5"
    <<48, 120, 55, 102, 46, 49>>,   \* "0x7f.1"
    <<101, 120, 97, 109, 112, 108, 101, 46, 99, 111, 109, 46>>,   \* "example.com."
    <<58, 58, 102, 102, 102, 102, 58, 49, 46, 50, 46, 51, 46, 52, 37, 49>>,   \* "::ffff:1.2.3.4%1"
    <<>>    \* ""
    }
ZoneTexts == { <<102, 101, 56, 48, 58, 58, 49, 37, 101, 116, 104, 48>>, <<102, 101, 56, 48, 58, 58, 100, 101, 97, 100, 58, 98, 101, 101, 102, 37, 49, 50>> }
DestSp(k, b, port, sp) == [k |-> k, b |-> b, port |-> port, sp |-> sp]
\* sp is for the driver only: "upper" = IPv6 literal in upper case, "raw" = host:port joined without brackets
OddDests == {Dest("odd", t, p) : t \in OddTexts, p \in {443, 65535}}
            \cup {DestSp("odd", t, 443, "raw") : t \in ZoneTexts}
            \cup {DestSp("ip6", V6a, 443, "upper"), DestSp("ip6", M6a, 256, "upper")}

Dest1 == Dest("name", NameBytes(11), 443)
Dest2 == Dest("ip4", V4a, 256)
Dest3 == Dest("ip6", V6a, 65535)

NoAuth == [on |-> FALSE, u |-> <<>>, p |-> <<>>]
Auth(ul, pl) == [on |-> TRUE, u |-> Fill(ul, 65), p |-> Fill(pl, 48)]
Auths == {Auth(1, 1), Auth(255, 255), Auth(256, 1), Auth(1, 256), Auth(255, 1), Auth(5, 255)}

APIs == {"DialContext", "DialContextCancel", "Dial"}

\* ---- server messages
OkV4(p)    == <<5, 0, 0, 1, 10, 0, 0, 7>> \o Port2(p)
OkV6(p)    == <<5, 0, 0, 4>> \o V6a \o Port2(p)
OkName(n, p) == <<5, 0, 0, 3, n>> \o NameBytes(n) \o Port2(p)
Happy == {OkV4(1080), OkName(9, 65535)}

MethodReplies == { <<5, 0>>, <<5, 2>>, <<5, 255>>, <<4, 0>>, <<0, 0>>, <<5>>, <<>>, <<5, 1>>, <<5, 128>> }
AuthReplies   == { <<1, 0>>, <<1, 1>>, <<1, 255>>, <<5, 0>>, <<0, 0>>, <<1>>, <<>> }

BndPorts == {0, 1, 255, 256, 65535}
OkReplies == {OkV4(p) : p \in BndPorts} \cup {OkV6(p) : p \in BndPorts}
             \cup {OkName(n, p) : n \in {0, 1, 255}, p \in {0, 256, 65535}}
ErrReplies == {<<5, rep, 0, 1, 0, 0, 0, 0, 0, 0>> : rep \in (1 .. 9) \cup {255}}
              \cup {<<5, 5, 0, 3, 0, 0, 0>>, <<5, 1>>, <<5, 4, 0>>}
BadReplies == { <<4, 0, 0, 1, 10, 0, 0, 7, 4, 56>>, <<0, 0, 0, 1, 10, 0, 0, 7, 4, 56>>,      \* version
                <<5, 0, 1, 1, 10, 0, 0, 7, 4, 56>>, <<5, 0, 255, 1, 10, 0, 0, 7, 4, 56>>,    \* reserved byte
                <<5, 0, 0, 0, 10, 0, 0, 7, 4, 56>>, <<5, 0, 0, 2, 10, 0, 0, 7, 4, 56>>,      \* unknown ATYP
                <<5, 0, 0, 5, 10, 0, 0, 7, 4, 56>>, <<5, 0, 0, 255, 10, 0, 0, 7, 4, 56>> }
Truncs(r, lens) == {SubSeq(r, 1, n) : n \in lens}
TruncReplies == Truncs(OkV4(1080), 0 .. 9) \cup Truncs(OkV6(1080), {4, 5, 19, 20, 21})
                \cup Truncs(OkName(9, 1080), {4, 5, 6, 13, 14, 15}) \cup Truncs(OkName(255, 1080), {5, 200, 260, 261})
TailReplies == { OkV4(1080) \o <<72, 84, 84, 80>>, OkName(9, 1) \o <<0>>, OkV6(2) \o Fill(40, 100),
                 OkName(0, 7) \o <<5, 0, 0, 1>> }
ConnReplies == OkReplies \cup ErrReplies \cup BadReplies \cup TruncReplies \cup TailReplies

Scn(d, a, api, srv) == [dest |-> d, auth |-> a, api |-> api, srv |-> srv]

SweepA == {Scn(d, a, api, <<<<5, 0>>, h>>) : d \in Dests, a \in {NoAuth}, api \in {"DialContext"}, h \in {OkV4(1080)}}
          \cup {Scn(d, Auth(1, 1), "Dial", <<<<5, 2>>, <<1, 0>>, OkName(9, 65535)>>) : d \in Dests}
          \cup {Scn(d, NoAuth, "DialContext", <<<<5, 0>>, OkV4(1080)>>) : d \in OddDests}
          \cup {Scn(d, Auth(1, 1), api, <<<<5, 2>>, <<1, 0>>, OkV6(256)>>) : d \in OddDests,
                                                                         api \in IF Lvl = 1 THEN {"Dial"} ELSE APIs}
          \cup (IF Lvl = 1 THEN {} ELSE
                {Scn(d, a, api, <<<<5, 0>>, h>>) : d \in Dests, a \in {NoAuth, Auth(255, 255)}, api \in APIs, h \in Happy})
SweepB == {Scn(Dest1, NoAuth, "DialContext", <<m, OkV4(1080)>>) : m \in MethodReplies}
          \cup {Scn(Dest1, Auth(1, 1), "DialContextCancel", <<m, <<1, 0>>, OkV4(1080)>>) : m \in MethodReplies}
          \cup {Scn(Dest2, Auth(5, 255), api, <<<<5, 2>>, ar, OkV6(1)>>) : ar \in AuthReplies, api \in {"DialContext", "Dial"}}
          \cup {Scn(Dest1, NoAuth, "DialContext", <<<<5, 0>>, r>>) : r \in ConnReplies}
          \cup {Scn(Dest3, Auth(1, 1), "DialContextCancel", <<<<5, 2>>, <<1, 0>>, r>>) : r \in ConnReplies}
          \cup {Scn(Dest2, NoAuth, "Dial", <<<<5, 0>>, r>>) : r \in BadReplies \cup TruncReplies \cup TailReplies \cup ErrReplies}
          \cup (IF Lvl = 1 THEN {} ELSE
                {Scn(d, a, api, <<IF a.on THEN <<5, 2>> ELSE <<5, 0>>>> \o (IF a.on THEN <<<<1, 0>>>> ELSE <<>>) \o <<r>>) :
                    d \in {Dest1, Dest2, Dest3}, a \in {NoAuth, Auth(255, 1)}, api \in APIs, r \in ConnReplies})
SweepC == {Scn(Dest1, a, api, <<m, <<1, 0>>, OkV4(1080)>>) : a \in Auths, api \in {"DialContext", "Dial"}, m \in {<<5, 2>>, <<5, 0>>}}
          \cup {Scn(Dest1, a, "DialContext", <<<<5, 0>>, OkV4(1080)>>) : a \in Auths}

Scenarios == SweepA \cup SweepB \cup SweepC

GInit == c \in Scenarios
GNext == UNCHANGED c
GSpec == GInit /\ [][GNext]_gvars

Emit == PrintT(<<"CASE", ToJson([scn |-> c, allow |-> Allowed(c)])>>)

Sane == /\ Allowed(c) # {}
        /\ RequestsDecode(c.dest)
        /\ NeverWrongRequest(c)
        /\ OkMeansNamed(c)
        /\ RequestsAlwaysName(c)
=============================================================================
