SPECIFICATION GSpec
CONSTANTS
  Conns = {1, 2, 3, 4}
  Reqs = {1, 2, 3, 4, 5, 6}
  Judge = {"C17", "C18"}
  Inf = 1000000
  MCMax = {1, 2, 3}
  MCIds = 11
  MCBodies = {"none", "none", "gb", "once", "ggb", "gonce"}
  MCEnv = {}
  MCStrict = {TRUE, FALSE}
  GenDepth = 20
INVARIANT Emit
CHECK_DEADLOCK FALSE
