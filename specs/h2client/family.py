# Signatures for h2client violations.  A violation of NoNewDeviation is identified by the named
# deviation(s) recorded so far (known defects modelled explicitly in H2Client.tla, see Quiesce);
# everything else by the default hash of the failing scenario, so different failures stay distinct.
import re


def signature(prop, kind, scenario, detail):
    what = detail.get("what", "")
    m = re.search(r'invariant NoNewDeviation violated.*?state=\{"dev": "\{(.*?)\}"', what)
    if m:
        names = sorted(x.strip().strip('\\"') for x in m.group(1).split(","))
        return "deviation:" + "+".join(names)
    return None
