SPECIFICATION Spec
CONSTANTS
  Conns = {1, 2}
  Reqs = {1, 2, 3}
  Judge = {"C17", "C18"}
  Inf = 1000000
  MCMax = {1, 2}
  MCIds = 5
  MCBodies = {"none"}
  MCEnv = {"settings", "settings_other", "cancel", "pingack", "closebody"}
  MCStrict = {TRUE, FALSE}
INVARIANTS TypeOK IdsOdd InFlightIsLive NoSecondCopy
PROPERTIES GrowWithinLimit QuietAfterGoAway IncreasingIds
CHECK_DEADLOCK FALSE
