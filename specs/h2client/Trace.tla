------------------------------- MODULE Trace -------------------------------
(* Trace validation for C17 / C18.  One trace = one real http2.Transport with its connection   *)
(* pool inside a synctest bubble, driven by scripted servers                                    *)
(* (drivers/http2/zz_verif_h2client_test.go).  After every command the Transport runs to        *)
(* quiescence and the driver logs RoundTrip returns ("ret"), new connections ("dial"), every    *)
(* frame the client wrote per connection in wire order ("e_*") and a "q" line with white-box    *)
(* facts.  Every line must be a step of H2Client with the logged arguments; the guards of the   *)
(* client steps are the properties (selected by Judge).                                         *)
EXTENDS H2Client, TraceIO

VARIABLES cur, l, dn     \* dn: a deviation was recorded by the step just taken
tvars == <<vars, cur, l, dn>>

Line == Trace[l]

TInit ==
    \E t \in 1..NT :
       LET h == Trace[Meta.starts[t]] IN
       /\ cur = t /\ l = Meta.starts[t] + 1 /\ dn = FALSE
       /\ h.e = "hdr"
       /\ InitWith(h.strict)

Same == UNCHANGED vars
ToSet(seq) == {seq[i] : i \in 1..Len(seq)}

TStart    == Line.e = "start"    /\ Start(Line.r, Line.body, Line.len, Line.hdr)
TStartOn  == Line.e = "starton"  /\ StartOn(Line.r, Line.c, Line.body, Line.len, Line.hdr)
TReserve  == Line.e = "reserve"  /\ Reserve(Line.c, Line.ok, Line.via = "nethttp")
TRelease  == Line.e = "release"  /\ Release(Line.c)
TCancel   == Line.e = "cancel"   /\ Cancel(Line.r)
TCloseB   == Line.e = "closebody" /\ CloseBody(Line.r)
TNoop     == Line.e \in {"tick", "bwrite", "bclose", "e_ping", "e_goaway"} /\ Same
TSettings == Line.e = "p_settings" /\ Settings(Line.c, Line.max)
TSetOther == Line.e = "p_settings_other" /\ SettingsOther(Line.c, Line.kind = "iws")
TResp     == Line.e = "p_resp"   /\ Resp(Line.c, Line.s, Line.es)
TSData    == Line.e = "p_data"   /\ SData(Line.c, Line.s, Line.es)
TSRst     == Line.e = "p_rst"    /\ SRst(Line.c, Line.s, Line.code)
TPingAck  == Line.e = "p_pingack" /\ PingAck(Line.c)
TGoAway   == Line.e = "p_goaway" /\ GoAway(Line.c, Line.last, Line.code)
TSClose   == Line.e = "p_close"  /\ SClose(Line.c)
TDial     == Line.e = "dial"     /\ Dial(Line.c)
THdr      == Line.e = "e_hdr"    /\ Hdr(Line.c, Line.s, Line.r, Line.es)
TData     == Line.e = "e_data"   /\ Data(Line.c, Line.s, Line.n, Line.es, Line.b0, Line.b1)
TRst      == Line.e = "e_rst"    /\ Rst(Line.c, Line.s, Line.code)
TRet      == Line.e = "ret"      /\ Ret(Line.r, Line.kind)
TCClosed  == Line.e = "e_closed" /\ CClosed(Line.c)
TQ        == Line.e = "q" /\ Quiesce({[c |-> f.c, live |-> ToSet(f.live), pr |-> f.pr, rv |-> f.rv, pd |-> f.pd] : f \in ToSet(Line.cs)})
(* C18 at the end: every RoundTrip has returned (unless the strict-mode stall, a C17 finding, blocks the queue) *)
TEnd      == Line.e = "end" /\ (J18 => (AllTerminated \/ "StrictQueueStall" \in dev)) /\ Same

TNext ==
    /\ l <= Meta.ends[cur]
    /\ l' = l + 1 /\ cur' = cur
    /\ (TStart \/ TStartOn \/ TReserve \/ TRelease \/ TCancel \/ TCloseB \/ TNoop \/ TSettings \/ TSetOther \/ TResp \/ TSData \/ TSRst
        \/ TPingAck \/ TGoAway \/ TSClose \/ TDial \/ THdr \/ TData \/ TRst \/ TRet \/ TCClosed \/ TQ \/ TEnd)
    /\ dn' = (dev' # dev)

TSpec == TInit /\ [][TNext]_tvars
Mark == HighWater(cur, l)
(* A deviation is a violation; each set of deviation names is reported once per run (register   *)
(* NT+1 remembers what was reported) because every report prints a whole error trace.             *)
ASSUME TLCSet(NT + 1, {})
NoNewDeviation ==
    ~dn \/ (LET seen == TLCGet(NT + 1) IN
            IF dev \subseteq seen THEN TRUE ELSE TLCSet(NT + 1, seen \cup dev) /\ FALSE)
=============================================================================
