------------------------------ MODULE H2Client ------------------------------
(* The HTTP/2 client side of golang.org/x/net/http2 (Transport + connection pool + ClientConn) *)
(* as far as C17 (stream limits and stream-id order) and C18 (GOAWAY: nothing lost, nothing    *)
(* duplicated) speak about it.  The unit of observation is the wire: HEADERS / DATA /           *)
(* RST_STREAM written by the client per connection, the frames the server sends, RoundTrip      *)
(* calls starting and returning.                                                                *)
(*                                                                                              *)
(* Environment actions (the application and the servers): Start, StartOn, Reserve, Cancel,      *)
(* CloseBody, Settings, Resp, SData, SRst, PingAck, GoAway, SClose.  Client actions: Dial, Hdr   *)
(* (opens a stream), Data, Rst, Ret (RoundTrip returns), CClosed.  The guards of the client      *)
(* actions ARE the properties: a trace of the real Transport is accepted only if each of its     *)
(* client events is such a step (Trace.tla); TLC explores the closed system exhaustively for     *)
(* small constants (MC*.cfg).                                                                    *)
(*                                                                                              *)
(* Deliberately not fixed: which connection the pool picks among those with room; whether a      *)
(* new connection is dialed although one has room (only strict mode forbids it); ids may skip;   *)
(* whether a reset is counted as "pending" where the documentation leaves it open (frames other  *)
(* than HEADERS/DATA/RST/WINDOW_UPDATE read since the request, a do-not-reuse or GOAWAY          *)
(* connection, the gRPC ping workaround); whether a one-shot body or the first stream of a        *)
(* connection hit by an error GOAWAY is retried or reported; retry timing (backoff).             *)
EXTENDS Integers, Sequences, FiniteSets, FiniteSetsExt, TLC

CONSTANTS Conns,      \* connection numbers 1..n in dial order
          Reqs,       \* request numbers
          Judge,      \* subset of {"C17", "C18"}: which property's guards are enforced
          Inf,        \* "no limit yet" (before the server's SETTINGS)
          MCMax, MCIds, MCBodies, MCEnv, MCStrict     \* bounds used only by Init/Next (model checking)

VARIABLES
    strict,   \* Transport.StrictMaxConcurrentStreams
    cst,      \* [Conns -> {"none","up","closed"}]
    lastId,   \* highest stream id written on the connection (0: none)
    open,     \* streams open on the wire: HEADERS written, not closed by END_STREAM x2 / RST
    cend,     \* client sent END_STREAM
    send,     \* server sent END_STREAM
    fresh,    \* streams opened after the last HEADERS/DATA/RST/WINDOW_UPDATE read from the server
    freshLo,  \* streams opened after the last frame of any kind read from the server
    pr,       \* pending resets: resets sent that still count against the limit
    blocked,  \* a PING ack reset pr and no HEADERS/DATA has been read since (gRPC workaround)
    dnr,      \* the connection was marked do-not-reuse (RST_STREAM PROTOCOL_ERROR from the server)
    maxc,     \* the server's current SETTINGS_MAX_CONCURRENT_STREAMS
    ga,       \* [on, last, err]: GOAWAY received
    resv,     \* reservations made through ClientConn.ReserveNewRequest and not yet used
    lowm,     \* the lowest limit in force since the last event that wakes queued requests (a stream finished, PING ack),
              \* minus the reservations released since then
    doomed,   \* open streams the client has a reason to reset (cancel, closed body, GOAWAY > last)
    own,      \* [Conns -> [stream id -> [r: request, n: DATA bytes the client has written on the stream]]]
    req,      \* [Reqs -> [st, c, s, body, len, hdr, direct, may]]   (len: body length; hdr: "ok", or the request
              \* carries a header the client must refuse when it encodes HEADERS: "big" (over the peer's
              \* SETTINGS_MAX_HEADER_LIST_SIZE, if already known) / "bad" (invalid field value))
    nsf,      \* RoundTrips that ended without ever getting a stream id since the last quiescent point (see Quiesce)
    dev       \* named deviations of the real code that were observed (known findings), see Quiesce

connVars == <<cst, lastId, open, cend, send, fresh, freshLo, pr, blocked, dnr, maxc, ga, resv, lowm, doomed, own>>
vars == <<strict, dev, nsf, cst, lastId, open, cend, send, fresh, freshLo, pr, blocked, dnr, maxc, ga, resv, lowm, doomed, own, req>>

J17 == "C17" \in Judge
J18 == "C18" \in Judge

Replayable(b) == b \in {"none", "gb", "ggb"}        \* nil body or Request.GetBody
EmptyF == [x \in {} |-> 0]
Count(c) == Cardinality(open[c]) + pr[c]
MayOpen(c) == cst[c] = "up" /\ ~ga[c].on
Usable(c) == MayOpen(c) /\ ~dnr[c]
OwnerOf(c, s) == IF s \in DOMAIN own[c] THEN own[c][s].r ELSE 0
Pat(r, o) == (o * 7 + r * 13) % 251            \* byte at offset o of the body of request r
Current(r, c, s) == r \in Reqs /\ req[r].c = c /\ req[r].s = s     \* (c,s) is r's latest attempt
InFlight(r, c, s) == Current(r, c, s) /\ req[r].st = "open"        \* ... and RoundTrip has not returned

ReqNew == [st |-> "new", c |-> 0, s |-> 0, body |-> "none", len |-> 0, hdr |-> "ok", direct |-> 0, may |-> {}]
Fin(q, kinds) == [q EXCEPT !.st = "fin", !.may = kinds]            \* RoundTrip must return, with one of kinds
Back(q, kinds) == [q EXCEPT !.st = "wait", !.may = kinds]          \* retry (or, if kinds # {}, return one of them now)

InitWith(st) ==
    /\ strict = st /\ dev = {} /\ nsf = 0
    /\ cst = [c \in Conns |-> "none"] /\ lastId = [c \in Conns |-> 0]
    /\ open = [c \in Conns |-> {}] /\ cend = [c \in Conns |-> {}] /\ send = [c \in Conns |-> {}]
    /\ fresh = [c \in Conns |-> {}] /\ freshLo = [c \in Conns |-> {}]
    /\ pr = [c \in Conns |-> 0] /\ blocked = [c \in Conns |-> FALSE] /\ dnr = [c \in Conns |-> FALSE]
    /\ maxc = [c \in Conns |-> Inf]
    /\ ga = [c \in Conns |-> [on |-> FALSE, last |-> 0, err |-> FALSE]]
    /\ resv = [c \in Conns |-> 0] /\ lowm = [c \in Conns |-> Inf]
    /\ doomed = [c \in Conns |-> {}] /\ own = [c \in Conns |-> EmptyF]
    /\ req = [r \in Reqs |-> ReqNew]

(* streams S of connection c leave the wire-level open set *)
Drop(c, S) ==
    /\ open' = [open EXCEPT ![c] = @ \ S]
    /\ lowm' = [lowm EXCEPT ![c] = IF S \cap open[c] # {} THEN maxc[c] ELSE @]
    /\ doomed' = [doomed EXCEPT ![c] = @ \ S]
NoDrop == UNCHANGED <<open, lowm, doomed>>

-----------------------------------------------------------------------------
(* ---------------- application ---------------- *)
Start(r, b, len, hdr) ==
    /\ r \in Reqs /\ req[r].st = "new"
    /\ req' = [req EXCEPT ![r] = [ReqNew EXCEPT !.st = "wait", !.body = b, !.len = len, !.hdr = hdr]]
    /\ UNCHANGED <<strict, dev, nsf, connVars>>

(* ClientConn.RoundTrip called directly on connection c; it uses up one reservation *)
StartOn(r, c, b, len, hdr) ==
    /\ r \in Reqs /\ c \in Conns /\ req[r].st = "new" /\ cst[c] # "none"
    /\ req' = [req EXCEPT ![r] = [ReqNew EXCEPT !.st = "wait", !.body = b, !.len = len, !.hdr = hdr, !.direct = c]]
    /\ resv' = [resv EXCEPT ![c] = IF @ > 0 THEN @ - 1 ELSE 0]
    /\ UNCHANGED <<strict, dev, nsf, cst, lastId, open, cend, send, fresh, freshLo, pr, blocked, dnr, maxc, ga, lowm, doomed, own>>

(* ClientConn.ReserveNewRequest: what the pool asks before it assigns a request.  C17: without *)
(* strict mode a connection at its limit does not accept.                                      *)
(* lim: the net/http ClientConn.Reserve path, which never reserves past the limit (also strict) *)
Reserve(c, ok, lim) ==
    /\ c \in Conns /\ cst[c] # "none"
    /\ (J17 /\ ok) => /\ MayOpen(c)
                      /\ (strict /\ ~lim) \/ Count(c) + resv[c] < maxc[c]
    /\ resv' = [resv EXCEPT ![c] = IF ok THEN @ + 1 ELSE @]
    /\ UNCHANGED <<strict, dev, nsf, cst, lastId, open, cend, send, fresh, freshLo, pr, blocked, dnr, maxc, ga, lowm, doomed, own, req>>

(* a reservation is given back unused (net/http ClientConn.Release) *)
Release(c) ==
    /\ c \in Conns /\ cst[c] # "none"
    /\ resv' = [resv EXCEPT ![c] = IF @ > 0 THEN @ - 1 ELSE 0]
    (* Release does not wake queued requests (no broadcast), and the property text does not ask for it: *)
    (* the bound a queued request is held against goes down with the released slot until the next wake   *)
    /\ lowm' = [lowm EXCEPT ![c] = IF @ > 0 THEN @ - 1 ELSE @]
    /\ UNCHANGED <<strict, dev, nsf, cst, lastId, open, cend, send, fresh, freshLo, pr, blocked, dnr, maxc, ga, doomed, own, req>>

Cancel(r) ==
    /\ r \in Reqs /\ req[r].st \in {"wait", "open", "done"}
    /\ LET c == req[r].c  s == req[r].s
           hasStream == c \in Conns /\ s \in open[c] IN
       /\ req' = [req EXCEPT ![r] = IF @.st = "done" THEN @ ELSE Fin(@, {"canceled"})]
       /\ doomed' = IF hasStream THEN [doomed EXCEPT ![c] = @ \cup {s}] ELSE doomed
    /\ nsf' = IF req[r].st = "wait" THEN nsf + 1 ELSE nsf     \* (a queued request: it will end without a stream id)
    /\ UNCHANGED <<strict, dev, cst, lastId, open, cend, send, fresh, freshLo, pr, blocked, dnr, maxc, ga, resv, lowm, own>>

(* the application closes the response body of a finished RoundTrip *)
CloseBody(r) ==
    /\ r \in Reqs /\ req[r].st = "done"
    /\ LET c == req[r].c  s == req[r].s IN
       doomed' = IF c \in Conns /\ s \in open[c] THEN [doomed EXCEPT ![c] = @ \cup {s}] ELSE doomed
    /\ UNCHANGED <<strict, dev, nsf, cst, lastId, open, cend, send, fresh, freshLo, pr, blocked, dnr, maxc, ga, resv, lowm, own, req>>

(* ---------------- server ---------------- *)
Settings(c, m) ==
    /\ c \in Conns /\ cst[c] = "up"
    /\ maxc' = [maxc EXCEPT ![c] = m]
    /\ lowm' = [lowm EXCEPT ![c] = IF m < @ THEN m ELSE @]
    /\ freshLo' = [freshLo EXCEPT ![c] = {}]
    /\ UNCHANGED <<strict, dev, nsf, cst, lastId, open, cend, send, fresh, pr, blocked, dnr, ga, resv, doomed, own, req>>

(* a SETTINGS frame without SETTINGS_MAX_CONCURRENT_STREAMS (empty, or other settings only):   *)
(* RFC 9113 6.5 - a setting keeps its value until a SETTINGS frame changes it; only its absence  *)
(* from the connection's first SETTINGS frame means "default".                                   *)
(* wake: the frame changes SETTINGS_INITIAL_WINDOW_SIZE, which wakes everything that waits on    *)
(* the connection (flow control), queued requests included                                       *)
SettingsOther(c, wake) ==
    /\ c \in Conns /\ cst[c] = "up"
    /\ freshLo' = [freshLo EXCEPT ![c] = {}]
    /\ lowm' = [lowm EXCEPT ![c] = IF wake THEN maxc[c] ELSE @]
    /\ UNCHANGED <<strict, dev, nsf, cst, lastId, open, cend, send, fresh, pr, blocked, dnr, maxc, ga, resv, doomed, own, req>>

SawStreamFrame(c, hd) ==       \* bookkeeping common to HEADERS/DATA (hd) and RST_STREAM from the server
    /\ fresh' = [fresh EXCEPT ![c] = {}] /\ freshLo' = [freshLo EXCEPT ![c] = {}]
    /\ blocked' = [blocked EXCEPT ![c] = IF hd THEN FALSE ELSE @]

(* response HEADERS (status 200) *)
Resp(c, s, es) ==
    /\ c \in Conns /\ cst[c] = "up"
    /\ LET r == OwnerOf(c, s) IN
       req' = IF s \in open[c] /\ InFlight(r, c, s) THEN [req EXCEPT ![r] = Fin(@, {"resp"})] ELSE req
    /\ send' = [send EXCEPT ![c] = IF es /\ s \in open[c] THEN @ \cup {s} ELSE @]
    /\ IF es /\ s \in open[c] /\ s \in cend[c] THEN Drop(c, {s}) ELSE NoDrop
    /\ SawStreamFrame(c, TRUE)
    /\ UNCHANGED <<strict, dev, nsf, cst, lastId, cend, pr, dnr, maxc, ga, resv, own>>

SData(c, s, es) ==
    /\ c \in Conns /\ cst[c] = "up"
    /\ send' = [send EXCEPT ![c] = IF es /\ s \in open[c] THEN @ \cup {s} ELSE @]
    /\ IF es /\ s \in open[c] /\ s \in cend[c] THEN Drop(c, {s}) ELSE NoDrop
    /\ SawStreamFrame(c, TRUE)
    /\ UNCHANGED <<strict, dev, nsf, cst, lastId, cend, pr, dnr, maxc, ga, resv, own, req>>

(* RST_STREAM from the server; REFUSED_STREAM (7) is retryable *)
SRst(c, s, code) ==
    /\ c \in Conns /\ cst[c] = "up"
    /\ LET r == OwnerOf(c, s) IN
       req' = IF s \in open[c] /\ InFlight(r, c, s)
              THEN [req EXCEPT ![r] =
                      IF code # 7 THEN Fin(@, {"rst"})
                      ELSE IF @.direct # 0 THEN Fin(@, {"refused"})
                      ELSE Back(@, IF Replayable(@.body) THEN {} ELSE {"noretry"})]
              ELSE req
    /\ Drop(c, {s})
    /\ SawStreamFrame(c, FALSE)
    /\ dnr' = [dnr EXCEPT ![c] = @ \/ code = 1]
    /\ UNCHANGED <<strict, dev, nsf, cst, lastId, cend, send, pr, maxc, ga, resv, own>>

PingAck(c) ==
    /\ c \in Conns /\ cst[c] = "up"
    /\ pr' = [pr EXCEPT ![c] = 0]
    /\ blocked' = [blocked EXCEPT ![c] = @ \/ pr[c] > 0]
    /\ freshLo' = [freshLo EXCEPT ![c] = {}]
    /\ lowm' = [lowm EXCEPT ![c] = IF pr[c] > 0 THEN maxc[c] ELSE @]
    /\ UNCHANGED <<strict, dev, nsf, cst, lastId, open, cend, send, fresh, dnr, maxc, ga, resv, doomed, own, req>>

(* GOAWAY(last, code).  Streams above last are aborted: C18 says they are retryable. *)
AfterGoAway(q, special) ==
    IF q.direct # 0
    THEN Fin(q, {"gotgoaway"} \cup (IF special THEN {"goawayerr"} ELSE {}))
    ELSE Back(q, (IF special THEN {"goawayerr"} ELSE {}) \cup (IF Replayable(q.body) THEN {} ELSE {"noretry"}))

GoAway(c, last, code) ==
    /\ c \in Conns /\ cst[c] = "up"
    /\ LET err == ga[c].err \/ code # 0
           hit == {s \in open[c] : s > last} IN
       /\ ga' = [ga EXCEPT ![c] = [on |-> TRUE, last |-> last, err |-> err]]
       /\ doomed' = [doomed EXCEPT ![c] = @ \cup hit]
       /\ req' = [r \in Reqs |-> IF req[r].st = "open" /\ req[r].c = c /\ req[r].s \in hit
                                  THEN AfterGoAway(req[r], req[r].s = 1 /\ err) ELSE req[r]]
    /\ freshLo' = [freshLo EXCEPT ![c] = {}]
    /\ UNCHANGED <<strict, dev, nsf, cst, lastId, open, cend, send, fresh, pr, blocked, dnr, maxc, resv, lowm, own>>

(* the server closes the connection: what is in flight fails with the connection's error *)
SClose(c) ==
    /\ c \in Conns /\ cst[c] = "up"
    /\ cst' = [cst EXCEPT ![c] = "closed"]
    /\ req' = [r \in Reqs |->
                 IF req[r].st = "open" /\ req[r].c = c /\ req[r].s \in open[c] /\ req[r].s \notin send[c]
                 THEN Fin(req[r], IF ga[c].on THEN {"goawayclosed", "eof"} ELSE {"eof"})
                 ELSE IF req[r].st = "wait" /\ req[r].direct = c THEN Fin(req[r], {"unusable", "notest"})
                 ELSE req[r]]
    /\ Drop(c, open[c])
    /\ UNCHANGED <<strict, dev, nsf, lastId, cend, send, fresh, freshLo, pr, blocked, dnr, maxc, ga, resv, own>>

(* ---------------- client ---------------- *)
(* the pool dials connection c.  C17 (strict): a new connection is not a way around the limit. *)
Dial(c) ==
    /\ c \in Conns /\ cst[c] = "none"
    /\ \A d \in Conns : d < c => cst[d] # "none"
    /\ (J17 /\ strict) => ~\E d \in Conns : Usable(d)
    /\ cst' = [cst EXCEPT ![c] = "up"]
    /\ UNCHANGED <<strict, dev, nsf, lastId, open, cend, send, fresh, freshLo, pr, blocked, dnr, maxc, ga, resv, lowm, doomed, own, req>>

(* HEADERS of request r open stream s on connection c *)
Hdr(c, s, r, es) ==
    /\ c \in Conns /\ r \in Reqs /\ cst[c] = "up"
    /\ req[r].st = "wait"                    \* C18: one live attempt per request, never a second copy
    /\ req[r].direct \in {0, c}
    /\ s \notin DOMAIN own[c]
    /\ J18 => ~ga[c].on                      \* C18: no new stream after GOAWAY
    /\ (J18 /\ es) => req[r].len = 0          \* C18: END_STREAM on HEADERS only without a body
    /\ J17 => /\ s % 2 = 1 /\ s > lastId[c]  \* C17: odd, strictly increasing in wire order
              /\ Count(c) + (IF strict THEN 0 ELSE resv[c]) < maxc[c]      \* C17: room under the limit
    /\ lastId' = [lastId EXCEPT ![c] = IF s > @ THEN s ELSE @]
    /\ open' = [open EXCEPT ![c] = @ \cup {s}]
    /\ cend' = [cend EXCEPT ![c] = IF es THEN @ \cup {s} ELSE @]
    /\ fresh' = [fresh EXCEPT ![c] = @ \cup {s}] /\ freshLo' = [freshLo EXCEPT ![c] = @ \cup {s}]
    /\ own' = [own EXCEPT ![c] = (s :> [r |-> r, n |-> 0]) @@ @]
    /\ req' = [req EXCEPT ![r] = [@ EXCEPT !.st = "open", !.c = c, !.s = s, !.may = {}]]
    /\ UNCHANGED <<strict, dev, nsf, cst, send, pr, blocked, dnr, maxc, ga, resv, lowm, doomed>>

(* DATA of n bytes (first byte b0, last byte b1).  C18 "not lost": every attempt of a request,  *)
(* first or retried, carries the request body from its first byte (position-dependent pattern)  *)
(* and may end the stream only after the complete body; so a retry that resumes a partly        *)
(* consumed one-shot body (truncated request) is not a step.                                     *)
Data(c, s, n, es, b0, b1) ==
    /\ c \in Conns /\ s \in DOMAIN own[c]
    /\ LET r == own[c][s].r  off == own[c][s].n IN
       J18 => /\ off + n <= req[r].len
              /\ n > 0 => (b0 = Pat(r, off) /\ b1 = Pat(r, off + n - 1))
              /\ es => off + n = req[r].len
    /\ own' = [own EXCEPT ![c][s].n = @ + n]
    /\ cend' = [cend EXCEPT ![c] = IF es THEN @ \cup {s} ELSE @]
    /\ IF es /\ s \in open[c] /\ s \in send[c] THEN Drop(c, {s}) ELSE NoDrop
    /\ UNCHANGED <<strict, dev, nsf, cst, lastId, send, fresh, freshLo, pr, blocked, dnr, maxc, ga, resv, req>>

(* RST_STREAM from the client.  A CANCEL (8) reset of a request the server has not answered in  *)
(* any way keeps its concurrency slot until a PING ack ("pending reset").                        *)
Rst(c, s, code) ==
    /\ c \in Conns /\ s \in DOMAIN own[c]     \* (a reset of a stream the server has just closed is harmless)
    /\ (J18 /\ s \in open[c]) => s \in doomed[c]           \* C18: in-flight requests are not dropped
    /\ LET can  == code = 8 /\ s \in fresh[c]
           must == can /\ s \in open[c] /\ s \in freshLo[c] /\ ~blocked[c] /\ ~dnr[c] /\ ~ga[c].on IN
       \/ can /\ pr' = [pr EXCEPT ![c] = @ + 1]
       \/ ~must /\ pr' = pr
    /\ Drop(c, {s})
    /\ UNCHANGED <<strict, dev, nsf, cst, lastId, cend, send, fresh, freshLo, blocked, dnr, maxc, ga, resv, own, req>>

(* RoundTrip returns *)
Ret(r, kind) ==
    /\ r \in Reqs /\ req[r].st \in {"fin", "wait"}
    /\ \/ kind \in req[r].may
       \/ /\ kind = "unusable" /\ req[r].st = "wait" /\ req[r].direct # 0     \* direct call on a connection that
          /\ LET c == req[r].direct IN                                         \* takes no requests (now)
             ~Usable(c) \/ (~strict /\ Count(c) + resv[c] >= maxc[c])
       \/ kind = "hdrerr" /\ req[r].st = "wait" /\ req[r].hdr # "ok"       \* refused while encoding HEADERS
    /\ req' = [req EXCEPT ![r] = [@ EXCEPT !.st = "done", !.may = {}]]
    /\ nsf' = IF req[r].st = "wait" /\ kind \in {"unusable", "notest"} THEN nsf + 1 ELSE nsf
    /\ UNCHANGED <<strict, dev, connVars>>

(* the client closes the connection.  C18: not under a request the server may still answer. *)
CClosed(c) ==
    /\ c \in Conns /\ cst[c] # "none"
    /\ J18 => ~\E r \in Reqs : req[r].st = "open" /\ req[r].c = c /\ cst[c] = "up"
    /\ cst' = [cst EXCEPT ![c] = "closed"]
    /\ Drop(c, open[c])
    /\ UNCHANGED <<strict, dev, nsf, lastId, cend, send, fresh, freshLo, pr, blocked, dnr, maxc, ga, resv, own, req>>

-----------------------------------------------------------------------------
(* ---------------- quiescent points ---------------- *)
Waiting == {r \in Reqs : req[r].st = "wait"}

(* facts: a set of records [c, live, pr, rv, pd] read from the real connections (white box)     *)
QuiesceOK(facts) ==
    /\ \A r \in Reqs : req[r].st # "fin"                     \* every RoundTrip that had to return did
    /\ \A f \in facts :
         /\ f.c \in Conns
         /\ cst[f.c] = "up" => f.live = open[f.c] /\ f.pr = pr[f.c]     \* the spec's view is the client's
         /\ J17 => IF strict
                   THEN (f.pd > 0 /\ Usable(f.c)) => Count(f.c) + f.rv >= lowm[f.c]                 \* waiting only when full
                   ELSE f.pd <= Cardinality({r \in Waiting : req[r].direct = f.c})                     \* pool never queues
         (* reservations (cc.streamsReserved) are compared exactly: one per reserved-and-unused slot, released *)
         (* once.  Fewer: only the known double release of RoundTrips that ended without a stream id (at most   *)
         (* nsf of them since the last q, see ReservationLost); more: only requests queued in strict mode       *)
         /\ (J17 /\ Usable(f.c)) => resv[f.c] - f.rv <= nsf
         /\ (J17 /\ ~strict /\ cst[f.c] = "up") => f.rv <= resv[f.c]
    /\ (J17 /\ strict) =>
          FoldSet(LAMBDA f, acc : acc + f.pd + (IF cst[f.c] = "up" /\ f.rv > resv[f.c] THEN f.rv - resv[f.c] ELSE 0), 0, facts)
             <= Cardinality(Waiting)

(* at a quiescent point the choice "retry or report" has been made.                              *)
(* Named deviations of the real code (known findings) are recorded in dev (judged through         *)
(* Trace!NoNewDeviation) and the code's view is taken over so that the rest of the trace is       *)
(* still judged:                                                                                   *)
(*  ReservationLost  the connection holds fewer reservations than were made and not used (a       *)
(*                   RoundTrip that fails before it gets a stream id releases two);                *)
(*  StrictQueueStall strict mode: a request waits for a slot although the connection has room;    *)
(*                   the slots are "taken" by the reservations of the requests queued behind it.   *)
StallAt(f) == strict /\ f.pd > 0 /\ Usable(f.c) /\ Count(f.c) + resv[f.c] < lowm[f.c]
Quiesce(facts) ==
    /\ QuiesceOK(facts)
    /\ req' = [r \in Reqs |-> IF req[r].st = "wait" THEN [req[r] EXCEPT !.may = {}] ELSE req[r]]
    /\ LET less == {f \in facts : cst[f.c] = "up" /\ f.rv < resv[f.c]}
           lost == {f \in less : Usable(f.c)}          \* (on a connection that takes no requests it does not matter)
           stall == {f \in facts : StallAt(f)} IN
       /\ resv' = [c \in Conns |-> IF \E f \in less : f.c = c THEN (CHOOSE f \in less : f.c = c).rv ELSE resv[c]]
       /\ dev' = dev \cup (IF lost # {} THEN {"ReservationLost"} ELSE {}) \cup (IF stall # {} THEN {"StrictQueueStall"} ELSE {})
    (* the allowance for the known double release is kept while queued requests' reservations can hide a loss *)
    /\ nsf' = IF \E f \in facts : cst[f.c] = "up" /\ (f.rv > resv[f.c] \/ f.pd > 0) THEN nsf ELSE 0
    /\ UNCHANGED <<strict, cst, lastId, open, cend, send, fresh, freshLo, pr, blocked, dnr, maxc, ga, lowm, doomed, own>>

NoDeviation == dev = {}

(* end of a scenario: everything answered, clocks advanced, GOAWAY connections closed *)
AllTerminated == \A r \in Reqs : req[r].st \in {"new", "done"}

-----------------------------------------------------------------------------
(* ---------------- closed system for model checking ---------------- *)
Init == \E st \in MCStrict : InitWith(st)

Ids == {i \in 1..MCIds : i % 2 = 1}
NextFree(c) == lastId[c] + (IF lastId[c] = 0 THEN 1 ELSE 2)

ClientStep ==
    \/ \E c \in Conns : Dial(c) /\ \E r \in Waiting : req[r].direct = 0
    \/ \E c \in Conns, r \in Reqs : NextFree(c) <= MCIds /\ Hdr(c, NextFree(c), r, req[r].body = "none")
    \/ \E c \in Conns : \E s \in open[c] \ cend[c] :
          LET r == own[c][s].r  off == own[c][s].n  n == req[r].len - off IN
          Data(c, s, n, TRUE, Pat(r, off), Pat(r, off + n - 1))
    \/ \E c \in Conns : \E s \in doomed[c] : \E code \in {8} : Rst(c, s, code)
    \/ \E r \in Reqs : \E k \in req[r].may \cup {"unusable", "hdrerr"} : Ret(r, k)
    \/ \E c \in Conns : (ga[c].on \/ dnr[c] \/ cst[c] = "closed") /\ open[c] = {} /\ cst[c] = "up" /\ CClosed(c)

On(x) == x \in MCEnv
BodyLen(b) == IF b = "none" THEN 0 ELSE 2
EnvStep ==
    \/ \E r \in Reqs, b \in MCBodies : (\A q \in Reqs : q < r => req[q].st # "new") /\ Start(r, b, BodyLen(b), "ok")
    \/ On("cancel") /\ \E r \in Reqs : Cancel(r) /\ req[r].st # "done"
    \/ On("closebody") /\ \E r \in Reqs : CloseBody(r) /\ req[r].c \in Conns /\ req[r].s \in open[req[r].c]
    \/ On("settings") /\ \E c \in Conns, m \in MCMax : Settings(c, m) /\ m # maxc[c]
    \/ On("settings_other") /\ \E c \in Conns : SettingsOther(c, FALSE) /\ freshLo[c] # {}
    \/ \E c \in Conns : \E s \in open[c] \ send[c] : \E es \in (IF On("closebody") THEN BOOLEAN ELSE {TRUE}) :
          Resp(c, s, es) /\ InFlight(OwnerOf(c, s), c, s)
    \/ \E c \in Conns : \E s \in open[c] \ send[c] : SData(c, s, TRUE) /\ ~InFlight(OwnerOf(c, s), c, s)
    \/ On("srst") /\ \E c \in Conns : \E s \in open[c] \ send[c] : \E code \in {7, 8} : SRst(c, s, code)
    \/ On("pingack") /\ \E c \in Conns : pr[c] > 0 /\ PingAck(c)
    \/ On("goaway") /\ \E c \in Conns : ~ga[c].on /\ \E last \in {0} \cup open[c] \cup {2147483647} :
          \E code \in (IF On("goaway_err") THEN {0, 2} ELSE {0}) : GoAway(c, last, code)
    \/ On("goaway") /\ \E c \in Conns : ga[c].on /\ SClose(c)

(* Spec: the client runs to quiescence between two environment events (what the conformance     *)
(* driver does); FullSpec: every interleaving of client and environment steps.                   *)
Next == ClientStep \/ (~ENABLED ClientStep /\ EnvStep)
Spec == Init /\ [][Next]_vars
FullNext == ClientStep \/ EnvStep
FullSpec == Init /\ [][FullNext]_vars

(* ---------------- what TLC checks on the closed system ---------------- *)
TypeOK ==
    /\ strict \in BOOLEAN
    /\ \A c \in Conns :
         /\ cst[c] \in {"none", "up", "closed"}
         /\ open[c] \subseteq DOMAIN own[c] /\ doomed[c] \subseteq open[c]
         /\ pr[c] \in Nat /\ resv[c] \in Nat
    /\ \A r \in Reqs : req[r].st \in {"new", "wait", "open", "fin", "done"}

(* C17: ids written are odd and never above lastId; the count of slots in use only grows within  *)
(* the limit in force (streams open when the limit drops may finish)                             *)
IdsOdd == \A c \in Conns : \A s \in DOMAIN own[c] : s % 2 = 1 /\ s <= lastId[c]
GrowWithinLimit == [][\A c \in Conns : (cst'[c] = "up" /\ Cardinality(open'[c]) + pr'[c] > Count(c))
                                          => Cardinality(open'[c]) + pr'[c] <= maxc'[c]]_vars
(* C18: a request believed in flight has exactly its one live stream; no second copy anywhere *)
InFlightIsLive == \A r \in Reqs : req[r].st = "open" => req[r].s \in open[req[r].c] \ doomed[req[r].c]
NoSecondCopy == \A r \in Reqs :
    Cardinality({cs \in {<<c, s>> : c \in Conns, s \in Ids} : cs[2] \in open[cs[1]] \ doomed[cs[1]] /\ own[cs[1]][cs[2]].r = r /\ req[r].st # "done"}) <= 1
(* C18: after GOAWAY no stream is opened on that connection *)
QuietAfterGoAway == [][\A c \in Conns : ga[c].on => lastId'[c] = lastId[c]]_vars
IncreasingIds == [][\A c \in Conns : lastId'[c] >= lastId[c]]_vars
mcView == <<strict, dev, nsf, cst, lastId, open, cend, send, fresh, freshLo, pr, blocked, dnr, maxc, ga, resv, lowm, doomed, own, req>>
=============================================================================
