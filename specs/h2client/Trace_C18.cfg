SPECIFICATION TSpec
CONSTANTS
  Conns = {1, 2, 3, 4, 5, 6, 7, 8, 9, 10, 11, 12}
  Reqs = {1, 2, 3, 4, 5, 6, 7, 8, 9, 10}
  Judge = {"C18"}
  Inf = 1000000
  MCMax = {}
  MCIds = 0
  MCBodies = {}
  MCEnv = {}
  MCStrict = {}
CONSTRAINT Mark
POSTCONDITION AllConsumed
CHECK_DEADLOCK FALSE
