-------------------------------- MODULE Gen --------------------------------
(* Scenario generator: random walks of the closed design model H2Client (client runs to       *)
(* quiescence between two environment events).  Only the environment events are exported, in   *)
(* the vocabulary of the Go driver, which executes them against the real Transport; what the   *)
(* real client then does is recorded and judged by Trace.tla (not by the model's own choices). *)
EXTENDS H2Client, Json

CONSTANT GenDepth
VARIABLE hist
gvars == <<vars, hist>>

GInit == Init /\ hist = <<[e |-> "hdr", strict |-> strict]>>
Rec(x) == hist' = Append(hist, x)
Lm(c, last) == IF last = 0 THEN "zero" ELSE IF last = 2147483647 THEN "max" ELSE "at"

GEnv ==
    \/ \E r \in Reqs, b \in MCBodies, h \in {"ok", "ok", "ok", "big", "bad"} :
          /\ (\A q \in Reqs : q < r => req[q].st # "new") /\ (h = "ok" \/ b = "none")
          /\ \/ Start(r, b, BodyLen(b), h) /\ Rec([e |-> "start", body |-> b, hdr |-> h])
             \/ \E c \in Conns : StartOn(r, c, b, BodyLen(b), h) /\ cst[c] = "up" /\ resv[c] > 0
                                  /\ Rec([e |-> "starton", c |-> c, body |-> b, hdr |-> h])
    \/ \E c \in Conns, lim \in BOOLEAN : cst[c] = "up" /\ resv[c] < 2
          /\ Reserve(c, MayOpen(c) /\ ((strict /\ ~lim) \/ Count(c) + resv[c] < maxc[c]), lim)
          /\ Rec([e |-> "reserve", c |-> c, via |-> IF lim THEN "nethttp" ELSE "pool"])
    \/ \E c \in Conns : resv[c] > 0 /\ Release(c) /\ Rec([e |-> "release", c |-> c])
    \/ \E r \in Reqs : Cancel(r) /\ Rec([e |-> "cancel", r |-> r])
          /\ (req[r].st # "done" \/ (req[r].c \in Conns /\ req[r].s \in open[req[r].c] \ doomed[req[r].c]))
    \/ \E r \in Reqs : CloseBody(r) /\ req[r].c \in Conns /\ req[r].s \in open[req[r].c] /\ Rec([e |-> "closebody", r |-> r])
    \/ \E c \in Conns, m \in MCMax : Settings(c, m) /\ m # maxc[c] /\ Rec([e |-> "settings", c |-> c, max |-> m])
    \/ \E c \in Conns : \E k \in {"empty", "mfs", "iws", "hts"} : maxc[c] # Inf /\ hist[Len(hist)].e # "settings_other"
          /\ SettingsOther(c, k = "iws") /\ Rec([e |-> "settings_other", c |-> c, kind |-> k])
    \/ \E c \in Conns : \E s \in open[c] \ send[c] : \E es \in BOOLEAN :
          Resp(c, s, es) /\ InFlight(OwnerOf(c, s), c, s) /\ Rec([e |-> "resp", r |-> OwnerOf(c, s), es |-> es])
    \/ \E c \in Conns : \E s \in open[c] \ send[c] : SData(c, s, TRUE) /\ ~InFlight(OwnerOf(c, s), c, s)
          /\ Rec([e |-> "data", r |-> OwnerOf(c, s), es |-> TRUE])
    \/ \E c \in Conns : \E s \in open[c] \ send[c] : \E code \in {7, 8, 2} : SRst(c, s, code)
          /\ Rec([e |-> "srst", r |-> OwnerOf(c, s), code |-> code])
    \/ \E c \in Conns : pr[c] > 0 /\ PingAck(c) /\ Rec([e |-> "pingack", c |-> c])
    \/ \E c \in Conns : \E last \in {0} \cup open[c] \cup {2147483647} : \E code \in {0, 2} :
          /\ ~ga[c].on /\ GoAway(c, last, code)
          /\ Rec([e |-> "goaway", c |-> c, lm |-> Lm(c, last), r |-> OwnerOf(c, last), code |-> code])
    \/ \E c \in Conns : ga[c].on /\ SClose(c) /\ Rec([e |-> "close", c |-> c])
    \/ (\E r \in Reqs : req[r].st = "wait") /\ hist[Len(hist)].e # "tick" /\ UNCHANGED vars /\ Rec([e |-> "tick"])
    \/ \E r \in Reqs : \E k \in {"bwrite", "bclose"} :
          /\ req[r].body \in {"ggb", "gonce"} /\ req[r].st \in {"open", "done"}
          /\ ~\E i \in 1..Len(hist) : hist[i] = [e |-> k, r |-> r]
          /\ UNCHANGED vars /\ Rec([e |-> k, r |-> r])

GNext == \/ ClientStep /\ UNCHANGED hist
         \/ ~ENABLED ClientStep /\ GEnv

GSpec == GInit /\ [][GNext]_gvars

Emit == Len(hist) # GenDepth \/ PrintT(<<"BEH", ToJson(hist)>>)
=============================================================================
