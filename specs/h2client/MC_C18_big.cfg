SPECIFICATION Spec
CONSTANTS
  Conns = {1, 2}
  Reqs = {1, 2}
  Judge = {"C17", "C18"}
  Inf = 1000000
  MCMax = {}
  MCIds = 3
  MCBodies = {"none", "once"}
  MCEnv = {"goaway", "goaway_err", "srst", "cancel"}
  MCStrict = {TRUE, FALSE}
INVARIANTS TypeOK IdsOdd InFlightIsLive NoSecondCopy
PROPERTIES GrowWithinLimit QuietAfterGoAway IncreasingIds
CHECK_DEADLOCK FALSE
