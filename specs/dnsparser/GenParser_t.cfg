SPECIFICATION GSpec
CONSTANTS
  Types = {"A", "NS", "CNAME", "SOA", "PTR", "MX", "TXT", "AAAA", "SRV", "OPT", "SVCB", "HTTPS", "X"}
  Getters = {"A", "NS", "CNAME", "SOA", "PTR", "MX", "TXT", "AAAA", "SRV", "OPT", "SVCB", "HTTPS", "X"}
  SmallGetters = {"A", "CNAME", "MX", "X"}
  TypeSeq <- TypeSeq13
  GenQ = 2
  GenR = 5
  VarR = 4
  Rots = {0, 4, 8}
  GenDepth = 0
  Walk = FALSE
  Messages <- GenMsgs
VIEW View
INVARIANTS TypeOK PosDetermined PeekInv UnpackOK CanFinish EmitB
CHECK_DEADLOCK FALSE
