------------------------------ MODULE MCParser ------------------------------
(* Exhaustive instances of Parser: every model message within the bounds. *)
EXTENDS Parser

CONSTANTS MaxQ, MaxR, MaxCnt

SeqsUpTo(S, n) == UNION {[1..k -> S] : k \in 0..n}

MsgsFull ==
  {M \in [hdr : BOOLEAN, nq : 0..MaxQ, res : SeqsUpTo(Types, MaxR), cnt : [1..4 -> 0..MaxCnt],
          avail : 0..(MaxQ + MaxR), cut : {0}, ptr : {FALSE}] : WellShaped(M)}
=============================================================================
