SPECIFICATION GSpec
CONSTANTS
  Types = {"A", "NS", "CNAME", "SOA", "PTR", "MX", "TXT", "AAAA", "SRV", "OPT", "SVCB", "HTTPS", "X"}
  Getters = {"A", "NS", "CNAME", "SOA", "PTR", "MX", "TXT", "AAAA", "SRV", "OPT", "SVCB", "HTTPS", "X"}
  SmallGetters = {"A"}
  TypeSeq <- TypeSeq13
  GenQ = 2
  GenR = 5
  VarR = 3
  Rots = {0, 4, 8}
  GenDepth = 30
  Walk = TRUE
  Messages <- GenMsgs
INVARIANTS EmitW
CHECK_DEADLOCK FALSE
