------------------------------ MODULE GenParser ------------------------------
(***************************************************************************)
(* X07 generator (spec -> code).  One item per abstract parser state of     *)
(* every model message:                                                     *)
(*   msg     the model message (the driver lays it out as bytes)            *)
(*   path    a call sequence that reaches the state, every call with the    *)
(*           result class, the items handed out and the state the spec      *)
(*           predicts                                                       *)
(*   probes  EVERY method called on a copy of the parser in that state      *)
(*           (Parser is documented as safe to copy), with its prediction    *)
(*   unpack  what Message.Unpack returns for these bytes (initial item)     *)
(* A step is <<op, section, getter, result, items, sec, idx, pk, pos, rwd>>.*)
(* bfs: VIEW <<msg, st>> makes TLC visit every abstract state once and keep *)
(* the first path that reaches it.  simulate (Walk = TRUE): random walks in *)
(* which every method is enabled at every state, printed at GenDepth.       *)
(***************************************************************************)
EXTENDS Parser, Json

CONSTANTS TypeSeq,   \* the types as a sequence (rotated to fill the records of a message)
          GenQ, GenR, Rots, VarR, GenDepth, Walk,
          SmallGetters \* the typed getters probed at every state; ALL getters are probed on
                       \* the one-record "matrix" messages (every getter x every record type)

VARIABLE hist
gvars == <<msg, st, hist>>
View == <<msg, st>>

TypeSeq3  == <<"A", "CNAME", "X">>
TypeSeq13 == <<"A", "CNAME", "X", "NS", "SOA", "PTR", "MX", "TXT", "AAAA", "SRV", "OPT", "SVCB", "HTTPS">>

Rot(k, r) == [i \in 1..k |-> TypeSeq[((r + i - 1) % Len(TypeSeq)) + 1]]
Splits(n) == {sp \in [1..3 -> 0..n] : sp[1] + sp[2] + sp[3] = n}

WF(q, r, sp) == [hdr |-> TRUE, nq |-> q, res |-> r, cnt |-> <<q, sp[1], sp[2], sp[3]>>,
                 avail |-> q + Len(r), cut |-> 0, ptr |-> (q + Len(r) + sp[1]) % 2 = 1]

Bases(K) == UNION {{WF(q, Rot(k, r), sp) : q \in 0..GenQ, r \in Rots, sp \in Splits(k)} : k \in K}

(* what the header claims and what the bytes hold differ *)
Truncated(M) == {[M EXCEPT !.avail = a, !.cut = (a + M.cnt[2] + 2 * M.cnt[3]) % 4] : a \in 0..(NItems(M) - 1)}
NoHeader(M)  == {[M EXCEPT !.hdr = FALSE, !.avail = 0, !.cut = c] : c \in 0..3}
Inflated(M)  == {[M EXCEPT !.cnt[j] = @ + 1] : j \in 2..4} \cup {[M EXCEPT !.cnt[2 + (NItems(M) % 3)] = @ + 2]}
                \cup (IF M.res = <<>> THEN {[M EXCEPT !.cnt[1] = @ + 1]} ELSE {})
Deflated(M)  == {[M EXCEPT !.cnt[j] = @ - 1] : j \in {i \in 2..4 : M.cnt[i] > 0}}
Variants(M)  == Truncated(M) \cup Inflated(M) \cup Deflated(M)
                \cup {[I EXCEPT !.avail = @ - 1, !.cut = 2] : I \in {J \in Inflated(M) : J.avail > 0}}

Matrix  == {WF(0, Rot(1, r), sp) : r \in 0..(Len(TypeSeq) - 1), sp \in {<<1, 0, 0>>}}
GenMsgs == Matrix \cup Bases(0..GenR) \cup UNION {Variants(M) : M \in {B \in Bases(0..VarR) : B.nq = GenQ}}
           \cup NoHeader(WF(1, Rot(1, 0), <<1, 0, 0>>))

StepJ(m, a) == <<m.op, m.s, m.g, a.res, a.recs, a.st.sec, a.st.idx, a.st.pk, a.st.pos, a.st.rwd>>

SetToSeq(S) == LET RECURSIVE TS(_)
                   TS(T) == IF T = {} THEN <<>> ELSE LET x == CHOOSE v \in T : TRUE IN <<x>> \o TS(T \ {x})
               IN TS(S)
MSeq == SetToSeq(Methods)

(* random walks: every per-section method everywhere; of the typed getters the matching one, *)
(* UnknownResource and one that does not match (all of them are probed in the bfs items);   *)
(* before Start a few calls only, per-section methods of the current and the neighbouring   *)
(* sections, Start again only at the end or from a peeked record: walks that make progress    *)
NextType(t) == LET i == CHOOSE j \in 1..Len(TypeSeq) : TypeSeq[j] = t IN TypeSeq[(i % Len(TypeSeq)) + 1]
WalkPick(m) ==
  IF st.sec = SecNotStarted
  THEN m.op = "Start" \/ (m.op = "One" /\ m.s = SecQ) \/ (m.op = "Get" /\ m.g = "X")
  ELSE CASE m.op = "Start" -> st.sec = SecDone \/ st.pk
         [] m.op = "Get"   -> IF st.pk THEN LET t == TypeOf(msg, st.pos + 1) IN m.g \in {t, "X", NextType(t)}
                              ELSE m.g = TypeSeq[1]
         [] OTHER          -> \/ m.s = st.sec
                              \/ m.s \in {st.sec - 1, st.sec + 1} /\ m.op \in {"One", "Header"} /\ ~st.pk
                              \/ m.s = st.sec + 1 /\ m.op = "Header"

GInit == Init /\ hist = <<>>
(* bfs: UnknownResource stands for all typed getters (they move the state in the same way) *)
BfsMethods == {m \in Methods : m.op = "Get" => m.g = "X"}
GNext == \E m \in (IF Walk THEN Methods ELSE BfsMethods) :
           LET a == Apply(msg, st, m) IN
           /\ IF Walk THEN WalkPick(m) ELSE a.st # st
           /\ st' = a.st
           /\ hist' = Append(hist, StepJ(m, a))
           /\ UNCHANGED msg
GSpec == GInit /\ [][GNext]_gvars

NoUnpack == [res |-> "-", q |-> <<>>, an |-> <<>>, ns |-> <<>>, ar |-> <<>>]

(* bfs: the design invariants of Parser are checked on the same pass that prints the item *)
MSeqSmall == SelectSeq(MSeq, LAMBDA m : m.op = "Get" => m.g \in SmallGetters)
EmitB ==
  LET ms == IF msg.nq = 0 /\ Len(msg.res) = 1 /\ WellFormed(msg) THEN MSeq ELSE MSeqSmall
      P  == [i \in 1..Len(ms) |-> Apply(msg, st, ms[i])]
  IN
  /\ \A i \in 1..Len(ms) : StepOK(msg, st, ms[i], P[i])
  /\ PrintT(<<"BEH", ToJson([msg |-> msg, path |-> hist,
                            probes |-> [i \in 1..Len(ms) |-> StepJ(ms[i], P[i])],
                            unpack |-> IF hist = <<>> THEN Unpack(msg) ELSE NoUnpack])>>)
EmitW == Len(hist) # GenDepth
         \/ PrintT(<<"BEH", ToJson([msg |-> msg, path |-> hist, probes |-> <<>>, unpack |-> Unpack(msg)])>>)
=============================================================================
