SPECIFICATION GSpec
CONSTANTS
  MaxCount = 65535
  MaxAdd = 3
  GenDepth = 0
  Walk = FALSE
  Bulk = TRUE
  QKinds <- GQKinds
  RKinds <- GRKinds
VIEW View
INVARIANTS TypeOK CountsMatch InOrder OpenOnly ZeroInert GhostInv EmitB EmitBulk
CHECK_DEADLOCK FALSE
