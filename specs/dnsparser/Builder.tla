------------------------------- MODULE Builder -------------------------------
(***************************************************************************)
(* X08 - the section protocol of dnsmessage.Builder (golang.org/x/net).     *)
(*                                                                         *)
(* The incremental packer as an explicit state machine over                 *)
(*   sec    the open section (numbers = the package's `section`:            *)
(*          0 zero-value Builder, 1 header written (NewBuilder),            *)
(*          2..5 questions / answers / authorities / additionals, 6 done)   *)
(*   cnt    the four counts that Finish writes into the header              *)
(*   comp   compression enabled                                             *)
(*   recs   what has been added so far: <<section, kind, multiplicity>>     *)
(* Every public method is a FUNCTION Apply(b, m) giving the result class,   *)
(* the record it appended (if any) and the next state.  What Finish must    *)
(* produce is a function of the state: the prefix, a header with cnt, and   *)
(* bytes that Message.Unpack reads back as recs, section by section.        *)
(*                                                                         *)
(* A record kind is [t, v]: t the type ("q" for a question), v the variant  *)
(*   "ok", "ok2"   packable (ok2 uses the owner name that the "badbody"     *)
(*                 variant uses)                                            *)
(*   "badname"     the owner name cannot be packed (not canonical)          *)
(*   "badbody"     the owner name packs, the body does not                  *)
(***************************************************************************)
EXTENDS Integers, Sequences, FiniteSets, TLC

CONSTANTS QKinds,    \* kinds of questions offered
          RKinds,    \* kinds of resources offered
          MaxCount   \* a section holds at most this many records (65535)

SecZero   == 0
SecHeader == 1
SecQ      == 2
SecAn     == 3
SecNs     == 4
SecAr     == 5
SecDone   == 6
WireSecs == SecQ..SecAr

Packable(k) == k.v \in {"ok", "ok2"}

BMethods ==
  {[op |-> "Start", s |-> s, t |-> "", v |-> "", n |-> 0] : s \in WireSecs}
  \cup {[op |-> "Question", s |-> 0, t |-> k.t, v |-> k.v, n |-> 1] : k \in QKinds}
  \cup {[op |-> "Resource", s |-> 0, t |-> k.t, v |-> k.v, n |-> 1] : k \in RKinds}
  \cup {[op |-> "EnableCompression", s |-> 0, t |-> "", v |-> "", n |-> 0],
        [op |-> "Finish", s |-> 0, t |-> "", v |-> "", n |-> 0]}

Results == {"ok", "ErrNotStarted", "ErrSectionDone", "err"}

(* poll is a ghost: "with compression on, an add failed after its owner name had  *)
(* been entered into the compression table" (named deviation F-dnsparser-2, see    *)
(* README).  No result depends on it.                                              *)
New  == [sec |-> SecHeader, cnt |-> <<0, 0, 0, 0>>, comp |-> FALSE, poll |-> FALSE, recs |-> <<>>]
ZeroB == [New EXCEPT !.sec = SecZero]

R(res, into, b) == [res |-> res, into |-> into, b |-> b]   \* into = section the record went to, 0 = none

StartB(b, s) ==
  IF b.sec <= SecZero THEN R("ErrNotStarted", 0, b)
  ELSE IF b.sec > s THEN R("ErrSectionDone", 0, b)
  ELSE R("ok", 0, [b EXCEPT !.sec = s])

(* the record has been packed behind the bytes built so far; it is committed only *)
(* if the section's count still has room                                          *)
Commit(b, m) ==
  LET i == b.sec - 1 IN
  IF b.cnt[i] + m.n > MaxCount
  THEN R("err", 0, [b EXCEPT !.poll = @ \/ b.comp])
  ELSE R("ok", b.sec, [b EXCEPT !.cnt[i] = @ + m.n, !.recs = Append(@, <<b.sec, [t |-> m.t, v |-> m.v], m.n>>)])

QuestionB(b, m) ==
  IF b.sec < SecQ THEN R("ErrNotStarted", 0, b)
  ELSE IF b.sec > SecQ THEN R("ErrSectionDone", 0, b)
  ELSE IF ~Packable(m) THEN R("err", 0, b)
  ELSE Commit(b, m)

ResourceB(b, m) ==
  IF b.sec < SecAn THEN R("ErrNotStarted", 0, b)
  ELSE IF b.sec > SecAr THEN R("ErrSectionDone", 0, b)
  ELSE IF ~Packable(m) THEN R("err", 0, [b EXCEPT !.poll = @ \/ (b.comp /\ m.v = "badbody")])
  ELSE Commit(b, m)

FinishB(b) == IF b.sec < SecHeader THEN R("ErrNotStarted", 0, b) ELSE R("ok", 0, [b EXCEPT !.sec = SecDone])

ApplyB(b, m) ==
  CASE m.op = "Start"    -> StartB(b, m.s)
    [] m.op = "Question" -> QuestionB(b, m)
    [] m.op = "Resource" -> ResourceB(b, m)
    [] m.op = "Bulk"     -> IF b.sec = SecQ THEN QuestionB(b, m) ELSE ResourceB(b, m)
    [] m.op = "EnableCompression" -> R("ok", 0, [b EXCEPT !.comp = TRUE, !.poll = FALSE])
    [] m.op = "Finish"   -> FinishB(b)

(* what Message.Unpack must read back from Finish's bytes: the records of section s, in order *)
SecRecs(b, s) == SelectSeq(b.recs, LAMBDA r : r[1] = s)

---------------------------------------------------------------------------
VARIABLES b
Init == b \in {New, ZeroB}
Next == \E m \in BMethods : b' = ApplyB(b, m).b
Spec == Init /\ [][Next]_b

---------------------------------------------------------------------------
(* Design-level properties *)
RECURSIVE SumN(_)
SumN(rs) == IF rs = <<>> THEN 0 ELSE rs[1][3] + SumN(Tail(rs))

TypeOK ==
  /\ b.sec \in SecZero..SecDone /\ b.comp \in BOOLEAN /\ b.poll \in BOOLEAN
  /\ b.cnt \in [1..4 -> 0..MaxCount]
  /\ \A i \in 1..Len(b.recs) : b.recs[i][1] \in WireSecs /\ b.recs[i][3] >= 1

(* the header counts are the numbers of records added, section by section *)
CountsMatch == \A s \in WireSecs : b.cnt[s - 1] = SumN(SecRecs(b, s))

(* the bytes are laid out in section order: records were only ever appended to the open section *)
InOrder == \A i, j \in 1..Len(b.recs) : i < j => b.recs[i][1] <= b.recs[j][1]
OpenOnly == b.sec < SecDone => \A i \in 1..Len(b.recs) : b.recs[i][1] <= b.sec
ZeroInert == b.sec = SecZero => b.recs = <<>>
GhostInv == b.poll => b.comp

ProjB(x) == [sec |-> x.sec, cnt |-> x.cnt, comp |-> x.comp, recs |-> x.recs]

StepOKB(s, m, a) ==
  /\ a.res \in Results
  \* sections are opened in order and never re-opened
  /\ a.b.sec >= s.sec
  /\ m.op = "Start" => /\ a.res = "ok" <=> (s.sec >= SecHeader /\ s.sec <= m.s)
                       /\ a.res = "ok" => a.b.sec = m.s
                       /\ a.res = "ErrSectionDone" <=> s.sec > m.s
                       /\ a.res = "ErrNotStarted" <=> s.sec = SecZero
  \* a record goes to the matching open section only
  /\ m.op = "Question" /\ a.res = "ok" => s.sec = SecQ /\ a.into = SecQ
  /\ m.op = "Resource" /\ a.res = "ok" => s.sec \in SecAn..SecAr /\ a.into = s.sec
  /\ m.op \in {"Question", "Resource", "Bulk"} /\ a.res = "ok" =>
        /\ Packable(m)
        /\ a.b.recs = Append(s.recs, <<s.sec, [t |-> m.t, v |-> m.v], m.n>>)
        /\ a.b.cnt[s.sec - 1] = s.cnt[s.sec - 1] + m.n
        /\ a.b.sec = s.sec
  \* anything but success leaves what has been built untouched
  /\ a.res # "ok" => ProjB(a.b) = ProjB(s) /\ a.into = 0
  /\ m.op \notin {"Question", "Resource", "Bulk"} => a.b.recs = s.recs /\ a.b.cnt = s.cnt /\ a.into = 0
  \* Finish closes; afterwards nothing can be added and Finish gives the same message again
  /\ m.op = "Finish" => (a.res = "ok" <=> s.sec >= SecHeader) /\ (a.res = "ok" => a.b.sec = SecDone)
  /\ s.sec = SecDone =>
        /\ a.b.recs = s.recs /\ a.b.cnt = s.cnt /\ a.b.sec = SecDone
        /\ m.op \in {"Start", "Question", "Resource"} => a.res = "ErrSectionDone"
  /\ s.sec = SecZero => a.b.sec = SecZero /\ (m.op # "EnableCompression" => a.res = "ErrNotStarted")
  \* the ghost never influences a result
  /\ LET c == ApplyB([s EXCEPT !.poll = ~@], m) IN c.res = a.res /\ c.into = a.into /\ ProjB(c.b) = ProjB(a.b)

AllStepsOKB == \A m \in BMethods : StepOKB(b, m, ApplyB(b, m))
=============================================================================
