------------------------------- MODULE Parser -------------------------------
(***************************************************************************)
(* X07 - the section protocol of dnsmessage.Parser (golang.org/x/net).      *)
(*                                                                         *)
(* The incremental parser is an explicit state machine over                 *)
(*   sec   the section being walked (numbers = the package's `section`)     *)
(*   idx   records of this section already parsed or skipped               *)
(*   pk    "a resource header has been peeked" (resHeaderValid)             *)
(*   pos   items of the message consumed so far (abstract offset)           *)
(* and every public method is a FUNCTION  Apply(M, st, m)  of the message   *)
(* M, the state and the method: it yields the result class, the items       *)
(* handed to the caller and the next state.                                 *)
(*                                                                         *)
(* A model message is what is on the wire, not what the header claims:      *)
(*   hdr    the 12 header bytes are there                                   *)
(*   cnt    the four counts of the header (questions, answers, authorities, *)
(*          additionals) - possibly larger or smaller than what follows     *)
(*   nq     number of question items that follow the header                 *)
(*   res    the resource records that follow them (their types), flat:      *)
(*          the wire format has no section marks, only the counts           *)
(*   avail  how many items (questions, then resources) are COMPLETELY       *)
(*          inside the bytes; item avail+1 (if any) is cut somewhere        *)
(*   cut, ptr  layout selectors for the driver (where the cut is, whether   *)
(*          names use compression pointers); invisible to the protocol      *)
(***************************************************************************)
EXTENDS Integers, Sequences, FiniteSets, TLC

CONSTANTS Types,     \* record types in model messages; "X" = a type the package does not know
          Getters,   \* typed getters offered;           "X" = UnknownResource
          Messages   \* the model messages (chosen by the MC / Gen modules)

SecNotStarted == 0
SecHeader     == 1      \* only used by the Builder
SecQ          == 2
SecAn         == 3
SecNs         == 4
SecAr         == 5
SecDone       == 6
ResSecs == {SecAn, SecNs, SecAr}
WireSecs == {SecQ} \cup ResSecs

Cnt(M, s) == M.cnt[s - 1]                     \* s \in WireSecs
NItems(M) == M.nq + Len(M.res)
TypeOf(M, k) == IF k <= M.nq THEN "Q" ELSE M.res[k - M.nq]
SumCnt(M, s) == LET RECURSIVE S(_)
                    S(t) == IF t >= s THEN 0 ELSE Cnt(M, t) + S(t + 1)
                IN S(SecQ)                    \* counts of the sections before s
Total(M) == SumCnt(M, SecDone)

(* Only messages in which a Question method meets a question item and a     *)
(* resource method a resource record (or the end of the bytes) are          *)
(* predictable from the abstract state; the others are outside the model.   *)
WellShaped(M) ==
  /\ M.avail <= NItems(M)
  /\ (~M.hdr => M.avail = 0)
  /\ \/ Cnt(M, SecQ) = M.nq
     \/ Cnt(M, SecQ) > M.nq /\ M.res = <<>>

WellFormed(M) == M.hdr /\ M.avail = NItems(M) /\ Cnt(M, SecQ) = M.nq
                 /\ Total(M) = NItems(M)

---------------------------------------------------------------------------
Zero == [sec |-> SecNotStarted, idx |-> 0, pk |-> FALSE, pos |-> 0, rwd |-> FALSE]
(* rwd is a ghost: "the implementation's byte offset has been rewound to    *)
(* the start of the peeked record by a resource method of ANOTHER section"  *)
(* (named deviation F-dnsparser-1, see README).  No result depends on it.   *)

Methods ==
  {[op |-> "Start", s |-> 0, g |-> ""]}
  \cup {[op |-> o, s |-> SecQ, g |-> ""] : o \in {"One", "All", "Skip", "SkipAll"}}
  \cup {[op |-> o, s |-> s, g |-> ""] : o \in {"Header", "One", "All", "Skip", "SkipAll"}, s \in ResSecs}
  \cup {[op |-> "Get", s |-> 0, g |-> g] : g \in Getters}

Results == {"ok", "ErrNotStarted", "ErrSectionDone", "err"}

R(res, recs, st) == [res |-> res, recs |-> recs, st |-> st]

Present(M, pos) == M.hdr /\ pos < M.avail      \* item pos+1 lies completely inside the bytes

(* checkAdvance: the common prologue of every per-section method *)
CheckAdvance(M, st, s) ==
  IF st.sec < s THEN [r |-> "ErrNotStarted", st |-> st]
  ELSE IF st.sec > s THEN [r |-> "ErrSectionDone", st |-> st]
  ELSE IF st.idx = Cnt(M, s)
       THEN [r |-> "ErrSectionDone",
             st |-> [st EXCEPT !.sec = s + 1, !.idx = 0, !.pk = FALSE, !.rwd = FALSE]]
       ELSE [r |-> "go", st |-> [st EXCEPT !.pk = FALSE, !.rwd = FALSE]]

Advance(st) == [st EXCEPT !.idx = @ + 1, !.pos = @ + 1, !.pk = FALSE, !.rwd = FALSE]

(* Question / Answer / Authority / Additional, and a Skip without a peeked header *)
One(M, st, s) ==
  LET c == CheckAdvance(M, st, s) IN
  IF c.r # "go" THEN R(c.r, <<>>, c.st)
  ELSE IF Present(M, c.st.pos) THEN R("ok", <<c.st.pos + 1>>, Advance(c.st))
  ELSE R("err", <<>>, c.st)

(* SkipQuestion / SkipAnswer / ...: after a peek it skips exactly the peeked record *)
Skip(M, st, s) ==
  IF st.pk /\ st.sec = s THEN R("ok", <<>>, Advance(st))
  ELSE LET o == One(M, st, s) IN R(o.res, <<>>, o.st)

(* AnswerHeader / AuthorityHeader / AdditionalHeader *)
Hdr(M, st, s) ==
  LET c == CheckAdvance(M, st, s) IN
  IF c.r # "go" THEN R(c.r, <<>>, c.st)
  ELSE IF Present(M, c.st.pos) THEN R("ok", <<c.st.pos + 1>>, [c.st EXCEPT !.pk = TRUE])
  ELSE R("err", <<>>, c.st)

(* AResource ... UnknownResource: only after a peek, only if the type matches *)
Matches(g, t) == g = "X" \/ g = t
Get(M, st, g) ==
  IF st.pk /\ Matches(g, TypeOf(M, st.pos + 1))
  THEN R("ok", <<st.pos + 1>>, Advance(st))
  ELSE R("ErrNotStarted", <<>>, st)

(* AllQuestions / AllAnswers / ...: the remaining records of the section *)
RECURSIVE AllFrom(_, _, _, _)
AllFrom(M, st, s, acc) ==
  LET o == One(M, st, s) IN
  IF o.res = "ok" THEN AllFrom(M, o.st, s, acc \o o.recs)
  ELSE IF o.res = "ErrSectionDone" THEN R("ok", acc, o.st)
  ELSE R(o.res, <<>>, o.st)         \* the walk stops AT the record that failed

RECURSIVE SkipAllFrom(_, _, _)
SkipAllFrom(M, st, s) ==
  LET o == Skip(M, st, s) IN
  IF o.res = "ok" THEN SkipAllFrom(M, o.st, s)
  ELSE IF o.res = "ErrSectionDone" THEN R("ok", <<>>, o.st)
  ELSE R(o.res, <<>>, o.st)

StartP(M) == IF M.hdr THEN R("ok", <<>>, [Zero EXCEPT !.sec = SecQ]) ELSE R("err", <<>>, Zero)

(* ghost bookkeeping of the named deviation: XHeader / X / AllX of section s *)
(* called while a record of another section is peeked                       *)
Taint(st0, s, r) ==
  IF st0.pk /\ st0.sec # s /\ s \in ResSecs THEN R(r.res, r.recs, [r.st EXCEPT !.rwd = TRUE]) ELSE r

Apply(M, st, m) ==
  CASE m.op = "Start"   -> StartP(M)
    [] m.op = "One"     -> Taint(st, m.s, One(M, st, m.s))
    [] m.op = "Header"  -> Taint(st, m.s, Hdr(M, st, m.s))
    [] m.op = "All"     -> Taint(st, m.s, AllFrom(M, st, m.s, <<>>))
    [] m.op = "Skip"    -> Skip(M, st, m.s)
    [] m.op = "SkipAll" -> SkipAllFrom(M, st, m.s)
    [] m.op = "Get"     -> Get(M, st, m.g)

(* Message.Unpack = Start; AllQuestions; AllAnswers; AllAuthorities; AllAdditionals *)
Unpack(M) ==
  LET s0 == StartP(M)
      q  == AllFrom(M, s0.st, SecQ, <<>>)
      a  == AllFrom(M, q.st, SecAn, <<>>)
      n  == AllFrom(M, a.st, SecNs, <<>>)
      r  == AllFrom(M, n.st, SecAr, <<>>)
  IN IF s0.res = "ok" /\ q.res = "ok" /\ a.res = "ok" /\ n.res = "ok" /\ r.res = "ok"
     THEN [res |-> "ok", q |-> q.recs, an |-> a.recs, ns |-> n.recs, ar |-> r.recs]
     ELSE [res |-> "err", q |-> <<>>, an |-> <<>>, ns |-> <<>>, ar |-> <<>>]

---------------------------------------------------------------------------
VARIABLES msg, st
vars == <<msg, st>>

Init == msg \in Messages /\ st = Zero
Call(m) == st' = Apply(msg, st, m).st /\ UNCHANGED msg
Next == \E m \in Methods : Call(m)
Spec == Init /\ [][Next]_vars

---------------------------------------------------------------------------
(* Design-level properties *)

StateSet == [sec : {SecNotStarted} \cup WireSecs \cup {SecDone}, idx : Nat, pk : BOOLEAN,
             pos : Nat, rwd : BOOLEAN]

TypeOK == st \in StateSet /\ WellShaped(msg)

(* the abstract offset is determined by (section, index): nothing is read twice, *)
(* nothing is left out, a section is left only when its count is exhausted       *)
PosDetermined ==
  /\ st.sec \in WireSecs => st.pos = SumCnt(msg, st.sec) + st.idx /\ st.idx <= Cnt(msg, st.sec)
  /\ st.sec = SecDone => st.pos = Total(msg) /\ st.idx = 0
  /\ st.sec = SecNotStarted => st.pos = 0 /\ st.idx = 0
  /\ st.pos <= msg.avail

PeekInv ==
  /\ st.pk => st.sec \in ResSecs /\ st.idx < Cnt(msg, st.sec) /\ Present(msg, st.pos)
  /\ st.rwd => st.pk

Seq1(a, n) == [i \in 1..n |-> a + i]          \* <<a+1, ..., a+n>>
Proj(s) == [sec |-> s.sec, idx |-> s.idx, pk |-> s.pk, pos |-> s.pos]

StepOK(M, s, m, a) ==
  /\ a.res \in Results
  /\ a.st \in StateSet
  \* sections are walked strictly in order; only Start goes back
  /\ m.op # "Start" => a.st.sec >= s.sec /\ a.st.pos >= s.pos
  \* every item is handed out exactly once, in wire order, never beyond the bytes
  /\ m.op \in {"One", "All", "Get"} /\ a.res = "ok" => a.recs = Seq1(s.pos, a.st.pos - s.pos)
  /\ m.op = "Header" /\ a.res = "ok" => a.recs = <<s.pos + 1>> /\ a.st.pos = s.pos /\ a.st.pk
  /\ m.op \in {"Skip", "SkipAll", "Start"} \/ a.res # "ok" => a.recs = <<>>
  /\ \A i \in 1..Len(a.recs) : M.hdr /\ a.recs[i] <= M.avail
  \* ErrSectionDone exactly when the count is exhausted, ErrNotStarted exactly before the section
  /\ m.op \in {"One", "Skip", "Header"} =>
        /\ a.res = "ErrSectionDone" <=> (s.sec > m.s \/ (s.sec = m.s /\ s.idx = Cnt(M, m.s)))
        /\ a.res = "ErrNotStarted" <=> s.sec < m.s
        /\ a.res = "ok" => a.st.sec = m.s /\ s.sec = m.s
        \* an error leaves the walk where it was; ErrSectionDone at most closes the section
        /\ a.res \in {"ErrNotStarted", "err"} => Proj(a.st) = Proj(s)
        /\ a.res = "ErrSectionDone" =>
              \/ Proj(a.st) = Proj(s)
              \/ s.sec = m.s /\ Proj(a.st) = [sec |-> m.s + 1, idx |-> 0, pk |-> FALSE, pos |-> s.pos]
  \* AllX / SkipAllX: everything that is left of the section, then the section is closed
  /\ m.op \in {"All", "SkipAll"} =>
        /\ a.res = "ok" /\ s.sec = m.s => a.st.sec = m.s + 1 /\ a.st.idx = 0
                                          /\ a.st.pos = SumCnt(M, m.s) + Cnt(M, m.s)
        /\ a.res = "ok" /\ s.sec # m.s => s.sec > m.s /\ Proj(a.st) = Proj(s)
        /\ a.res = "ErrNotStarted" <=> s.sec < m.s
        /\ a.res # "ErrSectionDone"
  \* typed getters: only after a peek and only for the peeked type
  /\ m.op = "Get" =>
        /\ a.res = "ok" <=> s.pk /\ Matches(m.g, TypeOf(M, s.pos + 1))
        /\ a.res # "ok" => a.res = "ErrNotStarted" /\ a.st = s
        /\ a.res = "ok" => a.st.idx = s.idx + 1 /\ ~a.st.pk /\ a.st.sec = s.sec
  \* a Skip after a peek skips exactly the peeked record
  /\ m.op = "Skip" /\ s.pk /\ s.sec = m.s => a.res = "ok" /\ a.st.pos = s.pos + 1 /\ ~a.st.pk
  \* before Start and after the last section nothing is handed out
  /\ s.sec = SecNotStarted /\ m.op # "Start" => a.res = "ErrNotStarted" /\ a.st = s
  /\ s.sec = SecDone /\ m.op # "Start" =>
        /\ a.st = s /\ a.recs = <<>>
        /\ a.res = (CASE m.op = "Get" -> "ErrNotStarted"
                      [] m.op \in {"All", "SkipAll"} -> "ok"
                      [] OTHER -> "ErrSectionDone")

AllStepsOK == \A m \in Methods : StepOK(msg, st, m, Apply(msg, st, m))

(* the ghost never influences a result *)
GhostFree == \A m \in Methods :
  LET a == Apply(msg, st, m)
      b == Apply(msg, [st EXCEPT !.rwd = ~@], m)
  IN b.res = a.res /\ b.recs = a.recs /\ Proj(b.st) = Proj(a.st)

(* Message.Unpack is one particular walk; it succeeds exactly when everything  *)
(* the header announces is there, and then returns the items in wire order,    *)
(* split according to the counts.                                              *)
UnpackOK ==
  LET u == Unpack(msg) IN
  /\ u.res = "ok" <=> msg.hdr /\ Total(msg) <= msg.avail
  /\ u.res = "ok" =>
       /\ u.q \o u.an \o u.ns \o u.ar = Seq1(0, Total(msg))
       /\ Len(u.q) = Cnt(msg, SecQ) /\ Len(u.an) = Cnt(msg, SecAn)
       /\ Len(u.ns) = Cnt(msg, SecNs) /\ Len(u.ar) = Cnt(msg, SecAr)
  \* any walk that reaches the end has consumed exactly what Unpack returns
  /\ st.sec = SecDone => u.res = "ok" /\ st.pos = Total(msg)

(* From every state of a message that Unpack accepts the end remains reachable. *)
CanFinish == Unpack(msg).res = "ok" /\ st.sec # SecNotStarted =>
               LET a == SkipAllFrom(msg, st, SecQ)
                   b == SkipAllFrom(msg, a.st, SecAn)
                   c == SkipAllFrom(msg, b.st, SecNs)
                   d == SkipAllFrom(msg, c.st, SecAr)
               IN d.res = "ok" /\ d.st.sec = SecDone
=============================================================================
