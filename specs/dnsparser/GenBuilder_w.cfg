SPECIFICATION GSpec
CONSTANTS
  MaxCount = 65535
  MaxAdd = 0
  GenDepth = 24
  Walk = TRUE
  Bulk = FALSE
  QKinds <- GQKinds
  RKinds <- GRKinds
INVARIANTS EmitW
CHECK_DEADLOCK FALSE
