------------------------------ MODULE GenBuilder ------------------------------
(***************************************************************************)
(* X08 generator (spec -> code).  One item per abstract builder state:      *)
(*   new     how the builder is made: zero value or NewBuilder on a buffer   *)
(*           that already holds `prefix` bytes                               *)
(*   path    a call sequence reaching the state, every call with the result  *)
(*           class and the state the spec predicts                           *)
(*   probes  EVERY method (every record kind) called in that state; a        *)
(*           Builder cannot be copied, the driver replays the path per probe *)
(*           followed by Finish                                               *)
(* A step is <<op, section, type, variant, n, result, sec, cnt, comp, poll, into>>; *)
(* `into` is the section the record was appended to (0 = nothing appended).   *)
(* After every path + probe the driver calls Finish and Message.Unpack: the   *)
(* records read back must be the ones whose steps have into # 0, in order.    *)
(* bfs: VIEW hides the records, TLC visits every (sec, cnt, comp, poll) once.  *)
(* The kind added along a path is rotated with the state so that paths differ. *)
(* Bulk: directed scenarios at the count limit, computed by folding ApplyB.    *)
(* simulate (Walk = TRUE): random walks over all methods.                      *)
(***************************************************************************)
EXTENDS Builder, Json

CONSTANTS MaxAdd, GenDepth, Walk, Bulk

VARIABLES new, hist
gvars == <<b, new, hist>>
View == <<new, b.sec, b.cnt, b.comp, b.poll>>

AllTypes == <<"A", "CNAME", "X", "NS", "SOA", "PTR", "MX", "TXT", "AAAA", "SRV", "OPT", "SVCB", "HTTPS">>
K(t, v) == [t |-> t, v |-> v]
GQKinds == {K("q", "ok"), K("q", "ok2"), K("q", "badname")}
GRKinds == {K(AllTypes[i], "ok") : i \in 1..Len(AllTypes)}
           \cup {K("A", "ok2"), K("CNAME", "ok2"), K("A", "badname"), K("TXT", "badname")}
           \cup {K(t, "badbody") : t \in {"CNAME", "MX", "TXT", "SOA", "SVCB"}}

NewSet == {[zero |-> TRUE, prefix |-> 0], [zero |-> FALSE, prefix |-> 0], [zero |-> FALSE, prefix |-> 3]}

StepJ(m, a) == <<m.op, m.s, m.t, m.v, m.n, a.res, a.b.sec, a.b.cnt, a.b.comp, a.b.poll, a.into>>

SetToSeq(S) == LET RECURSIVE TS(_)
                   TS(T) == IF T = {} THEN <<>> ELSE LET x == CHOOSE y \in T : TRUE IN <<x>> \o TS(T \ {x})
               IN TS(S)
MSeq == SetToSeq(BMethods)

(* the packable kind a bfs path adds in state b (rotates through all types) *)
Rotate(bb) == bb.sec * 3 + bb.cnt[1] + bb.cnt[2] * 2 + bb.cnt[3] + bb.cnt[4] + (IF bb.comp THEN 5 ELSE 0)
PathPick(m) ==
  CASE m.op = "Question" -> b.sec = SecQ /\ b.cnt[1] < MaxAdd
                            /\ (Packable(m) => m.v = (IF Rotate(b) % 2 = 0 THEN "ok" ELSE "ok2"))
    [] m.op = "Resource" -> b.sec \in SecAn..SecAr /\ b.cnt[b.sec - 1] < MaxAdd
                            /\ (Packable(m) => m.v = "ok" /\ m.t = AllTypes[(Rotate(b) % Len(AllTypes)) + 1])
    [] OTHER -> TRUE

WalkPick(m) ==
  CASE m.op = "Finish"   -> Len(hist) >= GenDepth - 3
    [] m.op = "Start"    -> m.s <= b.sec + 2
    [] m.op = "Question" -> b.sec <= SecAn
    [] m.op = "Resource" -> b.sec >= SecAn \/ m.t = "A"
    [] OTHER -> TRUE

GInit == new \in NewSet /\ b = (IF new.zero THEN ZeroB ELSE New) /\ hist = <<>>
GNext == \E m \in BMethods :
           LET a == ApplyB(b, m) IN
           /\ IF Walk THEN WalkPick(m) ELSE (ProjB(a.b) # ProjB(b) \/ a.b.poll # b.poll) /\ PathPick(m)
           /\ b' = a.b
           /\ hist' = Append(hist, StepJ(m, a))
           /\ UNCHANGED new
GSpec == GInit /\ [][GNext]_gvars

Fin == [op |-> "Finish", s |-> 0, t |-> "", v |-> "", n |-> 0]
FinStep(bb) == StepJ(Fin, ApplyB(bb, Fin))
RECURSIVE Run(_, _, _)
Run(bb, ms, acc) == IF ms = <<>> THEN acc
                    ELSE LET a == ApplyB(bb, ms[1]) IN Run(a.b, Tail(ms), Append(acc, StepJ(ms[1], a)))
(* every probe is followed by Finish, every walk ends with Finish: the spec says what it returns. *)
(* An add is probed twice in a row: the second record of the same kind meets the names the first  *)
(* one entered into the compression table.                                                         *)
ProbeCalls(m) == IF m.op \in {"Question", "Resource"} THEN <<m, m, Fin>> ELSE <<m, Fin>>
EmitB ==
  /\ \A i \in 1..Len(MSeq) : StepOKB(b, MSeq[i], ApplyB(b, MSeq[i]))
  /\ PrintT(<<"BEH", ToJson([new |-> new, path |-> hist,
                            probes |-> [i \in 1..Len(MSeq) |-> Run(b, ProbeCalls(MSeq[i]), <<>>)]])>>)
EmitW == Len(hist) # GenDepth
         \/ PrintT(<<"BEH", ToJson([new |-> new, path |-> Append(hist, FinStep(b)), probes |-> <<>>])>>)

(* directed scenarios at the limit of a section count *)
M(op, s, t, v, n) == [op |-> op, s |-> s, t |-> t, v |-> v, n |-> n]
BulkCalls(s, c, n) ==
  LET t == IF s = SecQ THEN "q" ELSE "A"
      one == M(IF s = SecQ THEN "Question" ELSE "Resource", 0, t, "ok", 1) IN
  (IF c THEN <<M("EnableCompression", 0, "", "", 0)>> ELSE <<>>)
  \o <<M("Start", s, "", "", 0), M("Bulk", 0, t, "ok", n), one, one, M("Finish", 0, "", "", 0)>>
EmitBulk ==
  ~Bulk \/ hist # <<>> \/ new # [zero |-> FALSE, prefix |-> 0]
  \/ \A s \in WireSecs :
       PrintT(<<"BEH", ToJson([new |-> new, path |-> Run(New, BulkCalls(s, s % 2 = 1, MaxCount - 1), <<>>), probes |-> <<>>])>>)
=============================================================================
