SPECIFICATION Spec
CONSTANTS
  Types = {"A", "CNAME", "X"}
  Getters = {"A", "CNAME", "MX", "X"}
  MaxQ = 1
  MaxR = 3
  MaxCnt = 2
  Messages <- MsgsFull
INVARIANTS TypeOK PosDetermined PeekInv AllStepsOK GhostFree UnpackOK CanFinish
CHECK_DEADLOCK FALSE
