# dnsparser family hooks: signatures naming the scenario class of a replay mismatch, so that a
# known finding suppresses only its own class.  The verdict always comes from comparing the real
# code with TLC's prediction; this file only classifies.

import re


def _slug(s, n=90):
    return re.sub(r"[^A-Za-z0-9=]+", "-", s or "").strip("-")[:n]


def signature(prop, kind, scenario, detail):
    what = detail.get("what", "")
    if prop == "X07":
        # steps the specification tags with its ghost `rwd`: a resource method of ANOTHER section
        # was called while a record header is peeked (named deviation F-dnsparser-1)
        if "rwd=true" in what:
            return "parser;F-dnsparser-1;peeked-offset-rewound-by-resource-method-of-another-section"
        w = re.sub(r"^(path|probe) ", "", what)
        return "parser;" + _slug(w)
    if prop == "X08":
        if "polluted=true" in what:
            return "builder;F-dnsparser-2;compression-table-keeps-entries-of-a-failed-add"
        return "builder;" + _slug(what)
    return None
