------------------------------ MODULE MCBuilder ------------------------------
(* Exhaustive instance of Builder: small MaxCount so that the overflow of every section count is reached. *)
EXTENDS Builder
MCQKinds == {[t |-> "q", v |-> "ok"], [t |-> "q", v |-> "badname"]}
MCRKinds == {[t |-> "A", v |-> "ok"], [t |-> "A", v |-> "badname"], [t |-> "TXT", v |-> "badbody"]}
=============================================================================
