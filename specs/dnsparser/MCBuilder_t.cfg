SPECIFICATION Spec
CONSTANTS
  MaxCount = 4
  QKinds <- MCQKinds
  RKinds <- MCRKinds
INVARIANTS TypeOK CountsMatch InOrder OpenOnly ZeroInert GhostInv AllStepsOKB
CHECK_DEADLOCK FALSE
