------------------------------- MODULE QuicTP -------------------------------
(* QUIC transport parameters (RFC 9000 sections 7.4 and 18) for C28.                 *)
(*                                                                                  *)
(* The wire form is a sequence of (id varint, length varint, value) entries.  The    *)
(* abstract form is the record Params below (integers as 62-bit values, Wire62).     *)
(* Unmarshal is the RFC's decoding with the validity rules of section 18.2:          *)
(*    stateless_reset_token        exactly 16 bytes                                  *)
(*    max_udp_payload_size         >= 1200                                           *)
(*    initial_max_streams_bidi/uni <= 2^60                                           *)
(*    ack_delay_exponent           <= 20                                             *)
(*    max_ack_delay                <  2^14                                           *)
(*    disable_active_migration     zero-length                                       *)
(*    preferred_address            4+2+16+2+1+cid+16 bytes                           *)
(*    active_connection_id_limit   >= 2                                              *)
(*    integer parameters           exactly one varint                                *)
(* unknown ids are ignored.  Marshal writes every parameter that differs from its    *)
(* default (the order is not prescribed; TLC uses id order, the implementation's     *)
(* output is judged by decoding it).                                                 *)
EXTENDS Wire62

Opt(bs)  == [p |-> TRUE, b |-> bs]
Absent   == [p |-> FALSE, b |-> <<>>]
NoPref   == [p |-> FALSE, v4 |-> <<>>, v6 |-> <<>>, cid |-> <<>>, tok |-> <<>>]

IntIds == {1, 3, 4, 5, 6, 7, 8, 9, 10, 11, 14}
IntName(id) == CASE id = 1 -> "idle" [] id = 3 -> "maxudp" [] id = 4 -> "imd" [] id = 5 -> "imsdbl"
                 [] id = 6 -> "imsdbr" [] id = 7 -> "imsdu" [] id = 8 -> "imsb" [] id = 9 -> "imsu"
                 [] id = 10 -> "ade" [] id = 11 -> "mad" [] id = 14 -> "acil"

Defaults ==
    [odcid |-> Absent, srt |-> Absent, iscid |-> Absent, rscid |-> Absent,
     idle |-> Zeros(8), maxudp |-> FromNat(65527), imd |-> Zeros(8), imsdbl |-> Zeros(8),
     imsdbr |-> Zeros(8), imsdu |-> Zeros(8), imsb |-> Zeros(8), imsu |-> Zeros(8),
     ade |-> FromNat(3), mad |-> FromNat(25), acil |-> FromNat(2),
     dam |-> FALSE, pref |-> NoPref]

\* validity of an integer parameter value
IntValid(id, v) ==
    CASE id = 3  -> Leq(FromNat(1200), v)
      [] id \in {8, 9} -> Leq(v, Pow60)
      [] id = 10 -> Leq(v, FromNat(20))
      [] id = 11 -> Less(v, FromNat(16384))
      [] id = 14 -> Leq(FromNat(2), v)
      [] OTHER -> TRUE

Valid(p) ==
    /\ \A id \in IntIds : IsValue(p[IntName(id)]) /\ IntValid(id, p[IntName(id)])
    /\ (p.srt.p => Len(p.srt.b) = 16)
    /\ (p.pref.p => Len(p.pref.v4) = 6 /\ Len(p.pref.v6) = 18 /\ Len(p.pref.cid) <= 255 /\ Len(p.pref.tok) = 16)

(* ------------------------------------------------------------------ marshal *)
Entry(id, body) == Enc(FromNat(id)) \o Enc(FromNat(Len(body))) \o body
OptEntry(id, o) == IF o.p THEN Entry(id, o.b) ELSE <<>>
IntEntry(id, p) == IF p[IntName(id)] = Defaults[IntName(id)] THEN <<>> ELSE Entry(id, Enc(p[IntName(id)]))

Marshal(p) ==
    OptEntry(0, p.odcid) \o IntEntry(1, p) \o OptEntry(2, p.srt) \o IntEntry(3, p) \o IntEntry(4, p)
    \o IntEntry(5, p) \o IntEntry(6, p) \o IntEntry(7, p) \o IntEntry(8, p) \o IntEntry(9, p)
    \o IntEntry(10, p) \o IntEntry(11, p)
    \o (IF p.dam THEN Entry(12, <<>>) ELSE <<>>)
    \o (IF p.pref.p THEN Entry(13, p.pref.v4 \o p.pref.v6 \o <<Len(p.pref.cid)>> \o p.pref.cid \o p.pref.tok) ELSE <<>>)
    \o IntEntry(14, p) \o OptEntry(15, p.iscid) \o OptEntry(16, p.rscid)

(* ------------------------------------------------------------------ unmarshal *)
UBad(p) == [ok |-> FALSE, p |-> p, dup |-> FALSE]

ParsePref(body) ==
    IF Len(body) < 25 THEN [ok |-> FALSE, v |-> NoPref]
    ELSE LET n == body[25] IN
         IF Len(body) # 25 + n + 16 THEN [ok |-> FALSE, v |-> NoPref]
         ELSE [ok |-> TRUE, v |-> [p |-> TRUE, v4 |-> SubSeq(body, 1, 6), v6 |-> SubSeq(body, 7, 24),
                                   cid |-> SubSeq(body, 26, 25 + n), tok |-> SubSeq(body, 26 + n, 41 + n)]]

\* apply one entry to p: [ok, p]
Apply(p, idv, body) ==
    IF ~IsSmall(idv) \/ ToNat(idv) > 16 THEN [ok |-> TRUE, p |-> p]            \* unknown: ignored
    ELSE LET id == ToNat(idv) IN
         IF id \in IntIds THEN
              LET x == Dec(body) IN
              IF ~x.ok \/ x.n # Len(body) \/ ~IntValid(id, x.v) THEN [ok |-> FALSE, p |-> p]
              ELSE [ok |-> TRUE, p |-> [p EXCEPT ![IntName(id)] = x.v]]
         ELSE CASE id = 0  -> [ok |-> TRUE, p |-> [p EXCEPT !.odcid = Opt(body)]]
                [] id = 2  -> IF Len(body) # 16 THEN [ok |-> FALSE, p |-> p]
                              ELSE [ok |-> TRUE, p |-> [p EXCEPT !.srt = Opt(body)]]
                [] id = 12 -> IF Len(body) # 0 THEN [ok |-> FALSE, p |-> p]
                              ELSE [ok |-> TRUE, p |-> [p EXCEPT !.dam = TRUE]]
                [] id = 13 -> LET q == ParsePref(body) IN
                              IF ~q.ok THEN [ok |-> FALSE, p |-> p] ELSE [ok |-> TRUE, p |-> [p EXCEPT !.pref = q.v]]
                [] id = 15 -> [ok |-> TRUE, p |-> [p EXCEPT !.iscid = Opt(body)]]
                [] id = 16 -> [ok |-> TRUE, p |-> [p EXCEPT !.rscid = Opt(body)]]

RECURSIVE UFrom(_, _, _, _)
\* entries from offset o on; seen = ids met so far (for the duplicate flag)
UFrom(b, o, p, seen) ==
    IF o = Len(b) THEN [ok |-> TRUE, p |-> p, dup |-> FALSE]
    ELSE LET i == Dec(Drop(b, o)) IN
         IF ~i.ok THEN UBad(p)
         ELSE LET l == Dec(Drop(b, o + i.n)) IN
              IF ~l.ok \/ ~IsSmall(l.v) \/ ToNat(l.v) > Len(b) \/ o + i.n + l.n + ToNat(l.v) > Len(b) THEN UBad(p)
              ELSE LET s    == o + i.n + l.n
                       body == SubSeq(b, s + 1, s + ToNat(l.v))
                       a    == Apply(p, i.v, body) IN
                   IF ~a.ok THEN UBad(p)
                   ELSE LET r == UFrom(b, s + ToNat(l.v), a.p, seen \cup {i.v}) IN
                        [r EXCEPT !.dup = @ \/ i.v \in seen]

Unmarshal(b) == UFrom(b, 0, Defaults, {})

(* ------------------------------------------------------------------ lemmas *)
\* C28, transport parameters: valid values survive marshal / unmarshal unchanged
RoundTripTP(p) == Valid(p) => LET u == Unmarshal(Marshal(p)) IN u.ok /\ u.p = p /\ ~u.dup
\* whatever is accepted is valid (out-of-range values are rejected)
UnmarshalSound(b) == LET u == Unmarshal(b) IN u.ok => Valid(u.p)
=============================================================================
