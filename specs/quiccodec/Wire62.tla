------------------------------- MODULE Wire62 -------------------------------
(* QUIC variable-length integers (RFC 9000 section 16) and arithmetic on 62-bit     *)
(* values, on byte sequences: TLC integers are 32-bit, so a value v in [0, 2^62) is  *)
(* its 8-byte big-endian image (first byte < 64).  The varint part is the same as    *)
(* specs/quicvarint/Varint.tla (C22 is checked there); this copy adds comparison,   *)
(* addition and subtraction, which the frame and transport-parameter rules need     *)
(* (ACK ranges, offset + length < 2^62, limits such as 2^60, 1200, 20, 2^14).        *)
EXTENDS Integers, Sequences

Byte  == 0..255
Sizes == {1, 2, 4, 8}

Zeros(k) == [i \in 1..k |-> 0]

IsBytes(b) == \A i \in 1..Len(b) : b[i] \in Byte
IsValue(v) == Len(v) = 8 /\ IsBytes(v) /\ v[1] < 64

(* ------------------------------------------------------------------ varints *)
LenOfTag(t) == CASE t = 0 -> 1 [] t = 1 -> 2 [] t = 2 -> 4 [] OTHER -> 8
TagOfLen(s) == CASE s = 1 -> 0 [] s = 2 -> 1 [] s = 4 -> 2 [] OTHER -> 3

DecFail == [ok |-> FALSE, n |-> 0, v |-> Zeros(8)]

\* parse one varint from the front of b
Dec(b) ==
    IF Len(b) = 0 THEN DecFail
    ELSE LET need == LenOfTag(b[1] \div 64) IN
         IF Len(b) < need THEN DecFail
         ELSE [ok |-> TRUE, n |-> need,
               v |-> Zeros(8 - need) \o <<b[1] % 64>> \o SubSeq(b, 2, need)]

Fits(v, s)  == (\A i \in 1..(8 - s) : v[i] = 0) /\ v[9 - s] < 64
EncAs(v, s) == <<TagOfLen(s) * 64 + v[9 - s]>> \o SubSeq(v, 10 - s, 8)
Size(v)     == CHOOSE s \in Sizes : Fits(v, s) /\ \A r \in Sizes : r < s => ~Fits(v, r)
Enc(v)      == EncAs(v, Size(v))

(* ------------------------------------------------------- small numbers <-> values *)
\* n < 2^31
FromNat(n) == <<0, 0, 0, 0, n \div 16777216, (n \div 65536) % 256, (n \div 256) % 256, n % 256>>
IsSmall(v) == v[1] = 0 /\ v[2] = 0 /\ v[3] = 0 /\ v[4] = 0 /\ v[5] < 128
ToNat(v)   == v[5] * 16777216 + v[6] * 65536 + v[7] * 256 + v[8]       \* only where IsSmall(v)

(* ------------------------------------------------------------------ order *)
\* lexicographic = numeric on equal-length big-endian images
Less(a, b) == \E i \in 1..8 : a[i] < b[i] /\ \A j \in 1..(i - 1) : a[j] = b[j]
Leq(a, b)  == a = b \/ Less(a, b)

(* ------------------------------------------------------------- add, subtract *)
\* 64-bit results as 8 bytes plus carry / borrow out of the top byte
RECURSIVE AddFrom(_, _, _, _)
AddFrom(a, b, i, c) ==     \* bytes i..1 (right to left) with carry c; returns <<carry, bytes 1..i>>
    IF i = 0 THEN <<c, <<>>>>
    ELSE LET s == a[i] + b[i] + c
             r == AddFrom(a, b, i - 1, s \div 256)
         IN <<r[1], Append(r[2], s % 256)>>
Add(a, b) == LET r == AddFrom(a, b, 8, 0) IN [carry |-> r[1], v |-> r[2]]

RECURSIVE SubFrom(_, _, _, _)
SubFrom(a, b, i, br) ==
    IF i = 0 THEN <<br, <<>>>>
    ELSE LET d == a[i] - b[i] - br
             r == SubFrom(a, b, i - 1, IF d < 0 THEN 1 ELSE 0)
         IN <<r[1], Append(r[2], IF d < 0 THEN d + 256 ELSE d)>>
Sub(a, b) == LET r == SubFrom(a, b, 8, 0) IN [borrow |-> r[1], v |-> r[2]]   \* borrow = 1 iff a < b

\* a + b as a 62-bit value, if it is one
AddOK(a, b)  == LET r == Add(a, b) IN r.carry = 0 /\ r.v[1] < 64
Plus(a, b)   == Add(a, b).v
Minus(a, b)  == Sub(a, b).v          \* where Leq(b, a)

One     == FromNat(1)
Two     == FromNat(2)
Pow60   == <<16, 0, 0, 0, 0, 0, 0, 0>>           \* 2^60
Pow32   == <<0, 0, 0, 1, 0, 0, 0, 0>>            \* 2^32
MaxV    == <<63, 255, 255, 255, 255, 255, 255, 255>>   \* 2^62 - 1

(* ------------------------------------------------------------------ byte helpers *)
Take(b, n) == SubSeq(b, 1, n)
Drop(b, n) == SubSeq(b, n + 1, Len(b))

\* pattern bytes of an abstract payload: n bytes determined by a fill byte
Pattern(n, fill) == [i \in 1..n |-> (fill + 31 * (i - 1)) % 256]
=============================================================================
