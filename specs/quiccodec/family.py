# quiccodec (C28): one TLC run enumerates frame, transport-parameter and packet cases; the frame
# and parameter cases are replayed (spec -> code), the packet cases are executed and recorded
# together with the seeded inputs and judged by TLC (code -> spec).  Signatures name the class of
# the failing case, not its values.
import stages


def codec(ctx, st):
    items, _ = stages.generate(ctx, st)
    rep = [v for v in items if isinstance(v, dict) and v.get("k") in ("frame", "tp")]
    pkt = [v for v in items if isinstance(v, dict) and v.get("k") in ("pkt", "ackn")]
    base = {k: st[k] for k in ("gen_spec", "gen_cfg", "gen_mode", "gen_workers", "gen_timeout", "tags", "xss", "heap_gb")
            if k in st}
    orig = stages.generate
    try:
        stages.generate = lambda c, s: (rep, True)
        r = dict(base, kind="gen_replay")
        r.update(st.get("replay") or {})
        stages.stage_gen_replay(ctx, r)
        stages.generate = lambda c, s: (pkt, True)
        r = dict(base, kind="record_validate")
        r.update(st.get("record") or {})
        stages.stage_record_validate(ctx, r)
    finally:
        stages.generate = orig


def _u64(v):
    x = 0
    for b in v:
        x = (x << 8) | (b & 255)
    return x


def _frame_class(line):
    """Class of a frame experiment from its input bytes (type byte and what is special)."""
    b = line.get("in") or []
    t = b[0] if b else -1
    extra = ""
    try:
        if t in (0x16, 0x17, 0x12, 0x13) and len(b) > 1:
            n = 1 << (b[1] >> 6)
            v = _u64([b[1] & 0x3f] + b[2:1 + n])
            extra = ";count>2^60" if v > (1 << 60) else ";count<=2^60"
        if t == 0x18:
            # sequence, retire prior to, then the length byte
            o = 1
            for _ in range(2):
                o += 1 << (b[o] >> 6)
            extra = ";length-byte>=64" if b[o] >= 64 else ";length-byte<64"
        if t in (2, 3):
            f = line.get("f") or {}
            extra = ";ranges>=4" if len(f.get("r") or []) >= 4 else ";ranges<4"
            if line.get("dbgsame") is False:
                extra += ";parseDebugFrame-ranges-differ"
    except Exception:
        pass
    return "type=0x%02x;accepted=%s%s" % (t, line.get("ok"), extra)


def signature(prop, kind, scenario, detail):
    what = (detail or {}).get("what", "")
    try:
        if kind == "replay" and isinstance(scenario, dict):
            k = scenario.get("k")
            w = what.split(":")[0:2]
            w = ":".join(x.strip() for x in w)[:80]
            if k == "frame":
                f = scenario.get("f", {})
                nr = len(f.get("r") or [])
                return "replay;frame;kind=%s;wellformed=%s%s;%s" % (
                    f.get("k"), scenario.get("wf"), (";ranges>=4" if nr >= 4 else "") if f.get("k") == "ack" else "", w)
            if k == "tp":
                b = scenario.get("b") or []
                return "replay;tp;first-id=%s;predicted-ok=%s;%s" % (b[0] if b else None, scenario.get("ok"), w)
        if kind == "trace" and isinstance(scenario, dict):
            lines = scenario.get("lines") or [{}]
            last = lines[-1]
            e = last.get("e")
            if e == "frame":
                return "trace;frame;%s" % _frame_class(last)
            if e == "tight":
                f = last.get("f") or {}
                extra = ""
                if f.get("k") == "ack":
                    n = len(f.get("r") or [])
                    extra = ";ranges=%s;room=%s" % ("<=64" if n <= 64 else ">64", last.get("room", "seeded"))
                return "trace;tight;kind=%s;added=%s%s" % (f.get("k"), last.get("added"), extra)
            if e == "tp":
                b = last.get("in") or []
                return "trace;tp;first-id=%s;accepted=%s" % (b[0] if b else None, last.get("ok"))
            if e == "tpm":
                return "trace;tpm;accepted=%s" % last.get("ok")
            if e == "pkt":
                i = last.get("in") or {}
                return "trace;pkt;pt=%s;dl=%s;sl=%s;d=%s;paylen=%s;opened=%s" % (
                    i.get("pt"), len(i.get("dcid") or []), len(i.get("scid") or []), i.get("d"), i.get("paylen"),
                    (last.get("out") or {}).get("ok"))
            if e == "pktmut":
                return "trace;pktmut;pt=%s;dmg=%s;opened=%s" % (last.get("pt"), last.get("dmg"), last.get("ok"))
            if e in ("panic", "hang"):
                return "trace;%s;%s" % (e, str(last.get("where", ""))[:40].split(" ")[0:2])
            return "trace;%s" % e
    except Exception:
        return None
    return None
