------------------------------ MODULE GenCodec ------------------------------
(* Case generator for C28 (TLC breadth-first = exhaustive for the listed domain).     *)
(* Every case is one state; the invariant checks the lemmas of QuicFrames / QuicTP    *)
(* on it and exports it together with what the specification predicts.               *)
(*                                                                                  *)
(*  frame  an abstract frame with every field at its varint-class boundaries, the    *)
(*         wire image the writer must produce and what the parser must answer         *)
(*         (the frame itself, or a rejection for out-of-range values)                *)
(*  tp     a transport-parameter block with one parameter at {min-1, min, max,        *)
(*         max+1} of its validity range (or structurally damaged), the predicted      *)
(*         accept / reject and the resulting parameter set                           *)
(*  pkt    a packet to protect and unprotect: type x connection-id lengths x packet   *)
(*         number distance class x payload size class x token length (judged after    *)
(*         execution by Trace.tla, which needs the observed header)                   *)
(*  ackn   an ACK frame with n ranges and a room class (exported with the packet      *)
(*         cases; judged after execution: a truncating writer has a choice)           *)
EXTENDS QuicFrames, QuicTP, QuicPackets, TLC, Json

CONSTANTS Which,     \* subset of {"frame", "tp", "pkt"}
          Rich       \* BOOLEAN: larger value sets and all lemmas on every case (thorough tier);
                     \* otherwise only the round trip is checked here (the predictions exported
                     \* are the same, and the real code is compared with them in both tiers)

VARIABLE c

N(n) == FromNat(n)
P30 == <<0, 0, 0, 0, 64, 0, 0, 0>>
P30m == <<0, 0, 0, 0, 63, 255, 255, 255>>
P60p == <<16, 0, 0, 0, 0, 0, 0, 1>>
P60m == <<15, 255, 255, 255, 255, 255, 255, 255>>
MaxVm == <<63, 255, 255, 255, 255, 255, 255, 254>>

\* every varint size class from both sides
Bv  == {N(0), N(1), N(63), N(64), N(16383), N(16384), P30m, P30, MaxV}
        \cup (IF Rich THEN {N(255), N(256), Pow32, <<0, 0, 1, 2, 3, 4, 5, 6>>, MaxVm} ELSE {})
Bv3 == {N(0), N(64), P30, MaxV} \cup (IF Rich THEN {N(63), N(16383), N(16384), P30m, N(1)} ELSE {})
Bv60 == Bv \cup {P60m, Pow60, P60p}
Lens == {0, 1, 63, 64} \cup (IF Rich THEN {16383, 16384, 2, 255, 300} ELSE {16384})
Fill == 7

D(n) == Blob(n, Fill)

AckRanges ==
    {<<<<N(0), N(0)>>>>, <<<<N(0), MaxV>>>>, <<<<N(5), N(5)>>>>, <<<<MaxV, MaxV>>>>,
     <<<<N(0), N(63)>>>>, <<<<N(0), N(64)>>>>, <<<<P30, Plus(P30, N(16384))>>>>,
     <<<<N(0), N(0)>>, <<N(2), N(2)>>>>,                    \* gap 0
     <<<<N(0), N(0)>>, <<N(65), N(70)>>>>,                  \* gap 63
     <<<<N(0), N(0)>>, <<N(66), N(66)>>>>,                  \* gap 64
     <<<<N(3), N(10)>>, <<N(16400), Plus(P30, N(1))>>>>,
     <<<<N(0), N(1)>>, <<N(4), N(5)>>, <<N(100), N(16500)>>>>,
     <<<<N(0), N(0)>>, <<N(2), MaxVm>>>>,
     <<<<N(1), N(2)>>, <<N(4), N(4)>>, <<N(6), N(7)>>, <<N(9), MaxV>>>>}
AckDelays == {N(0), N(64), MaxV} \cup (IF Rich THEN {N(63), N(16384)} ELSE {})
AckEcn == {<<N(0), N(0), N(0)>>, <<N(0), N(0), N(1)>>, <<N(63), N(64), N(16384)>>}
          \cup (IF Rich THEN {<<N(1), N(0), N(0)>>, <<MaxV, P30, N(0)>>} ELSE {})

Frames ==
    {F0("ping"), F0("handshake_done")}
    \cup {FV("padding", <<N(n)>>) : n \in {1, 2, 3, 100, 1200}}
    \cup {FV(k, <<v>>) : k \in {"max_data", "data_blocked", "retire_connection_id"}, v \in Bv}
    \cup {Frame(k, <<v>>, <<>>, b, <<>>) : k \in {"max_streams", "streams_blocked"}, v \in Bv60, b \in BOOLEAN}
    \cup {FV(k, <<v, w>>) : k \in {"stop_sending", "max_stream_data", "stream_data_blocked"}, v \in Bv, w \in (IF Rich THEN Bv ELSE Bv3 \cup {N(63), N(16384)})}
    \cup {FV("reset_stream", <<v, w, x>>) : v \in Bv3, w \in Bv3, x \in Bv3}
    \cup {FVD("crypto", <<v>>, <<D(n)>>) : v \in Bv, n \in Lens}
    \cup {FVD("new_token", <<>>, <<D(n)>>) : n \in Lens}
    \cup {Frame("stream", <<id, off>>, <<D(n)>>, fin, <<>>) :
             id \in {N(0), N(64), MaxV} \cup (IF Rich THEN {N(63)} ELSE {}),
             off \in {N(0), N(64), P30, MaxVm, MaxV} \cup (IF Rich THEN {N(1), N(63)} ELSE {}),
             n \in Lens, fin \in BOOLEAN}
    \cup {FVD("new_connection_id", <<p[1], p[2]>>, <<D(n), D(16)>>) :
             p \in {<<N(0), N(0)>>, <<N(1), N(0)>>, <<N(1), N(1)>>, <<N(0), N(1)>>, <<N(63), N(64)>>,
                    <<N(64), N(63)>>, <<N(16384), N(16383)>>, <<MaxV, MaxV>>, <<MaxVm, MaxV>>},
             n \in {0, 1, 8, 20, 21}}
    \cup {FVD(k, <<>>, <<D(8)>>) : k \in {"path_challenge", "path_response"}}
    \cup {FVD("close_transport", <<v, w>>, <<D(n)>>) : v \in {N(0), N(10), N(64), MaxV} \cup (IF Rich THEN {N(63), N(511)} ELSE {}),
             w \in {N(0), N(6), MaxV} \cup (IF Rich THEN {N(64)} ELSE {}), n \in Lens}
    \cup {FVD("close_app", <<v>>, <<D(n)>>) : v \in Bv, n \in Lens}
    \cup {Frame("ack", <<dl, e[1], e[2], e[3]>>, <<>>, FALSE, r) : dl \in AckDelays, e \in AckEcn, r \in AckRanges}

Junk == <<255, 1, 64>>
LemmaLen == IF Rich THEN 400 ELSE 120

\* values that fit a size may also be written non-minimally (the parser must cope)
FrameCase(f) ==
    LET wf == WellFormed(f)
        w  == Emit(f)
        small == WireLen(w) <= LemmaLen IN
    [k |-> "frame", f |-> f, wf |-> wf, wire |-> w, wlen |-> WireLen(w),
     \* the parser's answer on the emitted bytes: the frame again, or a rejection
     pok |-> wf, checked |-> small,
     \* every proper prefix of the emitted bytes must be rejected (TLC checked it in FrameLemma)
     pfx |-> wf /\ f.k # "padding" /\ WireLen(w) <= 48]

FrameLemma(f) ==
    LET w == Emit(f) IN
    WireLen(w) <= LemmaLen =>
        /\ WellFormed(f) => RoundTrip(f, Junk) /\ (Rich => RoundTrip(f, <<>>))
        /\ ~WellFormed(f) => ~Parse(Flat(w) \o Junk).ok
        /\ Rich => ParseSound(Flat(w) \o Junk)
        \* every proper prefix of the frame alone is rejected (PADDING runs excepted)
        /\ (Rich /\ WellFormed(f) /\ f.k # "padding" /\ WireLen(w) <= 48) =>
              \A j \in 1..(WireLen(w) - 1) : ~Parse(Take(Flat(w), j)).ok

(* ------------------------------------------------------------------ transport parameters *)
TPVals(id) ==
    CASE id = 3  -> {N(0), N(1199), N(1200), N(1201), N(65527), N(65528), P30, MaxV}
      [] id \in {8, 9} -> {N(0), N(1), N(100), P60m, Pow60, P60p, MaxV}
      [] id = 10 -> {N(0), N(3), N(19), N(20), N(21), N(63), N(64), N(255), MaxV}
      [] id = 11 -> {N(0), N(25), N(16383), N(16384), N(16385), P30, MaxV}
      [] id = 14 -> {N(0), N(1), N(2), N(3), N(63), N(64), MaxV}
      [] id = 1  -> {N(0), N(1), N(30000), P30, Pow32}
      [] OTHER   -> {N(0), N(1), N(63), N(64), N(16383), N(16384), P30m, P30, MaxV}

WiderSizes(v) == {s \in Sizes : Fits(v, s) /\ (s = Size(v) \/ Rich \/ s = 8 \/ s = 2 * Size(v))}

Companion == Entry(14, Enc(N(7)))           \* a valid active_connection_id_limit = 7

TPBlocks ==
    \* integer parameters at their boundaries, minimal and wider encodings
    UNION {UNION {{Entry(id, EncAs(v, s)) : s \in WiderSizes(v)} : v \in TPVals(id)} : id \in IntIds}
    \* structurally damaged integer parameters
    \cup {Entry(id, body) : id \in {3, 4, 10, 14}, body \in {<<>>, <<64>>, <<5, 0>>, <<64, 5, 0>>, <<128, 0, 0>>, <<192, 0, 0, 0, 0, 0, 5>>}}
    \* byte-string parameters
    \cup {Entry(id, Pattern(n, 3)) : id \in {0, 15, 16}, n \in {0, 1, 8, 20, 21}}
    \cup {Entry(2, Pattern(n, 3)) : n \in {0, 15, 16, 17}}
    \cup {Entry(12, Pattern(n, 3)) : n \in {0, 1}}
    \cup {Entry(13, Pattern(24, 9) \o <<n>> \o Pattern(m, 5)) : n \in {0, 8, 20}, m \in {15, 16, 24, 36, 37}}
    \cup {Entry(13, Pattern(n, 9)) : n \in {0, 24, 25}}
    \* unknown and reserved ids
    \cup {Entry(id, Pattern(n, 3)) : id \in {17, 27, 58, 16384}, n \in {0, 3}}
    \cup {Enc(MaxV) \o <<2, 1, 2>>}
    \* broken framing
    \cup {<<64>>, <<3>>, <<3, 2, 68>>, <<3, 64>>, <<14, 5, 7>>, <<>>}

TPInputs ==
    TPBlocks \cup {Companion \o b : b \in TPBlocks} \cup (IF Rich THEN {b \o Companion : b \in TPBlocks} ELSE {})
    \cup {Entry(14, Enc(N(7))) \o Entry(14, Enc(N(9))), Entry(10, Enc(N(21))) \o Entry(10, Enc(N(2)))}

Proj(p) == p
TPCase(b) ==
    LET u == Unmarshal(b) IN
    [k |-> "tp", b |-> b, ok |-> u.ok, p |-> Proj(u.p), dup |-> u.dup,
     \* max_idle_timeout above 2^32 ms does not fit the implementation's duration type; it may
     \* read it as "no timeout" (documented there): not judged
     idleany |-> Less(Pow32, u.p.idle)]

TPLemma(b) ==
    LET u == Unmarshal(b) IN
    /\ UnmarshalSound(b)
    /\ (Rich /\ u.ok /\ ~u.dup) => RoundTripTP(u.p)

(* ------------------------------------------------------------------ packets *)
PktCase(pt, dl, sl, tl, d, big, pay) ==
    [k |-> "pkt", pt |-> pt, dl |-> dl, sl |-> sl, tl |-> tl, d |-> d, big |-> big, pay |-> pay]
CidLens == {0, 1, 8, 20}
Dists == {1, 127, 128, 32767, 32768, 8388607, 8388608}

PktCases ==
    \* connection-id lengths (long headers: both; short: destination only)
    {PktCase(pt, dl, sl, 0, 1, FALSE, 20) : pt \in {"initial", "handshake"}, dl \in CidLens, sl \in CidLens}
    \cup {PktCase("0rtt", dl, sl, 0, 1, FALSE, 20) : dl \in CidLens, sl \in (IF Rich THEN CidLens ELSE {8})}
    \cup {PktCase("1rtt", dl, 0, 0, 1, FALSE, 20) : dl \in CidLens}
    \* packet number distance classes x payload size classes (padding rule: payload + number >= 4)
    \cup {PktCase(pt, 8, 4, 0, d, FALSE, n) : pt \in {"initial", "handshake", "1rtt"}, d \in Dists,
                                             n \in {1, 3, 4, 1000} \cup (IF Rich THEN {2, 5} ELSE {})}
    \* the same from a large acknowledged packet number
    \cup {PktCase(pt, 8, 4, 0, d, TRUE, n) : pt \in {"initial", "handshake", "1rtt"},
                                            d \in (IF Rich THEN Dists ELSE {1, 128, 32768, 8388608}),
                                            n \in (IF Rich THEN {1, 2, 3, 4, 5, 1000} ELSE {2})}
    \* token lengths
    \cup {PktCase("initial", 8, 8, tl, 1, FALSE, n) : tl \in {0, 1, 63, 64, 300}, n \in (IF Rich THEN {1, 1100} ELSE {5})}
    \* pay = 0: as much payload as the writer allows in a 20000-byte datagram.  The Length field
    \* of a long header is written into two reserved bytes (at most 16383), for every packet
    \* number length
    \cup {PktCase(pt, dl, 4, 0, d, FALSE, 0) : pt \in {"initial", "handshake", "0rtt"}, dl \in {8} \cup (IF Rich THEN {0, 20} ELSE {}),
                                              d \in {1, 128, 32768, 8388608}}

\* ACK frames around the structural limits of the writer: the ACK Range Count is written into
\* one reserved byte (at most 63 further ranges), and ranges that do not fit are dropped from the
\* low end.  n single-packet ranges with small gaps, written with ample room and with room that
\* cuts the list; Trace.tla judges what was written (Fitted: the highest k >= 1 ranges, the whole
\* frame consumed by the parser).
AckNCases ==
    {[k |-> "ackn", n |-> n, gap |-> g, ecn |-> e, room |-> r] :
        n \in {1, 2, 62, 63, 64, 65, 66, 100} \cup (IF Rich THEN {3, 61, 67, 127, 128, 200} ELSE {}),
        g \in {0} \cup (IF Rich THEN {1, 63, 64} ELSE {}), e \in BOOLEAN,
        r \in {"ample", "exact", "minus1", "half", "twothirds", "tiny"}}

(* ------------------------------------------------------------------ enumeration *)
Groups == (IF "frame" \in Which THEN {<<"frame", g>> : g \in Kinds} ELSE {})
          \cup (IF "tp" \in Which THEN {<<"tp", "a">>, <<"tp", "b">>, <<"tp", "c">>} ELSE {})
          \cup (IF "pkt" \in Which THEN {<<"pkt", "all">>} ELSE {})

TPGroup(b) == CASE Len(b) > 0 /\ b[1] = 14 /\ Len(b) > 3 -> "b" [] Len(b) % 2 = 0 -> "a" [] OTHER -> "c"

Members(g) ==
    CASE g[1] = "frame" -> {[k |-> "frame", x |-> f] : f \in {h \in Frames : h.k = g[2]}}
      [] g[1] = "tp"    -> {[k |-> "tp", x |-> b] : b \in {y \in TPInputs : TPGroup(y) = g[2]}}
      [] g[1] = "pkt"   -> {[k |-> "pkt", x |-> p] : p \in PktCases \cup AckNCases}

Init == c \in {[k |-> "grp", x |-> g] : g \in Groups}
Next == c.k = "grp" /\ c' \in Members(c.x)
Spec == Init /\ [][Next]_c

Lemmas ==
    CASE c.k = "frame" -> FrameLemma(c.x)
      [] c.k = "tp"    -> TPLemma(c.x)
      [] OTHER -> TRUE

Out == CASE c.k = "frame" -> FrameCase(c.x) [] c.k = "tp" -> TPCase(c.x) [] OTHER -> c.x

Export == c.k = "grp" \/ PrintT(<<"CASE", ToJson(Out)>>)
=============================================================================
