SPECIFICATION Spec
CONSTANTS
  Which = {"frame", "tp", "pkt"}
  Rich = FALSE
INVARIANTS Lemmas Export
CHECK_DEADLOCK FALSE
