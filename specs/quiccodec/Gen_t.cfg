SPECIFICATION Spec
CONSTANTS
  Which = {"frame", "tp", "pkt"}
  Rich = TRUE
INVARIANTS Lemmas Export
CHECK_DEADLOCK FALSE
