----------------------------- MODULE QuicFrames -----------------------------
(* QUIC frames (RFC 9000 section 19) as ordered field lists, for C28.                *)
(*                                                                                  *)
(* An abstract frame is a record                                                    *)
(*     [k    kind ("ping", "ack", "stream", ...),                                    *)
(*      v    sequence of 62-bit values (8-byte images, Wire62),                      *)
(*      d    sequence of byte fields,                                                *)
(*      flag BOOLEAN (STREAM: FIN; MAX_STREAMS / STREAMS_BLOCKED: bidirectional),    *)
(*      r    ACK only: acknowledged ranges <<lo, hi>> (inclusive), ascending]         *)
(* i.e. what a caller hands to the packet writer and what the parser hands back.     *)
(* A byte field is [n, fill, b]: explicit bytes b (fill = -1), n zero bytes           *)
(* (fill = -2) or n pattern bytes determined by fill (long opaque payloads whose      *)
(* content the format never inspects).  The wire image of a frame is a sequence of   *)
(* byte fields too (Emit); Flat expands it to bytes.                                 *)
(*                                                                                  *)
(* Parse is the RFC's decoding of one frame from the front of a packet payload,      *)
(* including the frame-level range rules: ACK ranges must not go below zero, STREAM  *)
(* offset + length < 2^62, MAX_STREAMS / STREAMS_BLOCKED <= 2^60, NEW_TOKEN not       *)
(* empty, NEW_CONNECTION_ID length 1..20 (an 8-bit length) and Retire Prior To <=    *)
(* Sequence Number.  Emit is derived from the same layouts; RoundTrip (checked by    *)
(* TLC on every enumerated frame) says Parse(Flat(Emit(f))) = f, consuming exactly   *)
(* the emitted bytes, whatever follows.                                              *)
EXTENDS Wire62

(* ------------------------------------------------------------------ byte fields *)
B(bs)         == [n |-> Len(bs), fill |-> 0 - 1, b |-> bs]
Blob(n, fill) == [n |-> n, fill |-> fill, b |-> <<>>]
ZeroFill(n)   == [n |-> n, fill |-> 0 - 2, b |-> <<>>]
BytesOf(x)    == IF x.fill = 0 - 1 THEN x.b ELSE IF x.fill = 0 - 2 THEN Zeros(x.n) ELSE Pattern(x.n, x.fill)

RECURSIVE Flat(_)
Flat(w) == IF Len(w) = 0 THEN <<>> ELSE BytesOf(w[1]) \o Flat(Tail(w))
RECURSIVE WireLen(_)
WireLen(w) == IF Len(w) = 0 THEN 0 ELSE w[1].n + WireLen(Tail(w))

(* ------------------------------------------------------------------ frames *)
Frame(k, v, d, flag, r) == [k |-> k, v |-> v, d |-> d, flag |-> flag, r |-> r]
F0(k)          == Frame(k, <<>>, <<>>, FALSE, <<>>)
FV(k, v)       == Frame(k, v, <<>>, FALSE, <<>>)
FVD(k, v, d)   == Frame(k, v, d, FALSE, <<>>)

\* the same frame with every byte field written out
Explicit(f) == [f EXCEPT !.d = [i \in 1..Len(f.d) |-> B(BytesOf(f.d[i]))]]

Kinds == {"padding", "ping", "ack", "reset_stream", "stop_sending", "crypto", "new_token", "stream",
          "max_data", "max_stream_data", "max_streams", "data_blocked", "stream_data_blocked",
          "streams_blocked", "new_connection_id", "retire_connection_id", "path_challenge",
          "path_response", "close_transport", "close_app", "handshake_done"}

IsZero(v) == v = Zeros(8)

(* ------------------------------------------------------------------ well-formed frames *)
\* The frames a sender may legitimately ask the writer for (RFC 9000 section 19).
RangesOK(r) ==
    /\ Len(r) >= 1
    /\ \A i \in 1..Len(r) : IsValue(r[i][1]) /\ IsValue(r[i][2]) /\ Leq(r[i][1], r[i][2])
    \* ascending with at least one unacknowledged number in between
    /\ \A i \in 1..(Len(r) - 1) : Less(Plus(r[i][2], One), r[i + 1][1])

WellFormed(f) ==
    /\ f.k \in Kinds
    /\ \A i \in 1..Len(f.v) : IsValue(f.v[i])
    /\ CASE f.k = "padding" -> Len(f.v) = 1 /\ IsSmall(f.v[1]) /\ ToNat(f.v[1]) >= 1
         [] f.k = "ack" -> Len(f.v) = 4 /\ RangesOK(f.r)
         [] f.k = "new_token" -> f.d[1].n >= 1
         [] f.k = "stream" -> AddOK(f.v[2], FromNat(f.d[1].n))
         [] f.k \in {"max_streams", "streams_blocked"} -> Leq(f.v[1], Pow60)
         [] f.k = "new_connection_id" -> Leq(f.v[2], f.v[1]) /\ f.d[1].n \in 1..20 /\ f.d[2].n = 16
         [] f.k \in {"path_challenge", "path_response"} -> f.d[1].n = 8
         [] OTHER -> TRUE

(* ------------------------------------------------------------------ emit *)
V(x)   == B(Enc(x))
T(b)   == B(<<b>>)
LV(x)  == <<V(FromNat(x.n)), x>>                \* varint length, bytes
L8(x)  == <<T(x.n), x>>                         \* 8-bit length, bytes

RECURSIVE AckPairs(_, _)
\* ranges below index i (descending): gap to the range above, then its length - 1
AckPairs(r, i) ==
    IF i = 0 THEN <<>>
    ELSE <<V(Minus(Minus(r[i + 1][1], r[i][2]), Two)), V(Minus(r[i][2], r[i][1]))>> \o AckPairs(r, i - 1)

HasEcn(f) == ~(IsZero(f.v[2]) /\ IsZero(f.v[3]) /\ IsZero(f.v[4]))

Emit(f) ==
    CASE f.k = "padding" -> <<ZeroFill(ToNat(f.v[1]))>>
      [] f.k = "ping" -> <<T(1)>>
      [] f.k = "ack" ->
            LET n == Len(f.r) IN
            <<T(IF HasEcn(f) THEN 3 ELSE 2), V(f.r[n][2]), V(f.v[1]), V(FromNat(n - 1)),
              V(Minus(f.r[n][2], f.r[n][1]))>>
            \o AckPairs(f.r, n - 1)
            \o (IF HasEcn(f) THEN <<V(f.v[2]), V(f.v[3]), V(f.v[4])>> ELSE <<>>)
      [] f.k = "reset_stream" -> <<T(4), V(f.v[1]), V(f.v[2]), V(f.v[3])>>
      [] f.k = "stop_sending" -> <<T(5), V(f.v[1]), V(f.v[2])>>
      [] f.k = "crypto" -> <<T(6), V(f.v[1])>> \o LV(f.d[1])
      [] f.k = "new_token" -> <<T(7)>> \o LV(f.d[1])
      [] f.k = "stream" ->
            \* the writer always carries a length; the offset only when it is not zero
            <<T(8 + 2 + (IF IsZero(f.v[2]) THEN 0 ELSE 4) + (IF f.flag THEN 1 ELSE 0)), V(f.v[1])>>
            \o (IF IsZero(f.v[2]) THEN <<>> ELSE <<V(f.v[2])>>)
            \o LV(f.d[1])
      [] f.k = "max_data" -> <<T(16), V(f.v[1])>>
      [] f.k = "max_stream_data" -> <<T(17), V(f.v[1]), V(f.v[2])>>
      [] f.k = "max_streams" -> <<T(IF f.flag THEN 18 ELSE 19), V(f.v[1])>>
      [] f.k = "data_blocked" -> <<T(20), V(f.v[1])>>
      [] f.k = "stream_data_blocked" -> <<T(21), V(f.v[1]), V(f.v[2])>>
      [] f.k = "streams_blocked" -> <<T(IF f.flag THEN 22 ELSE 23), V(f.v[1])>>
      [] f.k = "new_connection_id" -> <<T(24), V(f.v[1]), V(f.v[2])>> \o L8(f.d[1]) \o <<f.d[2]>>
      [] f.k = "retire_connection_id" -> <<T(25), V(f.v[1])>>
      [] f.k = "path_challenge" -> <<T(26), f.d[1]>>
      [] f.k = "path_response" -> <<T(27), f.d[1]>>
      [] f.k = "close_transport" -> <<T(28), V(f.v[1]), V(f.v[2])>> \o LV(f.d[1])
      [] f.k = "close_app" -> <<T(29), V(f.v[1])>> \o LV(f.d[1])
      [] f.k = "handshake_done" -> <<T(30)>>

(* ------------------------------------------------------------------ parse *)
Bad == [ok |-> FALSE, n |-> 0 - 1, f |-> F0("none")]
Good(n, f) == [ok |-> TRUE, n |-> n, f |-> f]

\* read k varints starting after offset o of b: <<ok, new offset, values>>
RECURSIVE Varints(_, _, _)
Varints(b, o, k) ==
    IF k = 0 THEN <<TRUE, o, <<>>>>
    ELSE LET x == Dec(Drop(b, o)) IN
         IF ~x.ok THEN <<FALSE, o, <<>>>>
         ELSE LET r == Varints(b, o + x.n, k - 1) IN <<r[1], r[2], <<x.v>> \o r[3]>>

\* varint-length-prefixed bytes after offset o: <<ok, new offset, bytes>>
LenBytes(b, o) ==
    LET x == Dec(Drop(b, o)) IN
    IF ~x.ok \/ ~IsSmall(x.v) THEN <<FALSE, o, <<>>>>
    ELSE LET len == ToNat(x.v) IN
         IF len > Len(b) \/ o + x.n + len > Len(b) THEN <<FALSE, o, <<>>>>
         ELSE <<TRUE, o + x.n + len, SubSeq(b, o + x.n + 1, o + x.n + len)>>

\* fixed number of bytes after offset o
FixBytes(b, o, k) == IF o + k > Len(b) THEN <<FALSE, o, <<>>>> ELSE <<TRUE, o + k, SubSeq(b, o + 1, o + k)>>

RECURSIVE ZeroRun(_, _)
ZeroRun(b, i) == IF i <= Len(b) /\ b[i] = 0 THEN ZeroRun(b, i + 1) ELSE i - 1

\* ACK ranges below <<lo>>: cnt more (gap, length) pairs from offset o.
\* Returns <<ok, offset, ranges descending>>
RECURSIVE AckMore(_, _, _, _)
AckMore(b, o, cnt, lo) ==
    IF cnt = 0 THEN <<TRUE, o, <<>>>>
    ELSE LET p == Varints(b, o, 2) IN
         IF ~p[1] THEN <<FALSE, o, <<>>>>
         ELSE LET gap == p[3][1]
                  len == p[3][2]
                  \* next largest = lo - gap - 2, next smallest = next largest - len; none may be negative
                  a == Sub(lo, gap)
                  c == Sub(a.v, Two)
                  e == Sub(c.v, len)
              IN IF a.borrow = 1 \/ c.borrow = 1 \/ e.borrow = 1 THEN <<FALSE, o, <<>>>>
                 ELSE LET r == AckMore(b, p[2], cnt - 1, e.v) IN
                      <<r[1], r[2], <<<<e.v, c.v>>>> \o r[3]>>

Reverse(s) == [i \in 1..Len(s) |-> s[Len(s) + 1 - i]]

ParseAck(b) ==
    LET h == Varints(b, 1, 4) IN        \* largest, delay, range count, first range
    IF ~h[1] THEN Bad
    ELSE LET largest == h[3][1]
             delay   == h[3][2]
             count   == h[3][3]
             first   == Sub(largest, h[3][4])
         IN IF first.borrow = 1 THEN Bad
            \* every further range needs at least two bytes (and TLC integers are 32-bit)
            ELSE IF ~IsSmall(count) \/ ToNat(count) > Len(b) THEN Bad
            ELSE LET m == AckMore(b, h[2], ToNat(count), first.v) IN
                 IF ~m[1] THEN Bad
                 ELSE LET rs == Reverse(<<<<first.v, largest>>>> \o m[3]) IN
                      IF b[1] = 2 THEN Good(m[2], Frame("ack", <<delay, Zeros(8), Zeros(8), Zeros(8)>>, <<>>, FALSE, rs))
                      ELSE LET e == Varints(b, m[2], 3) IN
                           IF ~e[1] THEN Bad
                           ELSE Good(e[2], Frame("ack", <<delay, e[3][1], e[3][2], e[3][3]>>, <<>>, FALSE, rs))

\* k varints only
ParseV(b, kind, k, flag) ==
    LET p == Varints(b, 1, k) IN
    IF ~p[1] THEN Bad ELSE Good(p[2], Frame(kind, p[3], <<>>, flag, <<>>))

\* k varints, then varint-length-prefixed bytes
ParseVL(b, kind, k) ==
    LET p == Varints(b, 1, k) IN
    IF ~p[1] THEN Bad
    ELSE LET q == LenBytes(b, p[2]) IN
         IF ~q[1] THEN Bad ELSE Good(q[2], FVD(kind, p[3], <<B(q[3])>>))

ParseStream(b) ==
    LET t   == b[1]
        off == (t \div 4) % 2 = 1
        len == (t \div 2) % 2 = 1
        fin == t % 2 = 1
        p   == Varints(b, 1, IF off THEN 2 ELSE 1)
    IN IF ~p[1] THEN Bad
       ELSE LET q == IF len THEN LenBytes(b, p[2]) ELSE <<TRUE, Len(b), Drop(b, p[2])>>
                o == IF off THEN p[3][2] ELSE Zeros(8) IN
            IF ~q[1] \/ ~AddOK(o, FromNat(Len(q[3]))) THEN Bad
            ELSE Good(q[2], Frame("stream", <<p[3][1], o>>, <<B(q[3])>>, fin, <<>>))

ParseNewConnID(b) ==
    LET p == Varints(b, 1, 2) IN
    IF ~p[1] \/ Less(p[3][1], p[3][2]) THEN Bad           \* Retire Prior To > Sequence Number
    ELSE IF p[2] + 1 > Len(b) THEN Bad
    ELSE LET n == b[p[2] + 1]                            \* Length (8)
             c == FixBytes(b, p[2] + 1, n) IN
         IF n < 1 \/ n > 20 \/ ~c[1] THEN Bad
         ELSE LET k == FixBytes(b, c[2], 16) IN
              IF ~k[1] THEN Bad ELSE Good(k[2], FVD("new_connection_id", p[3], <<B(c[3]), B(k[3])>>))

ParseFix(b, kind, k) ==
    LET p == FixBytes(b, 1, k) IN IF ~p[1] THEN Bad ELSE Good(p[2], FVD(kind, <<>>, <<B(p[3])>>))

WithLimit60(r) == IF r.ok /\ ~Leq(r.f.v[1], Pow60) THEN Bad ELSE r
NonEmpty(r)    == IF r.ok /\ r.f.d[1].n = 0 THEN Bad ELSE r

\* one frame from the front of the non-empty payload b
Parse(b) ==
    LET t == b[1] IN
    CASE t = 0 -> LET n == ZeroRun(b, 1) IN Good(n, FV("padding", <<FromNat(n)>>))
      [] t = 1 -> Good(1, F0("ping"))
      [] t \in {2, 3} -> ParseAck(b)
      [] t = 4 -> ParseV(b, "reset_stream", 3, FALSE)
      [] t = 5 -> ParseV(b, "stop_sending", 2, FALSE)
      [] t = 6 -> ParseVL(b, "crypto", 1)
      [] t = 7 -> NonEmpty(ParseVL(b, "new_token", 0))
      [] t \in 8..15 -> ParseStream(b)
      [] t = 16 -> ParseV(b, "max_data", 1, FALSE)
      [] t = 17 -> ParseV(b, "max_stream_data", 2, FALSE)
      [] t \in {18, 19} -> WithLimit60(ParseV(b, "max_streams", 1, t = 18))
      [] t = 20 -> ParseV(b, "data_blocked", 1, FALSE)
      [] t = 21 -> ParseV(b, "stream_data_blocked", 2, FALSE)
      [] t \in {22, 23} -> WithLimit60(ParseV(b, "streams_blocked", 1, t = 22))
      [] t = 24 -> ParseNewConnID(b)
      [] t = 25 -> ParseV(b, "retire_connection_id", 1, FALSE)
      [] t = 26 -> ParseFix(b, "path_challenge", 8)
      [] t = 27 -> ParseFix(b, "path_response", 8)
      [] t = 28 -> ParseVL(b, "close_transport", 2)
      [] t = 29 -> ParseVL(b, "close_app", 1)
      [] t = 30 -> Good(1, F0("handshake_done"))
      [] OTHER -> Bad

(* ------------------------------------------------------------------ lemmas *)
\* C28, frames: what the writer emits for a well-formed frame parses back to that frame and
\* to exactly its bytes, whatever follows in the packet (junk must not start with a zero byte
\* for PADDING, whose runs merge by design).
RoundTrip(f, junk) ==
    LET w == Flat(Emit(f))
        p == Parse(w \o junk) IN
    /\ p.ok /\ p.n = Len(w) /\ p.f = Explicit(f)

\* whatever parses is well formed (the range rules are enforced) and re-emits to something
\* that parses to the same frame (C28, arbitrary bytes: accepted input is stable)
ParseSound(b) ==
    LET p == Parse(b) IN
    p.ok => /\ p.n \in 1..Len(b)
            /\ WellFormed(p.f)
            /\ LET q == Parse(Flat(Emit(p.f))) IN q.ok /\ q.f = p.f
=============================================================================
