SPECIFICATION TSpec
CONSTRAINT Mark
POSTCONDITION AllConsumed
CHECK_DEADLOCK FALSE
