----------------------------- MODULE QuicPackets -----------------------------
(* QUIC packet headers (RFC 9000 section 17, RFC 8999) for C28.                      *)
(*                                                                                  *)
(* ParseLong / ParseShort decode an UNPROTECTED header (what a receiver sees after   *)
(* removing header protection).  The AEAD is abstract: a protected packet opens iff   *)
(* nothing between its first and last byte was modified and the keys match (the real  *)
(* AEAD is trusted).  C28 for packets: unprotect(protect(fields, pn, payload)) gives  *)
(* back the same header fields, packet number and payload.                           *)
EXTENDS Wire62

PTypes == {"initial", "0rtt", "handshake", "retry"}
TypeBits(pt) == CASE pt = "initial" -> 0 [] pt = "0rtt" -> 1 [] pt = "handshake" -> 2 [] OTHER -> 3
TypeOfBits(x) == CASE x = 0 -> "initial" [] x = 1 -> "0rtt" [] x = 2 -> "handshake" [] OTHER -> "retry"

HBad == [ok |-> FALSE]

\* 8-bit length prefixed bytes after offset o: <<ok, new offset, bytes>>
L8Bytes(b, o) ==
    IF o + 1 > Len(b) THEN <<FALSE, o, <<>>>>
    ELSE LET n == b[o + 1] IN
         IF o + 1 + n > Len(b) THEN <<FALSE, o, <<>>>> ELSE <<TRUE, o + 1 + n, SubSeq(b, o + 2, o + 1 + n)>>

\* Version-independent long header (RFC 8999): version, connection IDs, the rest.
ParseGeneric(b) ==
    IF Len(b) < 5 \/ b[1] < 128 THEN HBad
    ELSE LET d == L8Bytes(b, 5) IN
         IF ~d[1] THEN HBad
         ELSE LET s == L8Bytes(b, d[2]) IN
              IF ~s[1] THEN HBad
              ELSE [ok |-> TRUE, version |-> SubSeq(b, 2, 5), dcid |-> d[3], scid |-> s[3], rest |-> s[2]]

\* An unprotected QUIC v1 long header of an Initial, 0-RTT or Handshake packet: everything
\* up to and including the packet number.  h must be exactly the header.
ParseLong(h) ==
    LET g == ParseGeneric(h) IN
    IF ~g.ok \/ (h[1] \div 64) % 2 # 1 THEN HBad                       \* fixed bit
    ELSE LET pt == TypeOfBits((h[1] \div 16) % 4)
             n  == (h[1] % 4) + 1                                        \* packet number length
             rb == (h[1] \div 4) % 4                                   \* reserved bits
             tk == IF pt = "initial"
                   THEN LET x == Dec(Drop(h, g.rest)) IN
                        IF ~x.ok \/ ~IsSmall(x.v) \/ ToNat(x.v) > Len(h) \/ g.rest + x.n + ToNat(x.v) > Len(h) THEN <<FALSE, 0, <<>>>>
                        ELSE <<TRUE, g.rest + x.n + ToNat(x.v), SubSeq(h, g.rest + x.n + 1, g.rest + x.n + ToNat(x.v))>>
                   ELSE <<TRUE, g.rest, <<>>>> IN
         IF pt = "retry" \/ ~tk[1] \/ Len(g.dcid) > 20 \/ Len(g.scid) > 20 THEN HBad
         ELSE LET l == Dec(Drop(h, tk[2])) IN
              IF ~l.ok \/ ~IsSmall(l.v) \/ tk[2] + l.n + n # Len(h) THEN HBad
              ELSE [ok |-> TRUE, pt |-> pt, version |-> g.version, dcid |-> g.dcid, scid |-> g.scid,
                    token |-> tk[3], length |-> ToNat(l.v), pnlen |-> n, reserved |-> rb,
                    pnbytes |-> SubSeq(h, Len(h) - n + 1, Len(h))]

\* An unprotected short header with a destination connection ID of dl bytes.
ParseShort(h, dl) ==
    IF Len(h) < 1 \/ h[1] >= 128 \/ (h[1] \div 64) % 2 # 1 THEN HBad
    ELSE LET n == (h[1] % 4) + 1 IN
         IF Len(h) # 1 + dl + n THEN HBad
         ELSE [ok |-> TRUE, dcid |-> SubSeq(h, 2, 1 + dl), pnlen |-> n, reserved |-> (h[1] \div 8) % 4,
               phase |-> (h[1] \div 4) % 2, spin |-> (h[1] \div 32) % 2,
               pnbytes |-> SubSeq(h, Len(h) - n + 1, Len(h))]

\* the low n bytes of a packet number
LowBytes(pn, n) == SubSeq(pn, 9 - n, 8)

\* RFC 9000 17.1: the encoding must be able to represent more than twice the range between the
\* packet number and the largest acknowledged one (d = pn - acked, a small number; acked = -1
\* when nothing has been acknowledged).
PnLenOK(d, n) == n \in 1..4 /\ (n = 4 \/ d < (CASE n = 1 -> 128 [] n = 2 -> 32768 [] OTHER -> 8388608))

\* RFC 9001 5.4.2: packet number plus protected payload must be at least 4 bytes longer than the
\* 16-byte sample; the payload is padded for that.
PaddedLen(paylen, n) == IF paylen + n < 4 THEN 4 - n ELSE paylen

(* ----------------------------------------------- damage to a protected packet *)
\* where a modification hits a datagram that starts with a protected packet of plen bytes
\* (extend-short: bytes appended to a short-header packet, which extends to the end of the
\* datagram; random: bytes that were never protected)
Damages == {"none", "flip-first-byte", "flip-header", "flip-pn", "flip-payload", "flip-tag",
            "flip-after", "truncate", "extend", "extend-short", "length-shorter", "length-longer",
            "wrong-key", "random"}
OpensAfter(dmg) == dmg \in {"none", "flip-after", "extend"}
=============================================================================
