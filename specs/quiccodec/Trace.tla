------------------------------- MODULE Trace -------------------------------
(* Trace validation for C28: what the real codecs answered on inputs chosen by the    *)
(* driver (seeded random bytes, mutated valid encodings, crafted boundary inputs and  *)
(* the TLC-generated packet cases), judged line by line with the operators of        *)
(* QuicFrames, QuicTP and QuicPackets.  A panic or hang is logged as an event no      *)
(* action matches.                                                                   *)
(*                                                                                  *)
(*  frame    bytes -> parseDebugFrame (consume*Frame); when accepted, the frame is    *)
(*           written again with the packet writer and parsed again                   *)
(*  tight    a frame written with exactly avail bytes of room                         *)
(*  tp       bytes -> unmarshalTransportParams                                        *)
(*  tpm      parameter set -> marshalTransportParameters -> unmarshalTransportParams  *)
(*  pkt      fields -> protected packet -> unprotected (header bytes as seen after    *)
(*           header protection is removed)                                           *)
(*  pktmut   a protected packet damaged at a known place -> parser                    *)
(*  generic  bytes -> parseGenericLongHeaderPacket                                    *)
EXTENDS QuicFrames, QuicTP, QuicPackets, TraceIO

VARIABLES cur, l, judged
tvars == <<cur, l, judged>>

Line == Trace[l]

TInit ==
    \E t \in 1..NT :
       LET h == Trace[Meta.starts[t]] IN
       /\ cur = t /\ l = Meta.starts[t] + 1 /\ judged = 0
       /\ h.e = "hdr"

(* ------------------------------------------------------------------ frames *)
TFrame ==
    /\ Line.e = "frame"
    /\ IsBytes(Line.in) /\ Len(Line.in) >= 1
    /\ LET p == Parse(Line.in) IN
       /\ Line.ok = p.ok
       /\ p.ok => /\ Line.n = p.n
                  /\ Line.f = p.f
                  \* parseDebugFrame agrees with the consume*Frame function it wraps
                  /\ Line.dbgsame
                  \* the writer on what was parsed, and the parser again on that
                  /\ Line.w2 = Flat(Emit(p.f))
                  /\ Line.ok2 /\ Line.n2 = Len(Line.w2) /\ Line.f2 = p.f

IsPrefix(a, b) == Len(a) <= Len(b) /\ a = SubSeq(b, 1, Len(a))
IsSuffix(a, b) == Len(a) <= Len(b) /\ a = SubSeq(b, Len(b) - Len(a) + 1, Len(b))

\* g is what the writer may put on the wire when asked for f with little room: the frame
\* itself; CRYPTO and STREAM data may be cut short (FIN only on the complete frame); an ACK
\* may drop its lowest ranges
Fitted(f, g) ==
    CASE f.k = "crypto" -> g.k = f.k /\ g.v = f.v /\ IsPrefix(g.d[1].b, f.d[1].b)
      [] f.k = "stream" -> /\ g.k = f.k /\ g.v = f.v /\ IsPrefix(g.d[1].b, f.d[1].b)
                           /\ g.flag = (f.flag /\ g.d[1].n = f.d[1].n)
      [] f.k = "ack"    -> g.k = f.k /\ g.v = f.v /\ Len(g.r) >= 1 /\ IsSuffix(g.r, f.r)
      \* a run of PADDING frames is as many one-byte frames as fit
      [] f.k = "padding" -> g.k = f.k /\ Leq(g.v[1], f.v[1])
      [] OTHER -> g = f

TTight ==
    /\ Line.e = "tight"
    /\ WellFormed(Line.f)
    /\ IF ~Line.added THEN Line.w = <<>>
       ELSE LET p == Parse(Line.w) IN p.ok /\ p.n = Len(Line.w) /\ Fitted(Line.f, p.f)

(* ------------------------------------------------------------------ transport parameters *)
\* the implementation may read a max_idle_timeout above 2^32 ms as "none"
SameP(got, want) ==
    /\ [got EXCEPT !.idle = Zeros(8)] = [want EXCEPT !.idle = Zeros(8)]
    /\ (got.idle = want.idle \/ (Less(Pow32, want.idle) /\ got.idle = Zeros(8)))

TTP ==
    /\ Line.e = "tp"
    /\ IsBytes(Line.in)
    /\ LET u == Unmarshal(Line.in) IN
       /\ Line.ok = u.ok
       /\ (u.ok /\ ~u.dup) => SameP(Line.p, u.p)

TTPM ==
    /\ Line.e = "tpm"
    /\ LET u == Unmarshal(Line.b) IN
       /\ Line.ok = u.ok
       /\ Valid(Line.p) => /\ u.ok /\ ~u.dup /\ u.p = Line.p       \* the marshalled bytes say what was asked
                           /\ SameP(Line.p2, Line.p)                \* and come back unchanged
       /\ ~Valid(Line.p) => ~Line.ok                                \* out-of-range values do not come back

(* ------------------------------------------------------------------ packets *)
TPkt ==
    /\ Line.e = "pkt"
    /\ LET in == Line.in  out == Line.out IN
       IF in.pt = "1rtt"
       THEN LET h == ParseShort(Line.hdr, Len(in.dcid)) IN
            /\ h.ok /\ h.dcid = in.dcid /\ h.reserved = 0
            /\ PnLenOK(in.d, h.pnlen) /\ h.pnbytes = LowBytes(in.pn, h.pnlen)
            /\ out.ok /\ out.pn = in.pn /\ out.paysame
            /\ out.paylen = PaddedLen(in.paylen, h.pnlen)
            /\ out.wlen = Len(Line.hdr) + out.paylen + 16
       ELSE LET h == ParseLong(Line.hdr) IN
            /\ h.ok /\ h.pt = in.pt /\ h.version = in.version /\ h.dcid = in.dcid /\ h.scid = in.scid
            /\ h.token = in.token /\ h.reserved = 0
            /\ PnLenOK(in.d, h.pnlen) /\ h.pnbytes = LowBytes(in.pn, h.pnlen)
            /\ h.length = h.pnlen + PaddedLen(in.paylen, h.pnlen) + 16
            /\ out.ok /\ out.pt = in.pt /\ out.version = in.version /\ out.dcid = in.dcid /\ out.scid = in.scid
            /\ out.token = in.token /\ out.pn = in.pn /\ out.paysame
            /\ out.paylen = PaddedLen(in.paylen, h.pnlen)
            /\ out.wlen = Len(Line.hdr) + out.paylen + 16 /\ out.n = out.wlen

TPktMut ==
    /\ Line.e = "pktmut"
    /\ Line.dmg \in Damages
    /\ Line.ok = OpensAfter(Line.dmg)
    /\ Line.ok => Line.same

TGeneric ==
    /\ Line.e = "generic"
    /\ IsBytes(Line.in)
    /\ LET g == ParseGeneric(Line.in) IN
       /\ Line.ok = g.ok
       /\ g.ok => Line.version = g.version /\ Line.dcid = g.dcid /\ Line.scid = g.scid /\ Line.rest = g.rest

TNext ==
    /\ l <= Meta.ends[cur]
    /\ l' = l + 1 /\ cur' = cur /\ judged' = judged + 1
    /\ (TFrame \/ TTight \/ TTP \/ TTPM \/ TPkt \/ TPktMut \/ TGeneric)

TSpec == TInit /\ [][TNext]_tvars

Mark == HighWater(cur, l)
=============================================================================
