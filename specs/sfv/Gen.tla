-------------------------------- MODULE Gen --------------------------------
(* C56 case generator.  A case is (fn, in): an entry point of the package and an  *)
(* input string; the CASE item carries StructuredFields!Outcome(fn, in): whether *)
(* RFC 9651 accepts the string as that structure, the value when it does, and    *)
(* the failing step of the RFC when it does not.  The bounded domain:            *)
(*   generic  every entry point x every single byte and, if GenLen >= 2, x every *)
(*            string up to GenLen over the alphabet G (a member of every lexical *)
(*            class the algorithms distinguish)                                  *)
(*   probes   every byte value at each lexical position of a minimal valid text  *)
(*            (first / following character of keys, tokens, numbers, strings,    *)
(*            escapes, separators ...)                                           *)
(*   families per entry point: a fixed prefix followed by every string up to a   *)
(*            length bound over a small alphabet chosen for that structure       *)
(*   constructed long cases: digit-count boundaries of integers and decimals,    *)
(*            pct-escapes and UTF-8 boundaries of display strings                *)
(* The domain is cut into chunks (initial states) that TLC workers expand in     *)
(* parallel; the cases are the successors of the chunks.  Spec-level facts are   *)
(* checked on every case.                                                        *)
EXTENDS StructuredFields, TLC, Json

CONSTANTS GenLen,      \* 1, 2 or 3: length of the generic strings over G
          Extra,       \* how much longer the family strings are than in the quick tier (0, 1, 2)
          ExtraS,      \* the same for the two main list / dictionary families
          AllBytes     \* TRUE: single bytes and probes use all 256 byte values; FALSE: 0..127 and
                       \* three bytes >= 0x80 (no algorithm of the RFC distinguishes among those)

VARIABLE c

\* a g A 1 0 * - . _ : / " \ ( ) ; = , SP HTAB ? @ % + ! < ~ NUL 0x1f DEL 0x80
G == {97, 103, 65, 49, 48, 42, 45, 46, 95, 58, 47, 34, 92, 40, 41, 59, 61, 44, 32, 9, 63, 64, 37, 43, 33, 60,
      126, 0, 31, 127, 128}

\* families: entry point, fixed prefix, alphabet of the body, longest body
NumAlpha == {45, 48, 53, 46, 97}                      \* - 0 5 . a
Fam == <<
  [fn |-> "integer",   pre |-> << >>,       alpha |-> NumAlpha, n |-> 4 + Extra],
  [fn |-> "decimal",   pre |-> << >>,       alpha |-> NumAlpha, n |-> 4 + Extra],
  [fn |-> "date",      pre |-> <<64>>,      alpha |-> NumAlpha, n |-> 3 + Extra],
  [fn |-> "item",      pre |-> << >>,       alpha |-> NumAlpha \cup {64}, n |-> 3 + Extra],
  [fn |-> "item",      pre |-> <<64>>,      alpha |-> NumAlpha, n |-> 3 + Extra],
  \* " then a " \ SP DEL 0x80
  [fn |-> "string",    pre |-> <<34>>,      alpha |-> {97, 34, 92, 32, 127, 128}, n |-> 4 + Extra],
  [fn |-> "item",      pre |-> <<34>>,      alpha |-> {97, 34, 92, 59}, n |-> 3 + Extra],
  \* a A * 1 : / ! " SP (
  [fn |-> "token",     pre |-> << >>,       alpha |-> {97, 65, 42, 49, 58, 47, 33, 34, 32, 40}, n |-> 3 + Extra],
  \* : then a = + - SP :
  [fn |-> "bytes",     pre |-> <<58>>,      alpha |-> {97, 61, 43, 45, 32, 58}, n |-> 3 + Extra],
  \* ? 0 1 2 a
  [fn |-> "boolean",   pre |-> << >>,       alpha |-> {63, 48, 49, 50, 97}, n |-> 3 + Extra],
  \* %" then a " % 3 c C g
  [fn |-> "display",   pre |-> <<37, 34>>,  alpha |-> {97, 34, 37, 51, 99, 67, 103}, n |-> 3 + Extra],
  \* ; then a A 1 ; = SP HTAB *
  [fn |-> "params",    pre |-> <<59>>,      alpha |-> {97, 65, 49, 59, 61, 32, 9, 42}, n |-> 3 + Extra],
  [fn |-> "params",    pre |-> << >>,       alpha |-> {97, 59, 61, 34, 63}, n |-> 4 + Extra],
  \* a valued parameter followed by more parameters: the default value ?1 must be re-established
  [fn |-> "params",    pre |-> <<59, 97, 61, 49>>, alpha |-> {98, 59, 61, 50}, n |-> 3 + Extra],
  \* a 1 ; = SP ?
  [fn |-> "item",      pre |-> << >>,       alpha |-> {97, 49, 59, 61, 32, 63}, n |-> 4 + Extra],
  \* ( then a SP ) ; HTAB 1
  [fn |-> "innerlist", pre |-> <<40>>,      alpha |-> {97, 32, 41, 59, 9, 49}, n |-> 4 + Extra],
  \* a , SP HTAB ( ) ; 1
  [fn |-> "list",      pre |-> << >>,       alpha |-> {97, 44, 32, 9, 40, 41, 59, 49}, n |-> 2 + Extra],
  [fn |-> "list",      pre |-> <<97>>,      alpha |-> {97, 44, 32, 9, 40, 59, 49}, n |-> 4 + ExtraS],
  [fn |-> "list",      pre |-> <<40>>,      alpha |-> {97, 44, 32, 9, 41, 59}, n |-> 3 + Extra],
  \* a = , SP HTAB ( ) ; 1
  [fn |-> "dict",      pre |-> << >>,       alpha |-> {97, 61, 44, 32, 9, 40, 41, 59, 49}, n |-> 2 + Extra],
  [fn |-> "dict",      pre |-> <<97>>,      alpha |-> {97, 61, 44, 32, 9, 59, 49}, n |-> 4 + ExtraS],
  [fn |-> "dict",      pre |-> <<97, 61, 40>>, alpha |-> {97, 32, 41, 59, 44, 9}, n |-> 3 + Extra],
  \* u= then 3 , SP i u = ? 0 (the RFC 9218 priority dictionaries)
  [fn |-> "dict",      pre |-> <<117, 61>>, alpha |-> {51, 44, 32, 105, 117, 61, 63, 48}, n |-> 3 + Extra]
>>

\* probes: every byte value at one lexical position: in = pre \o <<byte>> \o suf
Probe == <<
  [fn |-> "token",     pre |-> <<97>>,              suf |-> << >>],          \* a_
  [fn |-> "item",      pre |-> <<97>>,              suf |-> << >>],          \* a_
  [fn |-> "item",      pre |-> <<97, 59>>,          suf |-> << >>],          \* a;_
  [fn |-> "params",    pre |-> <<59>>,              suf |-> << >>],          \* ;_
  [fn |-> "params",    pre |-> <<59, 97>>,          suf |-> << >>],          \* ;a_
  [fn |-> "params",    pre |-> <<59, 97, 61>>,      suf |-> << >>],          \* ;a=_
  [fn |-> "params",    pre |-> <<59, 97, 61, 97>>,  suf |-> << >>],          \* ;a=a_
  [fn |-> "params",    pre |-> <<59>>,              suf |-> <<97>>],         \* ;_a
  [fn |-> "dict",      pre |-> <<97>>,              suf |-> << >>],          \* a_
  [fn |-> "dict",      pre |-> <<97>>,              suf |-> <<98>>],         \* a_b
  [fn |-> "dict",      pre |-> <<97, 61>>,          suf |-> << >>],          \* a=_
  [fn |-> "dict",      pre |-> <<97, 44>>,          suf |-> <<98>>],         \* a,_b
  [fn |-> "list",      pre |-> <<97>>,              suf |-> << >>],          \* a_
  [fn |-> "list",      pre |-> <<97>>,              suf |-> <<98>>],         \* a_b
  [fn |-> "list",      pre |-> <<97, 44>>,          suf |-> <<98>>],         \* a,_b
  [fn |-> "string",    pre |-> <<34>>,              suf |-> <<34>>],         \* "_"
  [fn |-> "string",    pre |-> <<34, 92>>,          suf |-> <<34>>],         \* "\_"
  [fn |-> "display",   pre |-> <<37, 34>>,          suf |-> <<34>>],         \* %"_"
  [fn |-> "display",   pre |-> <<37, 34, 37>>,      suf |-> <<49, 34>>],     \* %"%_1"
  [fn |-> "display",   pre |-> <<37, 34, 37, 52>>,  suf |-> <<34>>],         \* %"%4_"
  [fn |-> "bytes",     pre |-> <<58>>,              suf |-> <<58>>],         \* :_:
  [fn |-> "integer",   pre |-> <<49>>,              suf |-> << >>],          \* 1_
  [fn |-> "integer",   pre |-> << >>,               suf |-> <<49>>],         \* _1
  [fn |-> "decimal",   pre |-> <<49, 46>>,          suf |-> << >>],          \* 1._
  [fn |-> "decimal",   pre |-> <<49>>,              suf |-> <<53>>],         \* 1_5
  [fn |-> "boolean",   pre |-> <<63>>,              suf |-> << >>],          \* ?_
  [fn |-> "date",      pre |-> <<64>>,              suf |-> << >>],          \* @_
  [fn |-> "date",      pre |-> <<64, 49>>,          suf |-> << >>],          \* @1_
  [fn |-> "innerlist", pre |-> <<40>>,              suf |-> <<41>>],         \* (_)
  [fn |-> "innerlist", pre |-> <<40, 97>>,          suf |-> <<98, 41>>],     \* (a_b)
  [fn |-> "innerlist", pre |-> <<40, 97>>,          suf |-> <<41>>]          \* (a_)
>>

---------------------------------------------------------------------------
\* constructed long cases

Digits(n) == [k \in 1..n |-> 49 + (k % 9)]            \* n digits, none of them 0
Zeros(n)  == [k \in 1..n |-> 48]
Sign(neg) == IF neg THEN <<45>> ELSE << >>

LongInts ==
    { Sign(neg) \o d \o tail :
        neg \in BOOLEAN,
        d \in { Digits(n) : n \in 12..17 } \cup { Zeros(n) \o <<55>> : n \in 13..16 } \cup { Zeros(n) : n \in 14..16 },
        tail \in { << >>, <<97>> } }
LongDecs ==
    { Sign(neg) \o ip \o <<46>> \o Digits(f) :
        neg \in BOOLEAN,
        ip \in { Digits(n) : n \in {1, 11, 12, 13, 14} } \cup { Zeros(11) \o <<55>>, Zeros(12), Zeros(13) },
        f \in 0..5 }
    \cup { Digits(12) \o <<46>> \o Zeros(f) : f \in 1..4 }
    \cup { <<45>> \o Zeros(n) \o <<46>> \o Zeros(f) : n \in {1, 12}, f \in {1, 3} }
    \cup { Digits(3) \o <<46, 53, 46, 53>>, Digits(12) \o <<46, 46>>, Digits(15) \o <<46>>, Digits(16) \o <<46, 53>> }
Numbers == LongInts \cup LongDecs

Hex(n) == IF n < 10 THEN 48 + n ELSE 87 + n
Esc(b) == <<37, Hex(b \div 16), Hex(b % 16)>>
RECURSIVE EscAll(_)
EscAll(bs) == IF bs = << >> THEN << >> ELSE Esc(bs[1]) \o EscAll(Tail(bs))
Disp(body) == <<37, 34>> \o body \o <<34>>

\* bytes at the boundaries of the UTF-8 syntax
U8 == {65, 128, 191, 192, 193, 194, 223, 224, 159, 160, 237, 239, 189, 240, 143, 144, 244, 245, 255}
U8Seqs == { <<x>> : x \in U8 } \cup { <<x, y>> : x \in U8, y \in {65, 128, 159, 160, 191, 192} }
    \cup { <<x, y, z>> : x \in {224, 225, 237, 238, 239}, y \in {127, 128, 159, 160, 191, 192}, z \in {65, 128, 189, 191, 192} }
    \cup { <<x, y, 128, z>> : x \in {240, 241, 244, 245}, y \in {128, 143, 144, 191}, z \in {65, 128, 191, 192} }
    \cup { <<239, 191, 189, 65>>, <<65, 239, 191, 189>>, <<240, 159, 146, 169>>, <<195, 169, 195, 169>>,
           <<226, 130, 172, 65>>, <<194>> \o <<65, 128>>, <<240, 144, 128>>, <<226, 130>> }
\* Interrupted multi-byte sequences.  4.2.10 collects the decoded escapes AND the unescaped
\* characters into one byte array that has to be UTF-8, so anything between the octets of a
\* multi-byte sequence breaks it.  For every sequence length (2, 3, 4) and every split position
\* inside it: 1..2 unescaped characters (letter, SP, "(", "-") or an escaped ASCII character in
\* the gap, then the right number of continuation octets, one too few, or none; with and
\* without text before the sequence.
MultiByte == { <<195, 169>>, <<226, 130, 172>>, <<240, 159, 152, 128>> }
Gaps == { <<97>>, <<32>>, <<40>>, <<45>>, <<120, 45>>, <<40, 32>>, <<45, 45>>, Esc(40), Esc(65) }
GappedAt(m, k) ==
    { Disp(pre \o EscAll(SubSeq(m, 1, k)) \o g \o EscAll(SubSeq(m, k + 1, e))) :
        pre \in { << >>, <<99, 97, 102>> }, g \in Gaps, e \in { Len(m), Len(m) - 1, k } }
Gapped == UNION { UNION { GappedAt(m, k) : k \in 1..(Len(m) - 1) } : m \in MultiByte }
\* complete sequences with unescaped characters around them (these are valid)
Around == { Disp(g \o EscAll(m) \o g) : g \in { <<97>>, <<32>>, <<40, 45>> }, m \in MultiByte }

Displays ==
    { Disp(EscAll(b)) : b \in U8Seqs }
    \cup Gapped \cup Around
    \cup { Disp(Esc(195) \o <<97>>), Disp(<<97>> \o Esc(169)), Disp(Esc(195) \o <<34>>),
           Disp(Esc(195) \o Esc(169)) \o <<97>>, Disp(Esc(195) \o Esc(169) \o <<97>>),
           <<37, 34>> \o Esc(195) \o Esc(169), <<37, 34>> \o Esc(65) \o <<37, 52>>,
           <<37, 34>> \o Esc(65) \o <<37>>, Disp(<<37, 52, 34>>), Disp(<<37, 67, 51>>), Disp(<<37, 99, 71>>),
           Disp(<<37, 48, 48>>), Disp(<<37, 55, 102>>), Disp(<<37, 50, 50>>), Disp(<<37, 50, 53>>) }

BareFnOf == [integer |-> Numbers, decimal |-> Numbers, display |-> Displays,
             date |-> { <<64>> \o x : x \in Numbers }]
\* the same texts as bare items, parameter values, list members and dictionary values
Constructed ==
    UNION { { [fn |-> f, in |-> x] : x \in BareFnOf[f] } : f \in DOMAIN BareFnOf }
    \cup { [fn |-> f, in |-> pre \o x] :
             f \in IF Extra = 0 THEN {"item"} ELSE {"item", "list"}, pre \in { << >> }, x \in Numbers \cup Displays }
    \cup { [fn |-> "dict", in |-> <<97, 61>> \o x \o <<44, 32, 98>>] : x \in Numbers \cup Displays }
    \cup (IF Extra = 0 THEN {} ELSE
          { [fn |-> "params", in |-> <<59, 97, 61>> \o x] : x \in Numbers \cup Displays }
          \cup { [fn |-> "innerlist", in |-> <<40>> \o x \o <<32, 49, 41>>] : x \in Numbers \cup Displays })

---------------------------------------------------------------------------
ByteDom == IF AllBytes THEN 0..255 ELSE (0..127) \cup {128, 195, 255}

Chunks ==
         [k : {"G"}, fn : Fns, first : ByteDom]
    \cup UNION { { [k |-> "F", f |-> f, m |-> 0, first |-> 0] }
                 \cup { [k |-> "F", f |-> f, m |-> m, first |-> x] : m \in 1..Fam[f].n, x \in Fam[f].alpha } :
                 f \in 1..Len(Fam) }
    \cup [k : {"C"}, part : 0..15]
    \cup [k : {"P"}, p : 1..Len(Probe), hi : 0..3]

Strs(m, A) == [1..m -> A]

Expand(ch) ==
    IF ch.k = "G" THEN
        { [fn |-> ch.fn, in |-> <<ch.first>>] }
        \cup (IF ch.first \in G
              THEN { [fn |-> ch.fn, in |-> <<ch.first>> \o r] : r \in UNION { Strs(m, G) : m \in 1..(GenLen - 1) } }
              ELSE {})
    ELSE IF ch.k = "F" THEN
        LET fam == Fam[ch.f] IN
        IF ch.m = 0 THEN { [fn |-> fam.fn, in |-> fam.pre] }
        ELSE { [fn |-> fam.fn, in |-> fam.pre \o <<ch.first>> \o r] : r \in Strs(ch.m - 1, fam.alpha) }
    ELSE IF ch.k = "P" THEN
        { [fn |-> Probe[ch.p].fn, in |-> Probe[ch.p].pre \o <<b>> \o Probe[ch.p].suf] : b \in ((64 * ch.hi)..(64 * ch.hi + 63)) \cap ByteDom }
    ELSE { x \in Constructed : (Len(x.in) + x.in[Len(x.in)]) % 16 = ch.part }

IsChunk == "k" \in DOMAIN c

GInit == c \in Chunks
GNext == IsChunk /\ c' \in Expand(c)

Emit == IsChunk \/ PrintT(<<"CASE", ToJson([fn |-> c.fn, in |-> c.in, out |-> Outcome(c.fn, c.in)])>>)

---------------------------------------------------------------------------
\* Spec-level facts, checked on every accepted case.
BareFns == {"integer", "decimal", "string", "token", "bytes", "boolean", "date", "display"}

Facts ==
    IsChunk \/
    LET fn == c.fn
        s  == c.in
        r  == Entry(fn, s)
    IN  r.ok =>
        \* the canonical numeral of a number is a numeral of the same value
        /\ fn \in {"integer", "decimal"} => Entry(fn, r.v).ok /\ Entry(fn, r.v).v = r.v
        /\ fn = "date" => Entry("integer", r.v).ok
        \* a bare item is an item without parameters; an item is a list with one member; a
        \* bare inner list is a list with one member
        /\ fn \in BareFns => LET it == Entry("item", s) IN it.ok /\ it.b = s /\ it.p = << >>
        /\ fn = "item" => LET l == Entry("list", s) IN l.ok /\ l.v = <<[b |-> r.b, p |-> r.p]>>
        /\ fn = "item" => LET ps == Entry("params", r.p) IN ps.ok
        /\ fn = "innerlist" => LET l == Entry("list", s) IN l.ok /\ l.v = <<[b |-> s, p |-> << >>]>>
        \* a display string's value is UTF-8
        /\ fn = "display" => Utf8Valid(r.v, 1)
        \* ordered maps: one entry per key, the value of the last occurrence
        /\ fn \in {"dict", "params"} =>
             LET m == OrderedMap(r.v) IN
             /\ Keys(m) = Keys(r.v)
             /\ Cardinality(Keys(m)) = Len(m)
             /\ \A key \in Keys(m) : LastOf(m, key) = LastOf(r.v, key)
        \* every member text of a list / dictionary is itself an item or a bare inner list
        /\ fn \in {"list", "dict"} =>
             \A n \in 1..Len(r.v) :
                /\ Entry(IF r.v[n].b[1] = LPAREN THEN "innerlist" ELSE "item", r.v[n].b).ok
                /\ Entry("params", r.v[n].p).ok
=============================================================================
