------------------------------- MODULE GenAll -------------------------------
(* One TLC run for both generators of C56 (saves a JVM start in the quick tier):  *)
(* the cases of Gen (entry points of httpsfv) and of GenPrio (the consumer        *)
(* parseRFC9218Priority).  The states of the two are kept apart by the chunk     *)
(* kinds ("X", "Y": GenPrio) and by the field "can" of GenPrio's cases.          *)
EXTENDS TLC

CONSTANTS GenLen, Extra, ExtraS, AllBytes, Len2
VARIABLE c

G == INSTANCE Gen
P == INSTANCE GenPrio

IsChunk  == "k" \in DOMAIN c
PrioSide == IF IsChunk THEN c.k \in {"X", "Y"} ELSE "can" \in DOMAIN c

GInit == G!GInit \/ P!GInit
GNext == /\ IsChunk
         /\ IF PrioSide THEN c' \in P!Expand(c) ELSE c' \in G!Expand(c)

Emit  == IF PrioSide THEN P!Emit ELSE G!Emit
Facts == IF PrioSide THEN P!Facts ELSE G!Facts
=============================================================================
