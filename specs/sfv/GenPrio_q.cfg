INIT GInit
NEXT GNext
CONSTANTS
  Len2 = 3
INVARIANTS Facts Emit
CHECK_DEADLOCK FALSE
