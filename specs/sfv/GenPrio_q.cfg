INIT GInit
NEXT GNext
CONSTANTS
  Len2 = 2
INVARIANTS Facts Emit
CHECK_DEADLOCK FALSE
