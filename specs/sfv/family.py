# sfv family hooks: signatures that name the specific class of a C56 disagreement, so that a
# known finding does not hide a different deviation from RFC 9651.
# The verdict always comes from TLC (a replay mismatch against TLC's prediction, or a trace
# line on which TLC's Outcome differs).  For "the package accepts what the RFC rejects" the
# class is the failing step of the RFC algorithm *as named by the specification* (innermost
# algorithm and its caller) plus what stands at the failing position (HTAB / end / byte).
import json
import re


def _shape(s):
    out = []
    for b in s[:24]:
        b = int(b)
        if 48 <= b <= 57:
            c = "9"
        elif 97 <= b <= 122:
            c = "a"
        elif 65 <= b <= 90:
            c = "A"
        elif b == 9:
            c = "\\t"
        elif 32 <= b < 127:
            c = chr(b)
        else:
            c = "\\x%02x" % b
        if not out or out[-1] != c or c not in "9aA":
            out.append(c)
    return "".join(out)


def _accepts(why, at):
    tail = "/".join(why[-3:])
    return "accepts:%s:at=%s" % (tail, at)


def _rejects(fn, inp):
    s = bytes(int(b) & 0xff for b in inp)
    if b"%ef%bf%bd" in s:
        return "rejects:display-string-with-U+FFFD"
    return "rejects:%s:%s" % (fn, _shape(inp))


def signature(prop, kind, scenario, detail):
    try:
        if prop != "C56":
            return None
        if kind == "replay" and isinstance(scenario, dict):
            fn, inp, out = scenario["fn"], scenario["in"], scenario["out"]
            act = detail.get("actual")
            if not isinstance(act, dict):
                return "%s:%s:%s" % (fn, str(act)[:40], _shape(inp))          # panic / hang
            if act.get("ok") and not out["ok"]:
                at = out.get("at", 0)
                cls = "end" if at > len(inp) else "HTAB" if inp[at - 1] == 9 else "byte"
                return _accepts(out["why"], cls)
            if not act.get("ok") and out["ok"]:
                return _rejects(fn, inp)
            return "value:%s:%s" % (fn, _shape(inp))
        if kind == "trace":
            ln = scenario["lines"][-1]
            if ln.get("e") != "parse":
                return "%s:%s:%s" % (ln.get("fn"), ln.get("e"), _shape(ln.get("in", [])))
            # detail["what"] ends with state={"bad": "<TLA+ text of the variable bad>"}:
            # << fn, "accepts", << step, ... >>, position class >> (see Trace.tla)
            m = re.search(r'state=(\{.*\})\s*$', detail.get("what", ""))
            bad = json.loads(m.group(1)).get("bad", "") if m else ""
            q = re.findall(r'"([^"]*)"', bad)
            if len(q) >= 4 and q[1] == "accepts":
                return _accepts(q[2:-1], q[-1])
            if "rejects" in bad:
                return _rejects(ln.get("fn"), ln.get("in", []))
            return "value:%s:%s" % (ln.get("fn"), _shape(ln.get("in", [])))
    except Exception:
        return None
    return None


# ---------------------------------------------------------------- replay through two Go packages

def replay_both(ctx, st):
    """gen_replay with one TLC run (GenAll.tla) and two drivers: the cases of the httpsfv entry
    points go to the family's driver, the priority field values (fn = "priority") to
    http2.parseRFC9218Priority through drivers/http2/zz_verif_sfvprio_test.go (per-stage keys
    go_package / drivers / go_test of the framework).  All the work is done by
    stages.generate / stages.stage_gen_replay; this function only splits the generated items.
    The stage descriptor stored with a violation is a plain gen_replay stage, so
    `vcheck --replay` replays the single scenario through the right driver."""
    import stages
    items, exhaustive = stages.generate(ctx, st)
    sfv = [v for v in items if v.get("fn") != "priority"]
    prio = [v for v in items if v.get("fn") == "priority"]
    st2 = dict(st, kind="gen_replay")
    st3 = dict(st2, go_package="http2", drivers=["drivers/http2/zz_verif_sfvprio_test.go"],
               go_test="TestVerifSfvPriority")
    orig = stages.generate
    try:
        stages.generate = lambda c, s: (sfv, exhaustive)
        stages.stage_gen_replay(ctx, st2)
        if prio:
            stages.generate = lambda c, s: (prio, exhaustive)
            stages.stage_gen_replay(ctx, st3)
    finally:
        stages.generate = orig
