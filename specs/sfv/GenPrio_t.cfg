INIT GInit
NEXT GNext
CONSTANTS
  Len2 = 5
INVARIANTS Facts Emit
CHECK_DEADLOCK FALSE
