INIT GInit
NEXT GNext
CONSTANTS
  Len2 = 4
INVARIANTS Facts Emit
CHECK_DEADLOCK FALSE
