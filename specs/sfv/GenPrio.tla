------------------------------ MODULE GenPrio ------------------------------
(* C56, consumer binding: the priority field value of RFC 9218 section 4 is a     *)
(* Structured Fields Dictionary; parseRFC9218Priority (http2/frame.go) reads it   *)
(* through httpsfv.ParseDictionary, ParseInteger and ParseBoolean.  This module   *)
(* predicts its result from StructuredFields:                                    *)
(*   - the field value is parsed as a Dictionary (RFC 9651 4.2.2); if that fails *)
(*     the field is ignored: defaults, ok = FALSE;                               *)
(*   - "u": Integer between 0 and 7, default 3; "i": Boolean, default false      *)
(*     (the package documents the default "incremental = 1" when the caller      *)
(*     passes canUseDefault = false); parameters of the members are ignored;     *)
(*   - unknown keys, out-of-range values and values of another type are ignored. *)
(* A repeated key takes the value of its last occurrence (OrderedMap).  When the *)
(* last occurrence of "u" or "i" is one that has to be ignored and an earlier    *)
(* one exists, whether "ignore" exposes the earlier member is a question about   *)
(* RFC 9218, not about RFC 9651: such inputs are generated but not judged        *)
(* (judged = FALSE).                                                             *)
EXTENDS StructuredFields, TLC, Json

CONSTANT Len2     \* longest body of the enumerated families

VARIABLE c

Strs(m, A) == [1..m -> A]

\* constructed priority field values
Fixed == {
    <<117, 61, 48>>,                                                   \* u=0
    <<117, 61, 51>>,                                                   \* u=3
    <<117, 61, 55>>,                                                   \* u=7
    <<117, 61, 56>>,                                                   \* u=8
    <<117, 61, 57>>,                                                   \* u=9
    <<117, 61, 49, 48>>,                                               \* u=10
    <<117, 61, 45, 49>>,                                               \* u=-1
    <<117, 61, 45, 48>>,                                               \* u=-0
    <<117, 61, 48, 55>>,                                               \* u=07
    <<117, 61, 51, 46, 48>>,                                           \* u=3.0
    <<117, 61, 97>>,                                                   \* u=a
    <<117, 61, 63, 49>>,                                               \* u=?1
    <<117, 61, 34, 51, 34>>,                                           \* u="3"
    <<117, 61, 58, 77, 119, 61, 61, 58>>,                              \* u=:Mw==:
    <<117, 61, 64, 51>>,                                               \* u=@3
    <<117>>,                                                           \* u
    <<117, 61>>,                                                       \* u=
    <<105>>,                                                           \* i
    <<105, 61, 63, 49>>,                                               \* i=?1
    <<105, 61, 63, 48>>,                                               \* i=?0
    <<105, 61, 49>>,                                                   \* i=1
    <<105, 61, 48>>,                                                   \* i=0
    <<105, 61, 63, 50>>,                                               \* i=?2
    <<105, 61, 97>>,                                                   \* i=a
    <<105, 61>>,                                                       \* i=
    <<105, 59, 97>>,                                                   \* i;a
    <<105, 59, 97, 61, 49>>,                                           \* i;a=1
    <<105, 61, 63, 48, 59, 97>>,                                       \* i=?0;a
    <<117, 61, 49, 44, 32, 105>>,                                      \* u=1, i
    <<117, 61, 49, 44, 105>>,                                          \* u=1,i
    <<117, 61, 49, 32, 44, 32, 105>>,                                  \* u=1 , i
    <<117, 61, 49, 44, 9, 105>>,                                       \* u=1,\ti
    <<105, 44, 32, 117, 61, 53>>,                                      \* i, u=5
    <<105, 44, 117, 61, 53>>,                                          \* i,u=5
    <<117, 61, 50, 44, 32, 105, 61, 63, 48>>,                          \* u=2, i=?0
    <<105, 61, 63, 48, 44, 32, 117, 61, 50>>,                          \* i=?0, u=2
    <<117, 61, 53, 59, 120, 61, 49, 44, 32, 105, 59, 121>>,            \* u=5;x=1, i;y
    <<117, 61, 40, 49, 41, 44, 32, 105>>,                              \* u=(1), i
    <<117, 61, 40, 49, 32, 50, 41, 59, 97, 44, 32, 105, 61, 40, 41>>,  \* u=(1 2);a, i=()
    <<117, 61, 40, 44, 32, 105>>,                                      \* u=(, i
    <<97, 61, 49, 44, 32, 117, 61, 50>>,                               \* a=1, u=2
    <<97, 44, 32, 98, 44, 32, 117, 61, 52, 44, 32, 99, 44, 32, 105>>,  \* a, b, u=4, c, i
    <<117, 114, 103, 101, 110, 99, 121, 61, 49, 44, 32, 105>>,         \* urgency=1, i
    <<117, 61, 49, 44, 32, 105, 110, 99, 114, 101, 109, 101, 110, 116, 97, 108>>, \* u=1, incremental
    <<42, 61, 49, 44, 32, 117, 61, 54>>,                               \* *=1, u=6
    <<117, 45, 61, 49>>,                                               \* u-=1
    <<85, 61, 49>>,                                                    \* U=1
    <<73>>,                                                            \* I
    <<117, 61, 49, 44, 32, 117, 61, 50>>,                              \* u=1, u=2
    <<117, 61, 50, 44, 32, 117, 61, 49>>,                              \* u=2, u=1
    <<117, 61, 57, 44, 32, 117, 61, 49>>,                              \* u=9, u=1
    <<117, 61, 49, 44, 32, 117, 61, 57>>,                              \* u=1, u=9
    <<105, 44, 32, 105, 61, 63, 48>>,                                  \* i, i=?0
    <<105, 61, 63, 48, 44, 32, 105>>,                                  \* i=?0, i
    <<105, 61, 97, 44, 32, 105>>,                                      \* i=a, i
    <<105, 44, 32, 105, 61, 97>>,                                      \* i, i=a
    <<117, 61, 97, 44, 32, 117, 61, 49>>,                              \* u=a, u=1
    <<117, 61, 49, 44, 32, 117, 61, 97>>,                              \* u=1, u=a
    <<117, 61, 49, 32, 105>>,                                          \* u=1 i
    <<117, 61, 49, 32, 32, 105>>,                                      \* u=1  i
    <<117, 61, 49, 9, 105>>,                                           \* u=1\ti
    <<117, 61, 49, 105>>,                                              \* u=1i
    <<105, 32, 117, 61, 49>>,                                          \* i u=1
    <<105, 59, 9, 97>>,                                                \* i;\ta
    <<117, 61, 49, 59, 9, 120, 44, 32, 105>>,                          \* u=1;\tx, i
    <<117, 61, 49, 44>>,                                               \* u=1,
    <<117, 61, 49, 44, 32>>,                                           \* u=1, 
    <<44, 32, 117, 61, 49>>,                                           \* , u=1
    <<32, 117, 61, 49>>,                                               \*  u=1
    <<117, 61, 49, 32>>,                                               \* u=1 
    <<117, 61, 49, 9>>,                                                \* u=1\t
    <<117, 32, 61, 49>>,                                               \* u =1
    <<117, 61, 32, 49>>,                                               \* u= 1
    <<117, 61, 49, 44, 44, 105>>,                                      \* u=1,,i
    <<117, 61, 49, 50, 51, 52, 53, 54, 55, 56, 57, 48, 49, 50, 51, 52, 53, 44, 32, 105>>, \* u=123456789012345, i
    <<117, 61, 49, 50, 51, 52, 53, 54, 55, 56, 57, 48, 49, 50, 51, 52, 53, 54, 44, 32, 105>>, \* u=1234567890123456, i
    <<117, 61, 48, 48, 48, 48, 48, 48, 48, 48, 48, 48, 48, 48, 48, 48, 48, 53>>, \* u=0000000000000005
    <<117, 61, 48, 48, 48, 48, 48, 48, 48, 48, 48, 48, 48, 48, 48, 48, 53>>, \* u=000000000000005
    <<117, 61, 53, 44, 32, 105, 61, 37, 34, 37, 101, 102, 37, 98, 102, 37, 98, 100, 34>>, \* u=5, i=%"%ef%bf%bd"
    <<117, 61, 53, 44, 32, 120, 61, 37, 34, 37, 101, 102, 37, 98, 102, 37, 98, 100, 34>>, \* u=5, x=%"%ef%bf%bd"
    <<>>                                                               \* (empty)
}

\* u= then 0 3 7 8 - . , SP i ?          i then = ? 0 1 , SP u 3 ;
PFam == <<
  [pre |-> <<117, 61>>, alpha |-> {48, 51, 55, 56, 45, 46, 44, 32, 105, 63}, n |-> Len2],
  [pre |-> <<105>>,     alpha |-> {61, 63, 48, 49, 44, 32, 117, 51, 59},     n |-> Len2]
>>

U == <<117>>
I == <<105>>

Occ(d, key) == { n \in 1..Len(d) : d[n].k = key }
Last(S) == CHOOSE n \in S : \A m \in S : m <= n

\* the value a member text denotes for "u" (NoU: to be ignored) and "i" ("ignored")
NoU == 0 - 1
UVal(b) == LET r == Entry("integer", b) IN
           IF r.ok /\ Len(r.v) = 1 /\ r.v[1] \in 48..55 THEN r.v[1] - 48 ELSE NoU
IVal(b) == LET r == Entry("boolean", b) IN IF ~r.ok THEN "ignored" ELSE IF r.v THEN "true" ELSE "false"

Priority(s, can) ==
    LET d == ParseDictionary(s, 1)
        defI == ~can
    IN  IF ~d.ok THEN [ok |-> FALSE, u |-> 3, i |-> defI, judged |-> TRUE, why |-> d.why, at |-> d.i]
        ELSE LET ou == Occ(d.v, U)
                 oi == Occ(d.v, I)
                 uv == IF ou = {} THEN NoU ELSE UVal(d.v[Last(ou)].b)
                 iv == IF oi = {} THEN "ignored" ELSE IVal(d.v[Last(oi)].b)
             IN  [ok |-> TRUE,
                  u |-> IF uv = NoU THEN 3 ELSE uv,
                  i |-> IF iv = "ignored" THEN defI ELSE iv = "true",
                  judged |-> ~(uv = NoU /\ Cardinality(ou) > 1) /\ ~(iv = "ignored" /\ Cardinality(oi) > 1)]

Chunks == [k : {"X"}, part : 0..3] \cup
          UNION { { [k |-> "Y", f |-> f, m |-> m, first |-> x] : m \in 1..Len2, x \in PFam[f].alpha } :
                  f \in 1..Len(PFam) }

Expand(ch) ==
    IF ch.k = "X" THEN { [in |-> x, can |-> b] : x \in { y \in Fixed : Len(y) % 4 = ch.part }, b \in BOOLEAN }
    ELSE { [in |-> PFam[ch.f].pre \o <<ch.first>> \o r, can |-> b] :
             r \in Strs(ch.m - 1, PFam[ch.f].alpha), b \in BOOLEAN }

IsChunk == "k" \in DOMAIN c
GInit == c \in Chunks
GNext == IsChunk /\ c' \in Expand(c)

Emit == IsChunk \/
        PrintT(<<"CASE", ToJson([fn |-> "priority", in |-> c.in, can |-> c.can, out |-> Priority(c.in, c.can)])>>)

\* spec-level facts: the result is in range; a failed field gives the defaults; a field
\* without "u" and "i" members gives the defaults
Facts == IsChunk \/
         LET p == Priority(c.in, c.can) IN
         /\ p.u \in 0..7 /\ p.i \in BOOLEAN
         /\ ~p.ok => p.u = 3 /\ p.i = ~c.can
         /\ (p.ok /\ \A n \in 1..Len(c.in) : c.in[n] \notin {117, 105}) => p.u = 3 /\ p.i = ~c.can
=============================================================================
