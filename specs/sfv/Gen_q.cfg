INIT GInit
NEXT GNext
CONSTANTS
  GenLen = 1
  Extra = 0
  ExtraS = 0
  AllBytes = FALSE
INVARIANTS Facts Emit
CHECK_DEADLOCK FALSE
