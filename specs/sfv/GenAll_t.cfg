INIT GInit
NEXT GNext
CONSTANTS
  GenLen = 2
  Extra = 1
  ExtraS = 2
  AllBytes = TRUE
  Len2 = 4
INVARIANTS Facts Emit
CHECK_DEADLOCK FALSE
