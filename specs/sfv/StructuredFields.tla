-------------------------- MODULE StructuredFields --------------------------
(* C56.  The parsing algorithms of RFC 9651 section 4.2 on byte sequences.        *)
(*                                                                               *)
(* Every algorithm of the RFC ("Given an ASCII string as input_string ...") is   *)
(* an operator P(s, i): s is the whole input (a sequence of bytes 0..255), i the *)
(* index of the first character not yet consumed (input_string = s[i..]).  The   *)
(* result is a record                                                            *)
(*     [ok |-> TRUE,  i |-> index after the consumed part, ... value fields ]    *)
(*     [ok |-> FALSE, i |-> where parsing failed, why |-> <<which "fail parsing" *)
(*                                 step of the RFC, innermost algorithm last>>]  *)
(* The numbered steps of the RFC are kept in the comments.  Loops ("While        *)
(* input_string is not empty") are recursive operators.                          *)
(*                                                                               *)
(* Values.  Integers have up to 15 digits and do not fit TLC's integers, so a    *)
(* number's value is its canonical decimal numeral as a byte sequence: no        *)
(* leading zeros, "-" only for non-zero values, decimals with exactly three      *)
(* fractional digits.  Strings, tokens, keys and display strings are byte        *)
(* sequences (display strings: the UTF-8 bytes).  Byte sequences stay base64     *)
(* text: decoding (step 7 of 4.2.7) is not modelled.                             *)
(*                                                                               *)
(* The package reports members through callbacks as the *text* of each member    *)
(* (bare item or bare inner list), of its parameters, and of each key; therefore *)
(* the structure parsers also return those texts (fields "b", "p", "k", "v").    *)
(* Boolean true for a key without "=" is reported as the text "?1".              *)
EXTENDS Integers, Sequences, FiniteSets

DQUOTE == 34   \* "
BSLASH == 92   \* \
SP     == 32
HTAB   == 9
STAR   == 42   \* *
COMMA  == 44
MINUS  == 45
DOT    == 46
COLON  == 58
SEMI   == 59
EQUALS == 61
QMARK  == 63
ATSIGN == 64
PCT    == 37
LPAREN == 40
RPAREN == 41
ZERO   == 48
ONE    == 49

LCALPHA == 97..122
ALPHA   == (65..90) \cup LCALPHA
DIGIT   == 48..57
VCHAR   == 33..126
OWS     == {SP, HTAB}
\* RFC 9110 5.6.2: ! # $ % & ' * + - . ^ _ ` | ~ DIGIT ALPHA
TCHAR   == {33, 35, 36, 37, 38, 39, 42, 43, 45, 46, 94, 95, 96, 124, 126} \cup DIGIT \cup ALPHA
KEYCHAR == LCALPHA \cup DIGIT \cup {95, MINUS, DOT, STAR}          \* lcalpha DIGIT _ - . *
B64CHAR == ALPHA \cup DIGIT \cup {43, 47, 61}                      \* ALPHA DIGIT + / =
LCHEX   == DIGIT \cup (97..102)                                    \* %x30-39 / %x61-66

\* "the first character of input_string", or NoChar when input_string is empty
NoChar == 0 - 1
At(s, i) == IF i <= Len(s) THEN s[i] ELSE NoChar
Empty(s, i) == i > Len(s)

Fail(why, i) == [ok |-> FALSE, i |-> i, why |-> <<why>>]
\* a failure of a sub-algorithm seen from the algorithm that called it
In(ctx, r) == [ok |-> FALSE, i |-> r.i, why |-> <<ctx>> \o r.why]

RECURSIVE SkipSet(_, _, _)
SkipSet(s, i, set) == IF At(s, i) \in set THEN SkipSet(s, i + 1, set) ELSE i
SkipSP(s, i)  == SkipSet(s, i, {SP})       \* "Discard any leading SP characters"
SkipOWS(s, i) == SkipSet(s, i, OWS)        \* "Discard any leading OWS characters"

Text(s, a, b) == SubSeq(s, a, b - 1)       \* the characters consumed between indices a and b

---------------------------------------------------------------------------
(* 4.2.3.3 Parsing a Key                                                         *)
(*  1. If the first character of input_string is not lcalpha or "*", fail.       *)
(*  2-4. consume while the first character is lcalpha, DIGIT, "_", "-", ".", "*" *)
ParseKey(s, i) ==
    IF At(s, i) \notin LCALPHA \cup {STAR} THEN Fail("key:first-char-not-lcalpha-or-star", i)
    ELSE LET e == SkipSet(s, i, KEYCHAR) IN [ok |-> TRUE, i |-> e, v |-> Text(s, i, e)]

---------------------------------------------------------------------------
(* 4.2.4 Parsing an Integer or Decimal                                           *)

StripZeros(d) ==      \* numeral without leading zeros (at least one digit stays)
    LET nz == { k \in 1..Len(d) : d[k] # ZERO } IN
    IF nz = {} THEN <<ZERO>> ELSE SubSeq(d, CHOOSE k \in nz : \A j \in nz : k <= j, Len(d))
AllZero(d) == \A k \in 1..Len(d) : d[k] = ZERO
PadRight(d, n) == [k \in 1..n |-> IF k <= Len(d) THEN d[k] ELSE ZERO]

\* step 7, the loop.  dec: type = "decimal"; len: characters in input_number; dot: index of "."
RECURSIVE NumLoop(_, _, _, _, _)
NumLoop(s, i, dec, len, dot) ==
    IF Empty(s, i) THEN [ok |-> TRUE, i |-> i, dec |-> dec, dot |-> dot]
    ELSE LET char == s[i] IN                                                   \* 7.1
         IF char \in DIGIT THEN                                                \* 7.2
              IF ~dec /\ len + 1 > 15 THEN Fail("number:integer-over-15-digits", i)        \* 7.5
              ELSE IF dec /\ len + 1 > 16 THEN Fail("number:decimal-over-16-chars", i)     \* 7.6
              ELSE NumLoop(s, i + 1, dec, len + 1, dot)
         ELSE IF ~dec /\ char = DOT THEN                                       \* 7.3
              IF len > 12 THEN Fail("number:integer-part-over-12-digits", i)   \* 7.3.1
              ELSE NumLoop(s, i + 1, TRUE, len + 1, i)                         \* 7.3.2 (13 <= 16: 7.6 holds)
         ELSE [ok |-> TRUE, i |-> i, dec |-> dec, dot |-> dot]                 \* 7.4

ParseNumber(s, i) ==
    LET neg == At(s, i) = MINUS                                                \* 4
        j   == IF neg THEN i + 1 ELSE i
    IN  IF Empty(s, j) THEN Fail("number:empty", j)                            \* 5
        ELSE IF s[j] \notin DIGIT THEN Fail("number:first-char-not-digit", j)  \* 6
        ELSE LET r == NumLoop(s, j, FALSE, 0, 0) IN
             IF ~r.ok THEN r
             ELSE IF ~r.dec THEN                                               \* 8
                  LET d == Text(s, j, r.i) IN
                  [ok |-> TRUE, i |-> r.i, ty |-> "integer",
                   v |-> (IF neg /\ ~AllZero(d) THEN <<MINUS>> ELSE << >>) \o StripZeros(d)]
             ELSE                                                              \* 9
                  LET ip == Text(s, j, r.dot)
                      fp == Text(s, r.dot + 1, r.i)
                  IN  IF fp = << >> THEN Fail("number:decimal-ends-with-dot", r.i)          \* 9.1
                      ELSE IF Len(fp) > 3 THEN Fail("number:over-3-fraction-digits", r.i)   \* 9.2
                      ELSE [ok |-> TRUE, i |-> r.i, ty |-> "decimal",
                            v |-> (IF neg /\ ~(AllZero(ip) /\ AllZero(fp)) THEN <<MINUS>> ELSE << >>)
                                  \o StripZeros(ip) \o <<DOT>> \o PadRight(fp, 3)]

---------------------------------------------------------------------------
(* 4.2.5 Parsing a String                                                        *)
RECURSIVE StrLoop(_, _, _)
StrLoop(s, i, out) ==
    IF Empty(s, i) THEN Fail("string:no-closing-dquote", i)                    \* 5
    ELSE LET char == s[i] IN                                                   \* 4.1
         IF char = BSLASH THEN                                                 \* 4.2
              IF Empty(s, i + 1) THEN Fail("string:backslash-at-end", i + 1)   \* 4.2.1
              ELSE IF s[i + 1] \notin {DQUOTE, BSLASH} THEN Fail("string:bad-escape", i + 1)   \* 4.2.3
              ELSE StrLoop(s, i + 2, Append(out, s[i + 1]))                    \* 4.2.4
         ELSE IF char = DQUOTE THEN [ok |-> TRUE, i |-> i + 1, ty |-> "string", v |-> out]  \* 4.3
         ELSE IF char \notin VCHAR \cup {SP} THEN Fail("string:char-not-vchar-or-sp", i)    \* 4.4
         ELSE StrLoop(s, i + 1, Append(out, char))                             \* 4.5

ParseString(s, i) ==
    IF At(s, i) # DQUOTE THEN Fail("string:first-char-not-dquote", i)          \* 2
    ELSE StrLoop(s, i + 1, << >>)                                              \* 3, 4

---------------------------------------------------------------------------
(* 4.2.6 Parsing a Token                                                         *)
ParseToken(s, i) ==
    IF At(s, i) \notin ALPHA \cup {STAR} THEN Fail("token:first-char-not-alpha-or-star", i)   \* 1
    ELSE LET e == SkipSet(s, i, TCHAR \cup {COLON, 47}) IN                     \* 3: tchar, ":", "/"
         [ok |-> TRUE, i |-> e, ty |-> "token", v |-> Text(s, i, e)]

---------------------------------------------------------------------------
(* 4.2.7 Parsing a Byte Sequence (the value is the base64 text, see above)       *)
ParseByteSeq(s, i) ==
    IF At(s, i) # COLON THEN Fail("bytes:first-char-not-colon", i)             \* 1
    ELSE LET cs == { k \in (i + 1)..Len(s) : s[k] = COLON } IN                 \* 2
         IF cs = {} THEN Fail("bytes:no-closing-colon", Len(s) + 1)            \* 3
         ELSE LET e == CHOOSE k \in cs : \A j \in cs : k <= j IN               \* 4, 5
              IF \E k \in (i + 1)..(e - 1) : s[k] \notin B64CHAR
              THEN Fail("bytes:char-not-base64", CHOOSE k \in (i + 1)..(e - 1) : s[k] \notin B64CHAR)   \* 6
              ELSE [ok |-> TRUE, i |-> e + 1, ty |-> "bytes", v |-> Text(s, i + 1, e)]

---------------------------------------------------------------------------
(* 4.2.8 Parsing a Boolean                                                       *)
ParseBoolean(s, i) ==
    IF At(s, i) # QMARK THEN Fail("boolean:first-char-not-qmark", i)           \* 1
    ELSE IF At(s, i + 1) = ONE THEN [ok |-> TRUE, i |-> i + 2, ty |-> "boolean", v |-> TRUE]    \* 3
    ELSE IF At(s, i + 1) = ZERO THEN [ok |-> TRUE, i |-> i + 2, ty |-> "boolean", v |-> FALSE]  \* 4
    ELSE Fail("boolean:not-0-or-1", i + 1)                                     \* 5

---------------------------------------------------------------------------
(* 4.2.9 Parsing a Date                                                          *)
ParseDate(s, i) ==
    IF At(s, i) # ATSIGN THEN Fail("date:first-char-not-at", i)                \* 1
    ELSE LET r == ParseNumber(s, i + 1) IN                                     \* 2, 3
         IF ~r.ok THEN In("date", r)
         ELSE IF r.ty = "decimal" THEN Fail("date:decimal", r.i)               \* 4
         ELSE [ok |-> TRUE, i |-> r.i, ty |-> "date", v |-> r.v]               \* 5

---------------------------------------------------------------------------
(* 4.2.10 Parsing a Display String                                               *)

HexVal(c) == IF c \in DIGIT THEN c - 48 ELSE c - 87

\* RFC 3629 section 4, the syntax of UTF-8 byte sequences
UTail(b) == b \in 128..191
RECURSIVE Utf8Valid(_, _)
Utf8Valid(b, k) ==
    IF k > Len(b) THEN TRUE
    ELSE LET c == b[k]
             T(j) == k + j <= Len(b) /\ UTail(b[k + j])
             R(lo, hi) == k + 1 <= Len(b) /\ b[k + 1] \in lo..hi
         IN  IF c \in 0..127 THEN Utf8Valid(b, k + 1)                                        \* UTF8-1
             ELSE IF c \in 194..223 THEN T(1) /\ Utf8Valid(b, k + 2)                         \* UTF8-2
             ELSE IF c = 224 THEN R(160, 191) /\ T(2) /\ Utf8Valid(b, k + 3)                 \* UTF8-3
             ELSE IF c \in 225..236 THEN T(1) /\ T(2) /\ Utf8Valid(b, k + 3)
             ELSE IF c = 237 THEN R(128, 159) /\ T(2) /\ Utf8Valid(b, k + 3)
             ELSE IF c \in 238..239 THEN T(1) /\ T(2) /\ Utf8Valid(b, k + 3)
             ELSE IF c = 240 THEN R(144, 191) /\ T(2) /\ T(3) /\ Utf8Valid(b, k + 4)         \* UTF8-4
             ELSE IF c \in 241..243 THEN T(1) /\ T(2) /\ T(3) /\ Utf8Valid(b, k + 4)
             ELSE IF c = 244 THEN R(128, 143) /\ T(2) /\ T(3) /\ Utf8Valid(b, k + 4)
             ELSE FALSE

RECURSIVE DispLoop(_, _, _)
DispLoop(s, i, bytes) ==
    IF Empty(s, i) THEN Fail("display:no-closing-dquote", i)                   \* 5
    ELSE LET char == s[i] IN                                                   \* 4.1
         IF char \notin VCHAR \cup {SP} THEN Fail("display:char-not-vchar-or-sp", i)        \* 4.2
         ELSE IF char = PCT THEN                                               \* 4.3
              IF i + 2 > Len(s) THEN Fail("display:truncated-escape", i + 1)   \* 4.3.1
              ELSE IF s[i + 1] \notin LCHEX \/ s[i + 2] \notin LCHEX
                   THEN Fail("display:escape-not-lc-hex", i + 1)               \* 4.3.2
              ELSE DispLoop(s, i + 3, Append(bytes, 16 * HexVal(s[i + 1]) + HexVal(s[i + 2])))   \* 4.3.3-4
         ELSE IF char = DQUOTE THEN                                            \* 4.4
              IF Utf8Valid(bytes, 1) THEN [ok |-> TRUE, i |-> i + 1, ty |-> "display", v |-> bytes]
              ELSE Fail("display:invalid-utf8", i)
         ELSE DispLoop(s, i + 1, Append(bytes, char))                          \* 4.5

ParseDisplayString(s, i) ==
    IF At(s, i) # PCT \/ At(s, i + 1) # DQUOTE THEN Fail("display:first-chars-not-pct-dquote", i)   \* 1
    ELSE DispLoop(s, i + 2, << >>)                                             \* 2-4

---------------------------------------------------------------------------
(* 4.2.3.1 Parsing a Bare Item                                                   *)
ParseBareItem(s, i) ==
    LET c == At(s, i) IN
    IF c = MINUS \/ c \in DIGIT THEN ParseNumber(s, i)                         \* 1
    ELSE IF c = DQUOTE THEN ParseString(s, i)                                  \* 2
    ELSE IF c \in ALPHA \/ c = STAR THEN ParseToken(s, i)                      \* 3
    ELSE IF c = COLON THEN ParseByteSeq(s, i)                                  \* 4
    ELSE IF c = QMARK THEN ParseBoolean(s, i)                                  \* 5
    ELSE IF c = ATSIGN THEN ParseDate(s, i)                                    \* 6
    ELSE IF c = PCT THEN ParseDisplayString(s, i)                              \* 7
    ELSE Fail("bare-item:unrecognized-first-char", i)                          \* 8

True1 == <<QMARK, ONE>>      \* how the package's callbacks spell Boolean true

---------------------------------------------------------------------------
(* 4.2.3.2 Parsing Parameters.  v: the (key, value) pairs in input order, value  *)
(* as bare-item text; the RFC's ordered map is OrderedMap(v) (7, 8).             *)
RECURSIVE ParamLoop(_, _, _)
ParamLoop(s, i, acc) ==
    IF At(s, i) # SEMI THEN [ok |-> TRUE, i |-> i, v |-> acc]                  \* 2, 2.1, 3
    ELSE LET j == SkipSP(s, i + 1)                                             \* 2.2, 2.3
             k == ParseKey(s, j)                                               \* 2.4
         IN  IF ~k.ok THEN In("parameters", k)
             ELSE IF At(s, k.i) = EQUALS THEN                                  \* 2.6
                  LET b == ParseBareItem(s, k.i + 1) IN
                  IF ~b.ok THEN In("parameters", b)
                  ELSE ParamLoop(s, b.i, Append(acc, [k |-> k.v, v |-> Text(s, k.i + 1, b.i)]))
             ELSE ParamLoop(s, k.i, Append(acc, [k |-> k.v, v |-> True1]))     \* 2.5

ParseParameters(s, i) == ParamLoop(s, i, << >>)

(* 4.2.3 Parsing an Item.  b, p: text of the bare item and of its parameters     *)
ParseItem(s, i) ==
    LET b == ParseBareItem(s, i) IN                                            \* 1
    IF ~b.ok THEN In("item", b)
    ELSE LET p == ParseParameters(s, b.i) IN                                   \* 2
         IF ~p.ok THEN In("item", p)
         ELSE [ok |-> TRUE, i |-> p.i, b |-> Text(s, i, b.i), p |-> Text(s, b.i, p.i)]

---------------------------------------------------------------------------
(* 4.2.1.2 Parsing an Inner List, without its trailing parameters (step 3.2.2):  *)
(* the package's "bare inner list".  v: the items as (b, p) texts.               *)
RECURSIVE InnerLoop(_, _, _)
InnerLoop(s, i, acc) ==
    IF Empty(s, i) THEN Fail("inner-list:end-not-found", i)                    \* 4
    ELSE LET j == SkipSP(s, i) IN                                              \* 3.1
         IF At(s, j) = RPAREN THEN [ok |-> TRUE, i |-> j + 1, v |-> acc]       \* 3.2
         ELSE LET it == ParseItem(s, j) IN                                     \* 3.3
              IF ~it.ok THEN In("inner-list", it)
              ELSE IF At(s, it.i) \notin {SP, RPAREN}
                   THEN Fail("inner-list:item-not-followed-by-sp-or-rparen", it.i)   \* 3.5
              ELSE InnerLoop(s, it.i, Append(acc, [b |-> it.b, p |-> it.p]))   \* 3.4

ParseBareInnerList(s, i) ==
    IF At(s, i) # LPAREN THEN Fail("inner-list:first-char-not-lparen", i)      \* 1
    ELSE InnerLoop(s, i + 1, << >>)

(* 4.2.1.1 Parsing an Item or Inner List.  b: text of the member without its     *)
(* parameters, p: text of the parameters                                         *)
ParseItemOrInnerList(s, i) ==
    IF At(s, i) = LPAREN THEN                                                  \* 1
        LET il == ParseBareInnerList(s, i) IN
        IF ~il.ok THEN il
        ELSE LET p == ParseParameters(s, il.i) IN
             IF ~p.ok THEN In("inner-list", p)
             ELSE [ok |-> TRUE, i |-> p.i, b |-> Text(s, i, il.i), p |-> Text(s, il.i, p.i)]
    ELSE LET it == ParseItem(s, i) IN                                          \* 2
         IF ~it.ok THEN it ELSE [ok |-> TRUE, i |-> it.i, b |-> it.b, p |-> it.p]

---------------------------------------------------------------------------
(* 4.2.1 Parsing a List.  v: members in input order as (b, p) texts              *)
RECURSIVE ListLoop(_, _, _)
ListLoop(s, i, acc) ==
    IF Empty(s, i) THEN [ok |-> TRUE, i |-> i, v |-> acc]                      \* 2, 3
    ELSE LET m == ParseItemOrInnerList(s, i) IN                                \* 2.1
         IF ~m.ok THEN In("list", m)
         ELSE LET acc2 == Append(acc, [b |-> m.b, p |-> m.p])
                  j == SkipOWS(s, m.i)                                         \* 2.2
              IN  IF Empty(s, j) THEN [ok |-> TRUE, i |-> j, v |-> acc2]       \* 2.3
                  ELSE IF s[j] # COMMA THEN Fail("list:member-not-followed-by-comma", j)    \* 2.4
                  ELSE LET k == SkipOWS(s, j + 1) IN                           \* 2.5
                       IF Empty(s, k) THEN Fail("list:trailing-comma", k)      \* 2.6
                       ELSE ListLoop(s, k, acc2)

ParseList(s, i) == ListLoop(s, i, << >>)

---------------------------------------------------------------------------
(* 4.2.2 Parsing a Dictionary.  v: members in input order as (k, b, p) texts;    *)
(* the RFC's ordered map is OrderedMap(v) (2.4, 2.5).                            *)
RECURSIVE DictLoop(_, _, _)
DictLoop(s, i, acc) ==
    IF Empty(s, i) THEN [ok |-> TRUE, i |-> i, v |-> acc]                      \* 2, 3
    ELSE LET k == ParseKey(s, i) IN                                            \* 2.1
         IF ~k.ok THEN In("dictionary", k)
         ELSE LET m == IF At(s, k.i) = EQUALS                                  \* 2.2
                       THEN ParseItemOrInnerList(s, k.i + 1)
                       ELSE LET p == ParseParameters(s, k.i) IN                \* 2.3
                            IF ~p.ok THEN p
                            ELSE [ok |-> TRUE, i |-> p.i, b |-> True1, p |-> Text(s, k.i, p.i)]
              IN  IF ~m.ok THEN In("dictionary", m)
                  ELSE LET acc2 == Append(acc, [k |-> k.v, b |-> m.b, p |-> m.p])
                           j == SkipOWS(s, m.i)                                \* 2.6
                       IN  IF Empty(s, j) THEN [ok |-> TRUE, i |-> j, v |-> acc2]           \* 2.7
                           ELSE IF s[j] # COMMA THEN Fail("dictionary:member-not-followed-by-comma", j)   \* 2.8
                           ELSE LET n == SkipOWS(s, j + 1) IN                  \* 2.9
                                IF Empty(s, n) THEN Fail("dictionary:trailing-comma", n)    \* 2.10
                                ELSE DictLoop(s, n, acc2)

ParseDictionary(s, i) == DictLoop(s, i, << >>)

---------------------------------------------------------------------------
(* The ordered map of 4.2.2 (2.4, 2.5) and 4.2.3.2 (7, 8) from the members in    *)
(* input order: a repeated key keeps its first position and takes the last value *)
Keys(occ) == { occ[n].k : n \in 1..Len(occ) }
LastOf(occ, key) == occ[CHOOSE n \in 1..Len(occ) : occ[n].k = key /\ \A m \in (n + 1)..Len(occ) : occ[m].k # key]
FirstIdx(occ) == { n \in 1..Len(occ) : \A m \in 1..(n - 1) : occ[m].k # occ[n].k }
RECURSIVE SortedSeq(_)
SortedSeq(S) == IF S = {} THEN << >>
                ELSE LET m == CHOOSE x \in S : \A y \in S : x <= y IN <<m>> \o SortedSeq(S \ {m})
OrderedMap(occ) == LET ix == SortedSeq(FirstIdx(occ)) IN [n \in 1..Len(ix) |-> LastOf(occ, occ[ix[n]].k)]

---------------------------------------------------------------------------
(* The entry points of the package: the whole string has to be one structure.    *)
(* (Section 4.2's top-level steps - discarding SP before and after the field     *)
(* value - belong to the caller: the package takes "a string that represents"    *)
(* the structure.)                                                               *)
Whole(s, r, name) ==
    IF ~r.ok THEN r
    ELSE IF r.i # Len(s) + 1 THEN Fail(name \o ":trailing-characters", r.i)
    ELSE r

Entry(fn, s) ==
    CASE fn = "list"      -> ParseList(s, 1)            \* consumes everything or fails
      [] fn = "dict"      -> ParseDictionary(s, 1)
      [] fn = "item"      -> Whole(s, ParseItem(s, 1), "item")
      [] fn = "innerlist" -> Whole(s, ParseBareInnerList(s, 1), "inner-list")
      [] fn = "params"    -> Whole(s, ParseParameters(s, 1), "parameters")
      [] fn = "integer"   -> LET r == Whole(s, ParseNumber(s, 1), "integer") IN
                             IF r.ok /\ r.ty # "integer" THEN Fail("integer:is-a-decimal", 1) ELSE r
      [] fn = "decimal"   -> LET r == Whole(s, ParseNumber(s, 1), "decimal") IN
                             IF r.ok /\ r.ty # "decimal" THEN Fail("decimal:is-an-integer", 1) ELSE r
      [] fn = "string"    -> Whole(s, ParseString(s, 1), "string")
      [] fn = "token"     -> Whole(s, ParseToken(s, 1), "token")
      [] fn = "bytes"     -> Whole(s, ParseByteSeq(s, 1), "bytes")
      [] fn = "boolean"   -> Whole(s, ParseBoolean(s, 1), "boolean")
      [] fn = "date"      -> Whole(s, ParseDate(s, 1), "date")
      [] fn = "display"   -> Whole(s, ParseDisplayString(s, 1), "display")

Fns == {"list", "dict", "item", "innerlist", "params", "integer", "decimal", "string", "token",
        "bytes", "boolean", "date", "display"}

\* What is compared with the real package: acceptance, and for an accepted input the value.
\* For "string" and "bytes" the property makes no claim about the returned value (the package
\* documents/tests raw text there); only acceptance is judged.
Outcome(fn, s) ==
    LET r == Entry(fn, s) IN
    IF ~r.ok THEN [ok |-> FALSE, why |-> r.why, at |-> r.i]
    ELSE IF fn = "item" THEN [ok |-> TRUE, v |-> <<[b |-> r.b, p |-> r.p]>>]
    ELSE IF fn \in {"string", "bytes"} THEN [ok |-> TRUE]
    ELSE [ok |-> TRUE, v |-> r.v]
=============================================================================
