------------------------------- MODULE Trace -------------------------------
(* C56 trace validation.  One trace = one call recorded from the real package:    *)
(*   {"e":"parse","fn":entry point,"in":[bytes],"ok":b,"v":value (when ok)}        *)
(* with the value in the projection documented in the driver (the same shape as  *)
(* StructuredFields!Outcome).  TLC computes what RFC 9651 determines for the     *)
(* input; a disagreement is recorded in `bad` (which names the entry point, the   *)
(* direction and the failing RFC step) and violates the invariant Agree.  panic  *)
(* and hang lines match no step.                                                 *)
EXTENDS StructuredFields, TraceIO

VARIABLES cur, l, bad
tvars == <<cur, l, bad>>
Line == Trace[l]

TInit == \E t \in 1..NT : cur = t /\ l = Meta.starts[t] /\ bad = << >>

AtClass(s, at) == IF at > Len(s) THEN "end" ELSE IF s[at] = HTAB THEN "HTAB" ELSE "byte"

Verdict(ln) ==
    LET o == Outcome(ln.fn, ln.in) IN
    IF ln.ok /\ ~o.ok THEN <<ln.fn, "accepts", o.why, AtClass(ln.in, o.at)>>
    ELSE IF ~ln.ok /\ o.ok THEN <<ln.fn, "rejects">>
    ELSE IF ln.ok /\ "v" \in DOMAIN o /\ ("v" \notin DOMAIN ln \/ ln.v # o.v) THEN <<ln.fn, "value", o.v>>
    ELSE << >>

TParse == /\ Line.e = "parse"
          /\ Line.fn \in Fns
          /\ bad' = Verdict(Line)

TNext == /\ l <= Meta.ends[cur] /\ l' = l + 1 /\ cur' = cur /\ TParse
TSpec == TInit /\ [][TNext]_tvars
Mark == HighWater(cur, l)
Agree == bad = << >>
=============================================================================
