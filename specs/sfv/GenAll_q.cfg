INIT GInit
NEXT GNext
CONSTANTS
  GenLen = 1
  Extra = 0
  ExtraS = 0
  AllBytes = FALSE
  Len2 = 2
INVARIANTS Facts Emit
CHECK_DEADLOCK FALSE
