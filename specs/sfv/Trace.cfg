SPECIFICATION TSpec
CONSTRAINT Mark
POSTCONDITION AllConsumed
INVARIANT Agree
CHECK_DEADLOCK FALSE
