------------------------------- MODULE GenPS -------------------------------
(* C52 case generator.  One TLC state = one configuration (proxy settings + NO_PROXY  *)
(* list); the CASE item printed for it carries, for EVERY request of the request      *)
(* domain, the set of results the documented rules allow.  The driver spells the      *)
(* abstract values as real strings and compares the real ProxyFunc with that set.     *)
(* The sanity properties of ProxySelect are checked on every configuration.           *)
EXTENDS ProxySelect, TLC, Json, FiniteSets

CONSTANT Lvl            \* 1 = quick, 2 = thorough

VARIABLE c
gvars == <<c>>

\* ------------------------------------------------------------------ addresses
Z(n) == [i \in 1 .. n |-> 0]
V4(a, b, cc, d) == <<a, b, cc, d>>
\* 2001:0db8:XXYY::last   /   2001:0db9::last
Doc6(x, y, last) == <<32, 1, 13, 184, x, y>> \o Z(9) \o <<last>>
Doc9(last)       == <<32, 1, 13, 185>> \o Z(11) \o <<last>>
Map6(a, b, cc, d) == Z(10) \o <<255, 255, a, b, cc, d>>
Lo6 == Z(15) \o <<1>>

NameH(l, sp) == [k |-> "name", l |-> l, sp |-> sp, b |-> <<>>]
IpH(b)       == [k |-> "ip", l |-> <<>>, sp |-> "l", b |-> b]

HostsCore == {
    NameH(<<"example", "com">>, "l"),
    NameH(<<"www", "example", "com">>, "m"),
    NameH(<<"myexample", "com">>, "l"),
    NameH(<<"com">>, "l"),
    NameH(<<"example", "org">>, "m"),
    NameH(<<"localhost">>, "l"),
    NameH(<<"localhost">>, "m"),
    NameH(<<"www", "localhost">>, "l"),
    IpH(V4(127, 0, 0, 1)),
    IpH(Lo6),
    IpH(V4(10, 1, 2, 3)),
    IpH(V4(10, 127, 255, 255)),
    IpH(V4(10, 128, 0, 0)),
    IpH(V4(192, 168, 1, 7)),
    IpH(Doc6(0, 0, 1)),
    IpH(Doc6(128, 0, 1)),
    IpH(Map6(10, 1, 2, 3)) }

HostsMore == {
    NameH(<<"deep", "www", "example", "com">>, "l"),
    NameH(<<"example", "com">>, "m"),
    NameH(<<"xn--bcher-kva", "example", "com">>, "l"),
    NameH(<<"xn--bcher-kva", "example", "com">>, "m"),
    IpH(V4(127, 255, 0, 9)),
    IpH(V4(11, 0, 0, 0)),
    IpH(V4(192, 168, 2, 7)),
    IpH(Doc9(1)),
    IpH(Doc6(127, 255, 2)),
    IpH(Map6(127, 0, 0, 1)) }

HostsQuick == HostsCore \cup { NameH(<<"deep", "www", "example", "com">>, "l"),
                               NameH(<<"xn--bcher-kva", "example", "com">>, "l"),
                               NameH(<<"xn--bcher-kva", "example", "com">>, "m"),
                               IpH(Map6(127, 0, 0, 1)) }
Hosts == IF Lvl = 1 THEN HostsQuick ELSE HostsCore \cup HostsMore

Ports == {0, 80, 443, 8080}

Requests == [s : {"http", "https"}, h : Hosts, p : Ports]

\* ------------------------------------------------------------------ NO_PROXY entries
Star          == [k |-> "star", l |-> <<>>, lead |-> "", b |-> <<>>, bits |-> 0, port |-> 0]
IpE(b, port)  == [k |-> "ip", l |-> <<>>, lead |-> "", b |-> b, bits |-> 0, port |-> port]
NetE(b, bits) == [k |-> "cidr", l |-> <<>>, lead |-> "", b |-> b, bits |-> bits, port |-> 0]
DomE(l, lead, port) == [k |-> "dom", l |-> l, lead |-> lead, b |-> <<>>, bits |-> 0, port |-> port]

EntriesCore == {
    Star,
    IpE(V4(10, 1, 2, 3), 0),
    IpE(V4(10, 1, 2, 3), 8080),
    IpE(Doc6(0, 0, 1), 0),
    IpE(Doc6(0, 0, 1), 443),
    NetE(V4(10, 0, 0, 0), 8),
    NetE(V4(10, 0, 0, 0), 9),
    NetE(V4(10, 1, 2, 3), 16),                         \* host bits set, like the documented 1.2.3.4/8
    NetE(Doc6(0, 0, 0), 32),
    NetE(Doc6(0, 0, 0), 33),
    DomE(<<"example", "com">>, "", 0),
    DomE(<<"example", "com">>, "", 80),
    DomE(<<"example", "com">>, ".", 0),
    DomE(<<"example", "com">>, "*.", 0),
    DomE(<<"www", "example", "com">>, "", 0),
    DomE(<<"com">>, "", 443) }

EntriesMore == {
    IpE(V4(10, 1, 2, 3), 80),
    IpE(V4(192, 168, 1, 7), 0),
    IpE(Map6(10, 1, 2, 3), 0),
    NetE(V4(192, 168, 1, 0), 24),
    NetE(V4(10, 1, 2, 3), 32),
    NetE(V4(10, 1, 2, 2), 31),
    NetE(V4(0, 0, 0, 0), 0),
    NetE(Doc6(0, 0, 1), 128),
    NetE(Z(16), 0),
    DomE(<<"example", "com">>, ".", 443),
    DomE(<<"example", "com">>, "*.", 8080),
    DomE(<<"www", "example", "com">>, ".", 0),
    DomE(<<"org">>, ".", 0),
    DomE(<<"org">>, "", 0),
    DomE(<<"xn--bcher-kva", "example", "com">>, "", 0),
    DomE(<<"localhost">>, ".", 0),
    DomE(<<"myexample", "com">>, "", 0) }

Entries == EntriesCore \cup EntriesMore

\* ------------------------------------------------------------------ configurations
(* Configurations are built by a small state machine: start from one of the proxy       *)
(* settings with an empty NO_PROXY list, then append entries one by one.  Every          *)
(* reachable state is one configuration and prints its item.                             *)
Cfg(http, https, cgi, np) == [http |-> http, https |-> https, cgi |-> cgi, np |-> np]

\* proxy settings: "url" = a complete URL, "hostport" = the documented host[:port] short form
Px == { <<"url", "url", FALSE>>, <<"hostport", "", FALSE>>, <<"url", "url", TRUE>>,
        <<"", "url", TRUE>>, <<"hostport", "url", TRUE>>, <<"", "", FALSE>> }
IsMain(cfg) == cfg.http = "url" /\ cfg.https = "url" /\ ~cfg.cgi
IsCgi(cfg)  == cfg.http = "url" /\ cfg.https = "url" /\ cfg.cgi

Triple == { Star, IpE(V4(10, 1, 2, 3), 8080), NetE(V4(10, 0, 0, 0), 9), NetE(Doc6(0, 0, 0), 33),
            DomE(<<"example", "com">>, ".", 0), DomE(<<"example", "com">>, "", 80),
            DomE(<<"www", "example", "com">>, "", 0) }

\* quick tier: pairs over this subset only
EntriesPair == EntriesCore \ { IpE(Doc6(0, 0, 1), 0), NetE(V4(10, 0, 0, 0), 8), NetE(Doc6(0, 0, 0), 32),
                               DomE(<<"example", "com">>, "*.", 0), IpE(V4(10, 1, 2, 3), 0),
                               DomE(<<"www", "example", "com">>, "", 0) }

\* the entries that may be appended to configuration cfg
Next1(cfg) ==
    LET n == Len(cfg.np) IN
    IF n = 0 THEN Entries
    ELSE IF Lvl = 1
    THEN IF n = 1 /\ IsMain(cfg) /\ cfg.np[1] \in EntriesPair THEN EntriesPair \ {cfg.np[1]} ELSE {}
    ELSE IF n = 1 /\ (IsMain(cfg) \/ IsCgi(cfg)) THEN Entries
    ELSE IF n = 2 /\ IsMain(cfg) /\ cfg.np[1] \in Triple /\ cfg.np[2] \in Triple THEN Triple
    ELSE {}

PxQuick == Px \ { <<"", "url", TRUE>>, <<"hostport", "url", TRUE>> }
GInit == \E px \in (IF Lvl = 1 THEN PxQuick ELSE Px) : c = Cfg(px[1], px[2], px[3], <<>>)
GNext == \E e \in Next1(c) : c' = [c EXCEPT !.np = Append(c.np, e)]
GSpec == GInit /\ [][GNext]_gvars

\* ------------------------------------------------------------------ output
Schemes == {"http", "https"}
\* one item per (configuration, request host): the allowed results for both schemes and all ports
Item(cfg, h, A) == [cfg |-> cfg, h |-> h,
                       r   |-> [s \in Schemes |-> [p \in Ports |-> A[[s |-> s, h |-> h, p |-> p]]]]]

\* Monotone is checked against these candidate entries and requests (it is the costly one)
MonoSet  == IF Lvl = 1 THEN {NetE(V4(10, 0, 0, 0), 9), DomE(<<"example", "com">>, ".", 0)}
            ELSE {Star, NetE(V4(10, 0, 0, 0), 9), DomE(<<"example", "com">>, ".", 0),
                  IpE(Doc6(0, 0, 1), 443), NetE(Doc6(0, 0, 0), 33), DomE(<<"com">>, "", 443)}
MonoReqs == [s : {"http"}, h : Hosts, p : IF Lvl = 1 THEN {0} ELSE {0, 443}]

\* the single invariant: tabulate Allowed once per configuration, check the sanity properties of the
\* rule set on it and print the items
Check ==
    LET A == [r \in Requests |-> Allowed(c, r)]
    IN  /\ StarMeansNoProxy(c, Requests, A)
        /\ OrderIrrelevant(c, Requests, A)
        /\ LoopbackAlwaysExempt(c, Requests, A)
        /\ NoProxyDefined(c, Requests, A)
        /\ Monotone(c, MonoReqs, MonoSet)
        /\ \A h \in Hosts : PrintT(<<"CASE", ToJson(Item(c, h, A))>>)
=============================================================================
