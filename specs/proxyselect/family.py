# proxyselect family hooks: signatures that name the class of a C52 violation (request host
# kind, kinds of NO_PROXY entries, allowed vs observed result), so that a known finding never
# hides a different violation.  The verdict itself always comes from TLC (a replay mismatch
# against the set TLC computed, or a trace line TLC rejected); this file only classifies.


def _host_class(h):
    if h.get("k") == "ip":
        b = h.get("b", [])
        if len(b) == 4:
            return "ip4" + ("/loopback" if b[0] == 127 else "")
        mapped = b[:10] == [0] * 10 and b[10:12] == [255, 255]
        lo = b[:15] == [0] * 15 and b[15:] == [1]
        return "ip6" + ("/mapped" if mapped else "") + ("/loopback" if lo else "")
    l = h.get("l", [])
    c = "localhost" if l == ["localhost"] else "name"
    if any(x.startswith("xn--") for x in l):
        c += "/idn"
    if h.get("sp") == "m":
        c += "/mixed-case"
    return c


def _entry_class(e):
    k = e.get("k")
    if k == "dom":
        return "dom[%s]%s" % (e.get("lead", ""), ":port" if e.get("port") else "")
    if k == "ip":
        return "ip%d%s" % (4 if len(e.get("b", [])) == 4 else 6, ":port" if e.get("port") else "")
    if k == "cidr":
        return "cidr%d" % (4 if len(e.get("b", [])) == 4 else 6)
    return str(k)


def _sig(cfg, h, scheme, allowed, got):
    np = ",".join(sorted({_entry_class(e) for e in cfg.get("np", [])})) or "-"
    return "ps:%s;host=%s;np=%s;cgi=%s;allowed=%s;got=%s" % (
        scheme, _host_class(h), np, "T" if cfg.get("cgi") else "F", "".join(sorted(allowed)) or "?", got)


def signature(prop, kind, scenario, detail):
    try:
        if kind == "replay" and isinstance(scenario, dict):
            exp = detail.get("expected") or {}
            act = detail.get("actual") or {}
            return _sig(scenario["cfg"], scenario["h"], exp.get("scheme", "?"), exp.get("allowed", []), act.get("r", "?"))
        if kind == "trace":
            lines = scenario["lines"]
            cfg, last = lines[0], lines[-1]
            if last.get("e") == "req":
                return _sig(cfg, last["h"], last.get("s", "?"), ["rejected-by-TLC"], last.get("r", "?"))
    except Exception:
        return None
    return None
