SPECIFICATION GSpec
CONSTANT Lvl = 1
INVARIANT Check
CHECK_DEADLOCK FALSE
