SPECIFICATION GSpec
CONSTANT Lvl = 2
INVARIANT Check
CHECK_DEADLOCK FALSE
