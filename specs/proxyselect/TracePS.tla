------------------------------ MODULE TracePS ------------------------------
(* C52 trace validation.  One trace = one configuration and a batch of requests:      *)
(*   {"e":"cfg","http":id,"https":id,"cgi":b,"np":[entry..]}                           *)
(*   {"e":"req","s":scheme,"h":host,"p":port,"r":"H"|"S"|"N"|"E"|...}                   *)
(* with the abstract values of ProxySelect (the concrete spelling is logged next to    *)
(* them for the reader only).  A request line is accepted iff the logged result of the *)
(* real ProxyFunc is one of the results the documented rules allow; anything else      *)
(* (also "panic", "hang", a URL that is neither proxy) matches no step.                *)
EXTENDS ProxySelect, TraceIO

VARIABLES cfg, cur, l
tvars == <<cfg, cur, l>>
Line == Trace[l]

CfgOf(h) == [http |-> h.http, https |-> h.https, cgi |-> h.cgi, np |-> h.np]

TInit == \E t \in 1 .. NT :
            LET h == Trace[Meta.starts[t]] IN
            /\ h.e = "cfg"
            /\ cur = t /\ l = Meta.starts[t] + 1
            /\ cfg = CfgOf(h)

TReq == /\ Line.e = "req"
        /\ Line.r \in Allowed(cfg, [s |-> Line.s, h |-> Line.h, p |-> Line.p])
        /\ UNCHANGED cfg

TNext == /\ l <= Meta.ends[cur] /\ l' = l + 1 /\ cur' = cur /\ TReq
TSpec == TInit /\ [][TNext]_tvars
Mark == HighWater(cur, l)
=============================================================================
