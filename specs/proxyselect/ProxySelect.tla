----------------------------- MODULE ProxySelect -----------------------------
(* C52: which proxy golang.org/x/net/http/httpproxy selects for a request URL.      *)
(*                                                                                 *)
(* This is a transcription of the DOCUMENTED rules (doc comments of Config,         *)
(* Config.ProxyFunc, FromEnvironment in http/httpproxy/proxy.go, and the property   *)
(* text), not of the code:                                                          *)
(*   D1  HTTPSProxy is used for https requests, HTTPProxy for http requests         *)
(*       "unless overridden by NoProxy".                                            *)
(*   D2  With CGI set, "ProxyForURL will return an error when HTTPProxy applies".    *)
(*   D3  nil URL and nil error "if no proxy is defined in the environment, or a     *)
(*       proxy should not be used for the given request, as defined by NO_PROXY".   *)
(*   D4  "if reqURL.Host is "localhost" or a loopback address (with or without a    *)
(*       port number), then a nil URL and nil error will be returned".              *)
(*   D5  NoProxy is a comma-separated list; each value is an IP address, an IP      *)
(*       address prefix in CIDR notation, a domain name or "*"; an IP address and   *)
(*       a domain name can carry a literal port; "a domain name matches that name   *)
(*       and all subdomains", "a domain name with a leading "." matches subdomains  *)
(*       only" (the property adds the spelling "*." for the same thing); "*" alone   *)
(*       means no proxying at all.                                                  *)
(*                                                                                 *)
(* Values                                                                          *)
(*   host    [k |-> "name", l |-> labels, sp |-> "l" | "m", b |-> <<>>]              *)
(*           [k |-> "ip",   l |-> <<>>,   sp |-> "l",       b |-> bytes]             *)
(*           sp = "m": the name is spelled with upper-case letters                  *)
(*   request [s |-> "http" | "https", h |-> host, p |-> port (0 = none in the URL)]  *)
(*   entry   [k |-> "star" | "ip" | "cidr" | "dom", l, lead |-> "" | "." | "*.",    *)
(*            b, bits, port (0 = none)]                                             *)
(*   config  [http |-> "" | <proxy id>, https |-> "" | <proxy id>, cgi, np |-> Seq]  *)
(* Results: "H" = the HTTP_PROXY URL, "S" = the HTTPS_PROXY URL, "N" = (nil, nil),  *)
(* "E" = error.  Allowed(cfg, r) is the SET of results the documentation permits;   *)
(* it has more than one element exactly where the documentation is silent:          *)
(*   U1  D2 does not say whether HTTPProxy "applies" to a request that NO_PROXY or   *)
(*       D4 would exempt: with CGI such a request may get "N" or "E";               *)
(*   U2  D4 names the literal "localhost": other spellings (LocalHost) may or may    *)
(*       not be exempt;                                                            *)
(*   U3  IPv4-mapped IPv6 addresses (::ffff:a.b.c.d) may be read as IPv6 or as the   *)
(*       embedded IPv4 address, in requests and in entries.                         *)
(* Domain names are compared label-wise and case-insensitively (DNS), white space    *)
(* around list items is not significant, IDN labels are the same name in their U-    *)
(* and A-label spelling, and a URL without port has the scheme's default port: the  *)
(* driver spells values accordingly and the spec treats them as the same value.     *)
EXTENDS NetNames

Localhost(h) == h.k = "name" /\ h.l = <<"localhost">>

EffPort(r) == IF r.p # 0 THEN r.p ELSE IF r.s = "https" THEN 443 ELSE 80

PortOK(e, port) == e.port = 0 \/ e.port = port

Readings(ip) == IF Mapped(ip) THEN {ip, Unmap(ip)} ELSE {ip}       \* U3

\* entry e matches host h (given as one reading hb of its address, if it is an IP) on port
MatchesR(e, h, hb, eb, port) ==
    CASE e.k = "star" -> TRUE
      [] e.k = "ip"   -> h.k = "ip" /\ hb = eb /\ PortOK(e, port)
      [] e.k = "cidr" -> h.k = "ip" /\ InNet(hb, [b |-> eb, bits |-> e.bits])
      [] e.k = "dom"  -> /\ h.k = "name"
                         /\ \/ e.lead = "" /\ h.l = e.l              \* the name itself
                            \/ ProperSuffix(e.l, h.l)                \* a subdomain
                         /\ PortOK(e, port)
      [] OTHER        -> FALSE

EReadings(e) == IF e.k = "ip" THEN Readings(e.b) ELSE {e.b}
HReadings(h) == IF h.k = "ip" THEN Readings(h.b) ELSE {h.b}

Matches(e, h, port)      == \A hb \in HReadings(h), eb \in EReadings(e) : MatchesR(e, h, hb, eb, port)
MaybeMatches(e, h, port) == \E hb \in HReadings(h), eb \in EReadings(e) : MatchesR(e, h, hb, eb, port)

DefBypass(cfg, r) ==
    \/ Localhost(r.h) /\ r.h.sp = "l"                                                \* D4
    \/ r.h.k = "ip" /\ \A hb \in Readings(r.h.b) : Loopback(hb)                       \* D4
    \/ \E i \in 1 .. Len(cfg.np) : Matches(cfg.np[i], r.h, EffPort(r))                \* D5

MayBypass(cfg, r) ==
    \/ Localhost(r.h)                                                                \* U2
    \/ r.h.k = "ip" /\ \E hb \in Readings(r.h.b) : Loopback(hb)                       \* U3
    \/ \E i \in 1 .. Len(cfg.np) : MaybeMatches(cfg.np[i], r.h, EffPort(r))           \* U3

BypassSet(cfg, r) == IF DefBypass(cfg, r) THEN {TRUE}
                     ELSE IF MayBypass(cfg, r) THEN {TRUE, FALSE} ELSE {FALSE}

Defined(cfg, s) == IF s = "https" THEN cfg.https # "" ELSE cfg.http # ""
Tag(s)          == IF s = "https" THEN "S" ELSE "H"                                   \* D1

Allowed(cfg, r) ==
    IF ~Defined(cfg, r.s) THEN {"N"}                                                  \* D3
    ELSE LET cgi == cfg.cgi /\ r.s = "http"                                           \* D2
         IN  UNION { IF byp THEN (IF cgi THEN {"N", "E"} ELSE {"N"})                   \* D3, D4, U1
                            ELSE (IF cgi THEN {"E"} ELSE {Tag(r.s)}) : byp \in BypassSet(cfg, r) }

-----------------------------------------------------------------------------
(* Sanity properties of the rule set itself (checked by TLC on the whole domain).   *)
(* A is the function r |-> Allowed(cfg, r) on R, tabulated once by the caller.        *)

\* "*" anywhere in the list: no request is ever proxied
StarMeansNoProxy(cfg, R, A) ==
    (\E i \in 1 .. Len(cfg.np) : cfg.np[i].k = "star") =>
        \A r \in R : A[r] \subseteq {"N", "E"}

\* adding an entry never turns an exempt request into a proxied one
Monotone(cfg, R, E) ==
    \A e \in E, r \in R :
        LET cfg2 == [cfg EXCEPT !.np = Append(cfg.np, e)] IN
        /\ DefBypass(cfg, r) => DefBypass(cfg2, r)
        /\ (~MayBypass(cfg2, r)) => ~MayBypass(cfg, r)

\* the order of the list is irrelevant (reverse as the witness permutation)
Rev(s) == [i \in 1 .. Len(s) |-> s[Len(s) + 1 - i]]
OrderIrrelevant(cfg, R, A) ==
    Len(cfg.np) >= 2 => \A r \in R : A[r] = Allowed([cfg EXCEPT !.np = Rev(cfg.np)], r)

\* loopback addresses are exempt whatever the configuration says
LoopbackAlwaysExempt(cfg, R, A) ==
    \A r \in R : (r.h.k = "ip" /\ Loopback(r.h.b)) => A[r] \subseteq {"N", "E"}

\* without a proxy for the scheme the answer is always (nil, nil)
NoProxyDefined(cfg, R, A) ==
    \A r \in R : ~Defined(cfg, r.s) => A[r] = {"N"}
=============================================================================
