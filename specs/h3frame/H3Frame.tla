------------------------------ MODULE H3Frame ------------------------------
(* HTTP/3 stream framing as property C35 states it (RFC 9114 sections 4.1, 6.2.1, 7.1,      *)
(* 7.2.8, 9): the reader of one stream, fed by a peer that may send anything.                *)
(*                                                                                          *)
(* The peer's input is a sequence of frames [ty, decl, pres, sh]:                            *)
(*   ty    "D" DATA, "H" HEADERS, "U" an unknown (grease) type, "S" SETTINGS, "K" another    *)
(*         type the endpoint knows (CANCEL_PUSH, GOAWAY, MAX_PUSH_ID, PUSH_PROMISE)          *)
(*   decl  declared payload length, pres payload octets really sent (D, U)                   *)
(*   sh    shape of a structured payload (H: a QPACK field section, S: setting pairs):       *)
(*         "fit"   the content ends exactly at the declared length                           *)
(*         "over"  parsing the content runs over the declared length (over-read)             *)
(*         "trunc" well formed, but the stream ends before the declared length               *)
(* pres < decl and "trunc" are possible for the last frame only (otherwise the following     *)
(* octets would simply be payload).  tail = "type": after the last frame the peer sent the   *)
(* type of one more frame and nothing else (a truncated frame header).  The peer first       *)
(* sends everything without FIN (the reader runs until it blocks or ends: observation        *)
(* "pre"), then FIN (observation "post").  Frames are fed lazily, when the reader asks for   *)
(* the next frame header, so inputs stop where the property stops speaking.                  *)
(*                                                                                          *)
(* Stream kinds: "req" a request stream read by a server, "resp" the response on a request   *)
(* stream read by a client, "ctl" a control stream, "uni" a unidirectional stream of unknown *)
(* type (everything on it is discarded).                                                     *)
(*                                                                                          *)
(* Reader machine: lim = -1 between frames, otherwise the declared octets of the current     *)
(* DATA frame not read yet; avail = octets of it the peer has sent and the reader has not     *)
(* read.  Actions ReadHeader (which includes Discard of an unknown frame and the parse of a  *)
(* structured frame), ReadBytes(n), Starve, EndFrame, AtEnd.  Outcome st:                    *)
(*   "run"      reading                                                                      *)
(*   "blocked"  needs octets the peer has not sent (only before FIN)                         *)
(*   "eof"      the message body (or the stream) ended cleanly                               *)
(*   "err"      a failure whose code must be in `codes`                                      *)
(*   "any"      C35 says nothing about the continuation (a frame type that is known but not  *)
(*              allowed here, a stream that ends before its HEADERS, frames after the        *)
(*              trailers, a truncated frame header, a closed control stream): the reader may *)
(*              end, fail or block, but must not panic and still delivers DATA octets only.  *)
(* body: the octets handed to the request/response body; octet j (from 0) of the k-th frame  *)
(* of the input is written 16 * k + j (the driver fills DATA payloads that way and every     *)
(* other payload differently), so "only octets inside DATA frames, in order" is              *)
(* IsPrefix(body, DataOctets).                                                               *)
EXTENDS Integers, Sequences, FiniteSets, TLC, Json

CONSTANTS Kinds,        \* subset of {"req", "resp", "ctl", "uni"}
          MaxFrames,    \* frames per input
          MaxLen,       \* largest declared length of D / U frames
          BufMax        \* largest single read of the body consumer

FrameErr       == 262   \* 0x0106 H3_FRAME_ERROR
ClosedCritical == 260   \* 0x0104 H3_CLOSED_CRITICAL_STREAM
QpackFailed    == 512   \* 0x0200 QPACK_DECOMPRESSION_FAILED

VARIABLES kind, frames, tail, ended,   \* the input so far; ended: the peer sends no further frame
          pend,                        \* the last frame fed has not been looked at yet
          fin,                         \* FIN sent
          lim, avail,                  \* reader: the current DATA frame
          got,                         \* req/resp: the leading HEADERS has been read; ctl: SETTINGS has been read
          trl,                         \* req/resp: the trailers have been read
          body, st, codes,
          pre                          \* observation before FIN (a record) or <<>>

vars == <<kind, frames, tail, ended, pend, fin, lim, avail, got, trl, body, st, codes, pre>>

Msg == kind \in {"req", "resp"}

Init ==
    /\ kind \in Kinds
    /\ frames = <<>> /\ tail = "none" /\ ended = FALSE /\ pend = FALSE /\ fin = FALSE
    /\ lim = 0 - 1 /\ avail = 0 /\ got = FALSE /\ trl = FALSE
    /\ body = <<>> /\ st = "run" /\ codes = {}
    /\ pre = <<>>

(* ---- the peer --------------------------------------------------------------------------- *)
FrameSet ==
    {[ty |-> ty, decl |-> d, pres |-> p, sh |-> "fit"] : ty \in {"D", "U"}, d \in 0..MaxLen, p \in 0..MaxLen} \cup
    {[ty |-> ty, decl |-> 0, pres |-> 0, sh |-> s] : ty \in {"H", "S"}, s \in {"fit", "over", "trunc"}} \cup
    {[ty |-> "K", decl |-> 0, pres |-> 0, sh |-> "fit"]}
Truncated(f) == f.pres < f.decl \/ f.sh = "trunc"

\* the reader stands between frames and wants a frame header: the peer decides what comes next
AtBoundary == st = "run" /\ lim = 0 - 1 /\ ~ended /\ ~pend

Feed(f) ==
    /\ AtBoundary /\ Len(frames) < (IF kind = "uni" THEN 1 ELSE IF kind = "ctl" THEN MaxFrames - 1 ELSE MaxFrames)
    /\ f.pres <= f.decl
    /\ frames' = Append(frames, f)
    /\ pend' = TRUE
    /\ ended' = Truncated(f)                 \* a truncated frame is necessarily the last thing sent
    /\ UNCHANGED <<kind, tail, fin, lim, avail, got, trl, body, st, codes, pre>>

End(tl) ==
    /\ AtBoundary
    /\ ended' = TRUE /\ tail' = tl
    /\ UNCHANGED <<kind, frames, pend, fin, lim, avail, got, trl, body, st, codes, pre>>

(* ---- the reader ------------------------------------------------------------------------- *)
Cur == frames[Len(frames)]                   \* frames are fed one at a time

\* what a truncated or over-read frame must end in (C35: "an H3_FRAME_ERROR-class failure").  On a
\* control stream a FIN inside a frame is at the same time the closing of a critical stream.
FrameFailure   == IF kind = "ctl" THEN {FrameErr, ClosedCritical} ELSE {FrameErr}
SectionFailure == FrameFailure \cup {QpackFailed}      \* inside a QPACK field section either code names it

Has(r, k) == k \in DOMAIN r

\* verdict on the frame just fed: "run" go on (skipped / consumed), "data" enter a DATA payload,
\* "trunc" the octets run out inside it, "err" over-read, "any" outside C35
HeaderMsg(f) ==
    IF trl THEN [v |-> "any"]                                  \* frames after the trailers: the message is over
    ELSE CASE f.ty = "U" -> IF f.pres = f.decl THEN [v |-> "run"]             \* 7.2.8, 9: skipped
                            ELSE [v |-> "trunc", codes |-> FrameFailure]
           [] f.ty = "H" -> IF f.sh = "over" THEN [v |-> "err", codes |-> SectionFailure]
                            ELSE IF f.sh = "trunc" THEN [v |-> "trunc", codes |-> SectionFailure]
                            ELSE IF ~got THEN [v |-> "run", got |-> TRUE]
                            ELSE [v |-> "run", trl |-> TRUE]
           [] f.ty = "D" -> IF ~got THEN [v |-> "any"] ELSE [v |-> "data"]
           [] OTHER      -> [v |-> "any"]                                      \* known, not allowed here

HeaderCtl(f) ==
    IF ~got THEN                                                               \* 6.2.1: SETTINGS first
        IF f.ty # "S" THEN [v |-> "any"]
        ELSE IF f.sh = "over" THEN [v |-> "err", codes |-> FrameFailure]
        ELSE IF f.sh = "trunc" THEN [v |-> "trunc", codes |-> FrameFailure]
        ELSE [v |-> "run", got |-> TRUE]
    ELSE IF f.ty = "U" THEN
        IF f.pres = f.decl THEN [v |-> "run"] ELSE [v |-> "trunc", codes |-> FrameFailure]
    ELSE [v |-> "any"]                                  \* DATA, HEADERS, a second SETTINGS, GOAWAY, ...

ReadHeader ==
    /\ st = "run" /\ lim = 0 - 1 /\ pend
    /\ LET f == Cur
           r == IF kind = "uni" THEN [v |-> "run"]
                ELSE IF kind = "ctl" THEN HeaderCtl(f) ELSE HeaderMsg(f)
       IN  /\ pend' = FALSE
           /\ got' = (got \/ Has(r, "got"))
           /\ trl' = (trl \/ Has(r, "trl"))
           /\ CASE r.v = "data"  -> lim' = f.decl /\ avail' = f.pres /\ UNCHANGED <<st, codes>>
                [] r.v = "trunc" -> st' = "blocked" /\ codes' = r.codes /\ UNCHANGED <<lim, avail>>
                [] r.v = "err"   -> st' = "err" /\ codes' = r.codes /\ UNCHANGED <<lim, avail>>
                [] r.v = "any"   -> st' = "any" /\ codes' = {} /\ UNCHANGED <<lim, avail>>
                [] OTHER         -> UNCHANGED <<st, codes, lim, avail>>
    /\ UNCHANGED <<kind, frames, tail, ended, fin, body, pre>>

ReadBytes(n) ==
    /\ st = "run" /\ lim > 0 /\ n >= 1 /\ avail >= n
    /\ LET k == Len(frames)
           o == Cur.decl - lim
       IN  body' = body \o [j \in 1..n |-> 16 * k + o + j - 1]
    /\ lim' = lim - n /\ avail' = avail - n
    /\ UNCHANGED <<kind, frames, tail, ended, pend, fin, got, trl, st, codes, pre>>

\* inside a DATA frame with nothing left to read: the frame is truncated
Starve ==
    /\ st = "run" /\ lim > 0 /\ avail = 0
    /\ st' = "blocked" /\ codes' = FrameFailure
    /\ UNCHANGED <<kind, frames, tail, ended, pend, fin, lim, avail, got, trl, body, pre>>

EndFrame ==
    /\ st = "run" /\ lim = 0
    /\ lim' = 0 - 1
    /\ UNCHANGED <<kind, frames, tail, ended, pend, fin, avail, got, trl, body, st, codes, pre>>

\* between frames with the input exhausted
AtEnd ==
    /\ st = "run" /\ lim = 0 - 1 /\ ~pend /\ ended
    /\ codes' = {}
    /\ st' = IF ~fin THEN "blocked"
             ELSE IF kind = "uni" THEN "eof"
             ELSE IF kind = "ctl" \/ tail = "type" \/ ~got THEN "any"
             ELSE "eof"
    /\ UNCHANGED <<kind, frames, tail, ended, pend, fin, lim, avail, got, trl, body, pre>>

Terminal == st \in {"eof", "err", "any"}

\* the peer sends FIN once the reader has come to rest
Fin ==
    /\ ~fin /\ (st = "blocked" \/ Terminal)
    /\ fin' = TRUE
    /\ pre' = [body |-> body, st |-> st, codes |-> IF st = "err" THEN codes ELSE {},
               \* trailers read, or a stream whose content is ignored: a reader may as well report the
               \* end at once instead of waiting for FIN
               alt |-> (st = "blocked" /\ codes = {} /\ ((trl /\ Msg) \/ kind = "uni"))]
    /\ st' = IF st = "blocked" THEN (IF codes # {} THEN "err" ELSE "run") ELSE st
    /\ UNCHANGED <<kind, frames, tail, ended, pend, lim, avail, got, trl, body, codes>>

Next ==
    \/ \E f \in FrameSet : Feed(f)
    \/ \E tl \in {"none", "type"} : End(tl)
    \/ ReadHeader
    \/ \E n \in 1..BufMax : ReadBytes(n)
    \/ Starve
    \/ EndFrame
    \/ AtEnd
    \/ Fin

Spec == Init /\ [][Next]_vars

(* ---- what C35 states, as invariants of the machine ------------------------------------- *)
RECURSIVE DataFrom(_)
DataFrom(k) ==       \* the DATA octets the peer has sent, in order
    IF k > Len(frames) THEN <<>>
    ELSE (IF frames[k].ty = "D" THEN [j \in 1..frames[k].pres |-> 16 * k + j - 1] ELSE <<>>) \o DataFrom(k + 1)
DataOctets == DataFrom(1)

IsPrefix(s, t) == Len(s) <= Len(t) /\ SubSeq(t, 1, Len(s)) = s

\* never hands octets that are not inside a DATA frame to a body, and keeps their order
BodyOnlyData == IsPrefix(body, DataOctets) /\ (~Msg => body = <<>>)

\* a clean end means every DATA octet sent has been delivered
CleanEndComplete == (st = "eof" /\ Msg) => body = DataOctets

\* a frame whose payload is truncated or over-read never ends cleanly
Damaged == Len(frames) > 0 /\ (Truncated(Cur) \/ Cur.sh = "over")
DamagedFails == (fin /\ Terminal /\ Damaged /\ kind # "uni") => st \in {"err", "any"}
DamagedCode  == (fin /\ st = "err") => (Damaged /\ FrameErr \in codes)

\* unknown frames are skipped: a message made of well-formed HEADERS, DATA and unknown frames, which is
\* HEADERS DATA* [HEADERS] once the unknown frames are taken out, ends cleanly
Known == SelectSeq(frames, LAMBDA f : f.ty # "U")
OnlyGood == /\ Msg /\ tail = "none"
            /\ \A k \in 1..Len(frames) : frames[k].ty \in {"H", "D", "U"} /\ ~Truncated(frames[k]) /\ frames[k].sh = "fit"
            /\ Len(Known) >= 1 /\ Known[1].ty = "H"
            /\ \A k \in 2..(Len(Known) - 1) : Known[k].ty = "D"
            /\ \A k \in 2..Len(frames) :                       \* nothing behind the trailers
                   (frames[k].ty = "H" /\ \E h \in 1..(k - 1) : frames[h].ty = "H") => k = Len(frames)
SkipsUnknown == (fin /\ Terminal /\ OnlyGood) => st = "eof"

TypeOK ==
    /\ st \in {"run", "blocked", "eof", "err", "any"}
    /\ lim >= 0 - 1 /\ avail >= 0 /\ avail <= MaxLen /\ Len(frames) <= MaxFrames

(* ---- generator: one CASE per input, printed when the reader has come to rest after FIN -- *)
Emit ==
    (fin /\ Terminal) =>
        PrintT(<<"CASE", ToJson([kind |-> kind, frames |-> frames, tail |-> tail, data |-> DataOctets,
                                  pre  |-> pre,
                                  post |-> [body |-> body, st |-> st, codes |-> codes]])>>)
=============================================================================
