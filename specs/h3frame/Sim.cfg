SPECIFICATION Spec
CONSTANTS
  Kinds = {"req", "resp", "ctl"}
  MaxFrames = 7
  MaxLen = 14
  BufMax = 5
INVARIANTS TypeOK BodyOnlyData CleanEndComplete DamagedFails DamagedCode SkipsUnknown Emit
CHECK_DEADLOCK FALSE
