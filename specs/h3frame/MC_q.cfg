SPECIFICATION Spec
CONSTANTS
  Kinds = {"req", "resp", "ctl", "uni"}
  MaxFrames = 4
  MaxLen = 2
  BufMax = 2
INVARIANTS TypeOK BodyOnlyData CleanEndComplete DamagedFails DamagedCode SkipsUnknown Emit
CHECK_DEADLOCK FALSE
