# Family hooks for h3frame (C35): finding signatures.
#
# A replay mismatch is named by the class of disagreement the driver reports (phase, what was
# expected / observed) and by the features of the abstract frame sequence that matter for it,
# never by concrete octets, so that one defect is one signature and a different defect of the
# same property still shows up as new.


def _features(scn):
    fr = scn.get("frames") or []
    first_h = next((i for i, f in enumerate(fr) if f.get("ty") == "H"), None)
    feats = []
    if any(f.get("ty") == "U" for f in (fr if first_h is None else fr[:first_h])):
        feats.append("unknown-before-headers")
    for i, f in enumerate(fr):
        if f.get("sh") in ("over", "trunc") or f.get("pres", 0) < f.get("decl", 0):
            where = ""
            if f.get("ty") == "H":
                where = "initial-" if i == first_h else "trailers-"
            shape = f.get("sh") if f.get("sh") != "fit" else "trunc"
            feats.append("%s%s-%s" % (where, f.get("ty"), shape))
    if scn.get("tail") == "type":
        feats.append("tail-type")
    return feats


def signature(prop, kind, scenario, detail):
    if kind != "replay" or not isinstance(scenario, dict) or "frames" not in scenario:
        return None
    what = (detail or {}).get("what", "")
    feats = _features(scenario)
    k = scenario.get("kind")
    # one defect, one signature: the phase (before / after FIN) and whatever else the input contains
    # do not matter for these two classes
    if what.endswith(":panic"):
        over = [f for f in feats if f.endswith("-over")]
        return "%s;panic;%s" % (k, ",".join(over) or ",".join(feats) or "well-formed")
    if "unknown-before-headers" in feats and what.endswith("act=err:270"):
        return "%s;unknown-before-headers;act=err:270" % k
    return "%s;%s;%s" % (k, what, ",".join(feats) or "well-formed")
