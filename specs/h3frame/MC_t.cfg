SPECIFICATION Spec
CONSTANTS
  Kinds = {"req", "resp", "ctl", "uni"}
  MaxFrames = 5
  MaxLen = 3
  BufMax = 3
INVARIANTS TypeOK BodyOnlyData CleanEndComplete DamagedFails DamagedCode SkipsUnknown Emit
CHECK_DEADLOCK FALSE
