SPECIFICATION Spec
CONSTANTS
  Sizes = {0, 1, 513, 16384, 32769, 1200000}
  Single = {63, 64, 16383, 16385}
  MaxChunks = 2
  Deltas = {0, 1, 2}
  Nets = {"perfect", "drop3", "dup", "reorder", "mix", "drop2"}
INVARIANTS Prefix NoSilent Faithful InAllowed Emit
CHECK_DEADLOCK FALSE
