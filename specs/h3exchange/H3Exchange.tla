---------------------------- MODULE H3Exchange ----------------------------
(* C34: one HTTP/3 request/response exchange, as a transfer abstraction.                     *)
(*                                                                                          *)
(* Each direction d (req: client application -> handler, resp: handler -> client            *)
(* application) carries a header list, a body the sending application writes in chunks, an   *)
(* optional declared Content-Length cl (-1: none) and optional trailers.  The QUIC stream     *)
(* below is a reliable ordered octet pipe (that it stays one over a network that loses,       *)
(* duplicates and reorders datagrams is what C19/C32 establish for package quic; here it is   *)
(* exercised, not modelled).  Body units are their own offsets, so order, loss, duplication   *)
(* and extension are visible as numbers.                                                     *)
(*                                                                                          *)
(* The writer side is deliberately nondeterministic where C34 does not fix a policy: a chunk  *)
(* that overflows the declared length may be refused (stream reset), trimmed to the declared  *)
(* length with an error to the writing application, or passed on; a body that ends short may  *)
(* be reset or finished.  The reader side is the Content-Length accounting C34 demands.       *)
(*                                                                                          *)
(* Checked for every parameter choice and every writer policy:                               *)
(*   Prefix       what the reading application got is a prefix of what was written            *)
(*   NoSilent     a clean end with a declared length has exactly that many units, and either  *)
(*                everything written or a writer that was told about the mismatch             *)
(*   Faithful     without a mismatch the reader ends cleanly with every unit and the trailers  *)
(*   InAllowed    the reader's outcome is in Allowed(par) -- the set the driver compares the   *)
(*                real client/server against                                                  *)
EXTENDS Integers, Sequences, FiniteSets, TLC, Json

CONSTANTS Sizes,        \* chunk sizes
          Single,       \* further sizes, used only for bodies written as one chunk (one DATA frame of
                        \* exactly that length: both sides of the frame-length varint class boundaries)
          MaxChunks,    \* chunks per body
          Deltas,       \* declared lengths total + dl - 1 for dl in Deltas (1: correct), besides "none"
          Nets          \* network fault scripts (opaque to the model: every description is printed once per script)

None == 0 - 1

VARIABLES par,          \* [req |-> dirpar, resp |-> dirpar]; dirpar = [chunks, cl, tl]
          d,            \* "req" | "resp" | "done": the direction being transferred
          ci,           \* chunks handed to the writer so far
          wremain,      \* writer's remaining declared length (None: not declared)
          werr,         \* the writing application has been told about a mismatch
          wire,         \* frames in flight: <<"D", n>> | <<"T">> | <<"FIN">> | <<"RST">>
          wsent,        \* units put on the wire
          rremain,      \* reader's remaining declared length
          got,          \* units delivered to the reading application
          trl,          \* trailers delivered
          rend,         \* "" | "complete" | "err"
          out           \* [req |-> outcome] once a direction has finished

vars == <<par, d, ci, wremain, werr, wire, wsent, rremain, got, trl, rend, out>>

RECURSIVE Sum(_)
Sum(s) == IF s = <<>> THEN 0 ELSE Head(s) + Sum(Tail(s))

ChunkLists == UNION {[1..k -> Sizes] : k \in 0..MaxChunks} \cup {<<s>> : s \in Single}
\* declared length = total + dl - 1 for dl in Deltas (cfg files cannot hold negative numbers):
\* 0 declares one unit less than the body, 1 the right length, 2 one unit more
ClsFor(c) == {None} \cup {x \in {Sum(c) + dl - 1 : dl \in Deltas} : x >= 0}
DirPars == UNION { {[chunks |-> c, cl |-> l, tl |-> t] : l \in ClsFor(c), t \in BOOLEAN} : c \in ChunkLists }

Total(p) == Sum(p.chunks)
\* net/http cannot express "Content-Length: 0" for a request that has a body
ReqPars == {p \in DirPars : p.cl = 0 => Sum(p.chunks) = 0}
Mismatch(p) == p.cl # None /\ p.cl # Total(p)

(* the reader outcomes C34 allows for one direction *)
Complete(n, t, we) == [r |-> "complete", n |-> n, tl |-> t, werr |-> we]
Failed             == [r |-> "err", n |-> 0, tl |-> FALSE, werr |-> FALSE]
Allowed(p) ==
    IF ~Mismatch(p) THEN {Complete(Total(p), p.tl, FALSE)}
    ELSE IF Total(p) > p.cl THEN {Failed, Complete(p.cl, p.tl, TRUE), Complete(p.cl, FALSE, TRUE)}
    ELSE {Failed}

Start(dir, p) ==
    /\ d' = dir /\ ci' = 0 /\ wremain' = p.cl /\ werr' = FALSE /\ wire' = <<>> /\ wsent' = 0
    /\ rremain' = p.cl /\ got' = 0 /\ trl' = FALSE /\ rend' = ""

Init ==
    /\ par \in {[req |-> q, resp |-> r] : q \in ReqPars, r \in DirPars}
    /\ (Mismatch(par.req) => par.resp = [chunks |-> <<>>, cl |-> None, tl |-> FALSE])   \* not judged anyway
    /\ d = "req" /\ ci = 0 /\ wremain = par.req.cl /\ werr = FALSE /\ wire = <<>> /\ wsent = 0
    /\ rremain = par.req.cl /\ got = 0 /\ trl = FALSE /\ rend = ""
    /\ out = <<>>

P == par[d]
Closed == wire # <<>> /\ wire[Len(wire)][1] \in {"FIN", "RST"}

(* ---- writer ---- *)
WriteChunk ==
    /\ d \in {"req", "resp"} /\ ~Closed /\ ci < Len(P.chunks)
    /\ LET n == P.chunks[ci + 1] IN
       /\ ci' = ci + 1
       /\ IF werr THEN UNCHANGED <<wremain, werr, wire, wsent>>              \* writes after the error go nowhere
          ELSE IF wremain = None \/ n <= wremain THEN
               /\ wire' = IF n = 0 THEN wire ELSE Append(wire, <<"D", n>>)
               /\ wsent' = wsent + n
               /\ wremain' = IF wremain = None THEN None ELSE wremain - n
               /\ UNCHANGED werr
          ELSE \/ /\ wire' = Append(wire, <<"RST">>) /\ werr' = TRUE       \* refuse, reset the stream
                  /\ UNCHANGED <<wremain, wsent>>
               \/ /\ wire' = IF wremain = 0 THEN wire ELSE Append(wire, <<"D", wremain>>)   \* trim
                  /\ wsent' = wsent + wremain /\ wremain' = 0 /\ werr' = TRUE
               \/ /\ wire' = Append(wire, <<"D", n>>) /\ wsent' = wsent + n  \* pass it on
                  /\ wremain' = 0 /\ UNCHANGED werr
    /\ UNCHANGED <<par, d, rremain, got, trl, rend, out>>

WriteEnd ==
    /\ d \in {"req", "resp"} /\ ~Closed /\ ci = Len(P.chunks)
    /\ IF wremain # None /\ wremain > 0 /\ ~werr
       THEN \/ wire' = Append(wire, <<"RST">>) /\ werr' = TRUE             \* short body: reset ...
            \/ wire' = Append(wire, <<"FIN">>) /\ UNCHANGED werr           \* ... or just finish
       ELSE /\ \/ wire' = (IF P.tl THEN Append(wire, <<"T">>) ELSE wire) \o <<<<"FIN">>>>
               \/ werr /\ wire' = Append(wire, <<"FIN">>)                  \* a failed writer may omit its trailers
            /\ UNCHANGED werr
    /\ UNCHANGED <<par, d, ci, wremain, wsent, rremain, got, trl, rend, out>>

(* ---- reader: the Content-Length accounting ---- *)
Read ==
    /\ d \in {"req", "resp"} /\ rend = "" /\ wire # <<>>
    /\ LET f == Head(wire) IN
       /\ wire' = Tail(wire)
       /\ CASE f[1] = "D" ->
                 IF rremain # None /\ f[2] > rremain
                 THEN rend' = "err" /\ UNCHANGED <<got, rremain, trl>>      \* longer than declared
                 ELSE /\ got' = got + f[2]
                      /\ rremain' = IF rremain = None THEN None ELSE rremain - f[2]
                      /\ UNCHANGED <<rend, trl>>
            [] f[1] = "T" ->
                 IF rremain # None /\ rremain > 0
                 THEN rend' = "err" /\ UNCHANGED <<got, rremain, trl>>      \* shorter than declared
                 ELSE trl' = TRUE /\ UNCHANGED <<got, rremain, rend>>
            [] f[1] = "FIN" ->
                 /\ rend' = IF rremain # None /\ rremain > 0 THEN "err" ELSE "complete"
                 /\ UNCHANGED <<got, rremain, trl>>
            [] OTHER -> rend' = "err" /\ UNCHANGED <<got, rremain, trl>>    \* reset
    /\ UNCHANGED <<par, d, ci, wremain, werr, wsent, out>>

Outcome == IF rend = "complete" THEN Complete(got, trl, werr) ELSE Failed

NextDir ==
    /\ d \in {"req", "resp"} /\ rend # ""
    /\ out' = Append(out, Outcome)
    /\ IF d = "req" /\ rend = "complete"
       THEN Start("resp", par.resp)
       ELSE /\ d' = "done"
            /\ UNCHANGED <<ci, wremain, werr, wire, wsent, rremain, got, trl, rend>>
    /\ UNCHANGED par

Next == WriteChunk \/ WriteEnd \/ Read \/ NextDir
Spec == Init /\ [][Next]_vars

(* ---- C34 ---- *)
Live == d \in {"req", "resp"}
Prefix    == Live => (got <= wsent /\ wsent <= Total(P))
NoSilent  == (Live /\ rend = "complete") =>
                 /\ (P.cl = None \/ got = P.cl)
                 /\ (got = Total(P) \/ werr)
Faithful  == (Live /\ rend # "" /\ ~Mismatch(P)) => (rend = "complete" /\ got = Total(P) /\ trl = P.tl)
InAllowed == (Live /\ rend # "") => Outcome \in Allowed(P)

(* ---- generator: one CASE per parameter choice, printed in the initial state ---- *)
DirJson(p) == [chunks |-> p.chunks, cl |-> p.cl, tl |-> p.tl, allow |-> Allowed(p)]
Emit == (d = "req" /\ ci = 0 /\ wire = <<>> /\ rend = "" /\ out = <<>>) =>
            \A n \in Nets :
               PrintT(<<"CASE", ToJson([req |-> DirJson(par.req), resp |-> DirJson(par.resp), net |-> n])>>)
=============================================================================
