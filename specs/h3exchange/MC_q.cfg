SPECIFICATION Spec
CONSTANTS
  Sizes = {1, 600, 40000}
  MaxChunks = 2
  Deltas = {0, 1, 2}
  Nets = {"perfect", "mix"}
INVARIANTS Prefix NoSilent Faithful InAllowed Emit
CHECK_DEADLOCK FALSE
