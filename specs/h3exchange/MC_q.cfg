SPECIFICATION Spec
CONSTANTS
  Sizes = {1, 40000}
  Single = {63, 64, 600, 16383, 16384, 16385}
  MaxChunks = 2
  Deltas = {0, 1, 2}
  Nets = {"perfect", "mix"}
INVARIANTS Prefix NoSilent Faithful InAllowed Emit
CHECK_DEADLOCK FALSE
