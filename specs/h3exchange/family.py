# Family hooks for h3exchange (C34): finding signatures = direction + class of disagreement
# (relation of declared length and body, trailers, what the reader got), never concrete sizes.


def signature(prop, kind, scenario, detail):
    if kind != "replay" or not isinstance(scenario, dict):
        return None
    what = (detail or {}).get("what", "")
    return "%s;net=%s" % (what, "perfect" if scenario.get("net") == "perfect" else "faulty")
