# Signature of a violation = the class of the failing scenario (not a hash of its values), so
# that one defect is reported once and a different failure of the same property still shows.
import re


def signature(prop, kind, scenario, detail):
    what = (detail or {}).get("what", "")
    if kind == "replay":
        k = scenario.get("k", "?") if isinstance(scenario, dict) else "?"
        return "replay;case=%s;%s" % (k, what)
    if kind == "trace":
        m = re.search(r'"e": "(\w+)"', what)
        ev = m.group(1) if m else "?"
        inv = re.match(r"invariant (\w+)", what)
        lvl = ""
        if isinstance(scenario, dict) and scenario.get("lines"):
            lvl = scenario["lines"][0].get("level", "")
        return "trace;%s%s;event=%s" % ((lvl + ";") if lvl else "", ("inv=" + inv.group(1)) if inv else "unmatched", ev)
    return None
