SPECIFICATION Spec
CONSTANTS
  WD = 256
  ND = 8
  TopLim = 64
  Offs = 2
INVARIANT Inv
CHECK_DEADLOCK FALSE
