SPECIFICATION TSpec
CONSTANTS
  WD = 256
  ND = 8
  TopLim = 64
CONSTRAINT Mark
POSTCONDITION AllConsumed
CHECK_DEADLOCK FALSE
