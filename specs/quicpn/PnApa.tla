------------------------------- MODULE PnApa -------------------------------
(* The real instance of PacketNumber for Apalache: bytes of 8 bits, 62-bit space.  *)
(* `apalache-mc check --length=0 --init=Init --inv=AllThms` decides the theorems   *)
(* for all a, l, p in [-1, 2^62) and n in 1..4 symbolically.                       *)
EXTENDS Integers
VARIABLES
    \* @type: Int;
    a,
    \* @type: Int;
    l,
    \* @type: Int;
    p,
    \* @type: Int;
    n
INSTANCE PacketNumber WITH W <- 256, Space <- 4611686018427387904
=============================================================================
