------------------------------ MODULE PnCases ------------------------------
(* Case generator for C23 on real 62-bit numbers (8 digits of base 256): packet     *)
(* numbers around interesting bases (0, byte/carry boundaries, 2^31, 2^32, the top  *)
(* of the space), window edges +-1 for every length.  Each state is one case; the   *)
(* invariant checks the property-level lemmas on it and prints the case with the    *)
(* outputs PnDigits predicts.  Only cases inside C23's quantifier are generated:    *)
(* numbers in the receiver's window, senders with pn - A < 2^31.                    *)
EXTENDS PnDigits, TLC, Json

CONSTANT Offs        \* offsets applied to the bases (0: the bases themselves, 2: -2..2)

VARIABLE c

Bases == {
    <<0, 0, 0, 0, 0, 0, 0, 0>>,          <<0, 0, 0, 0, 0, 0, 0, 130>>,
    <<0, 0, 0, 0, 0, 0, 255, 254>>,      <<0, 0, 0, 0, 0, 1, 0, 127>>,
    <<0, 0, 0, 0, 0, 255, 255, 255>>,    <<0, 0, 0, 0, 0, 128, 0, 0>>,
    <<0, 0, 0, 0, 127, 255, 255, 255>>,  <<0, 0, 0, 0, 128, 0, 0, 1>>,
    <<0, 0, 0, 0, 255, 255, 255, 255>>,  <<0, 0, 0, 1, 0, 0, 0, 0>>,
    <<0, 0, 0, 1, 127, 255, 255, 255>>,  <<0, 0, 0, 255, 255, 255, 255, 255>>,
    <<18, 52, 86, 120, 154, 188, 222, 240>>, <<42, 255, 255, 255, 128, 0, 0, 0>>,
    <<63, 255, 255, 254, 255, 255, 255, 255>>, <<63, 255, 255, 255, 0, 0, 0, 0>>,
    <<63, 255, 255, 255, 127, 255, 255, 255>>, <<63, 255, 255, 255, 128, 0, 0, 0>>,
    <<63, 255, 255, 255, 255, 255, 255, 0>>, <<63, 255, 255, 255, 255, 255, 255, 255>>,
    <<64, 0, 0, 0, 0, 0, 0, 0>> }

ZeroSeq == <<0, 0, 0, 0, 0, 0, 0, 0>>
SmallD(k) == <<0, 0, 0, 0, 0, 0, 0, k>>
\* base + off for off in -2..2, when it stays inside [0, Space]
Shift(b, off) ==
    IF off >= 0 THEN (IF LeqD(AddD(b, SmallD(off)), SpaceD) THEN {AddD(b, SmallD(off))} ELSE {})
    ELSE (IF LeqD(SmallD(0 - off), b) THEN {SubD(b, SmallD(0 - off))} ELSE {})
PointsOf(b) == UNION {Shift(b, off) : off \in (0 - Offs)..Offs}

\* pn = E + delta for the deltas that matter: both window edges and their neighbours
\* inside, the centre, a quarter window either side.
QWinD(n) == UnitD(WD \div 4, n - 1)
InWinPns(E, n) ==
    LET up == {AddD(E, x) : x \in {ZeroSeq, OneD, QWinD(n), SubD(HWinD(n), OneD), HWinD(n)}}
        dn == {SubD(E, x) : x \in {y \in {OneD, QWinD(n), SubD(HWinD(n), SmallD(2)), SubD(HWinD(n), OneD)} : LeqD(y, E)}}
    IN {x \in up \cup dn : LtD(x, SpaceD)}

\* distances d - 1 = pn - A1 for the sender cases: every threshold of every length +-1
Dists == { <<0, 0, 0, 0, 0, 0, 0, 0>>,   <<0, 0, 0, 0, 0, 0, 0, 1>>,   <<0, 0, 0, 0, 0, 0, 0, 63>>,
           <<0, 0, 0, 0, 0, 0, 0, 125>>, <<0, 0, 0, 0, 0, 0, 0, 126>>, <<0, 0, 0, 0, 0, 0, 0, 127>>,
           <<0, 0, 0, 0, 0, 0, 0, 128>>, <<0, 0, 0, 0, 0, 0, 0, 255>>, <<0, 0, 0, 0, 0, 0, 1, 0>>,
           <<0, 0, 0, 0, 0, 0, 127, 254>>, <<0, 0, 0, 0, 0, 0, 127, 255>>, <<0, 0, 0, 0, 0, 0, 128, 0>>,
           <<0, 0, 0, 0, 0, 0, 255, 255>>, <<0, 0, 0, 0, 0, 1, 0, 0>>,
           <<0, 0, 0, 0, 0, 127, 255, 254>>, <<0, 0, 0, 0, 0, 127, 255, 255>>, <<0, 0, 0, 0, 0, 128, 0, 0>>,
           <<0, 0, 0, 0, 0, 255, 255, 255>>, <<0, 0, 0, 0, 1, 0, 0, 0>>, <<0, 0, 0, 0, 64, 0, 0, 0>>,
           <<0, 0, 0, 0, 127, 255, 255, 253>>, <<0, 0, 0, 0, 127, 255, 255, 254>> }

\* the cases around one base
CasesOf(b) ==
    UNION {{[k |-> "dec", e |-> E, pn |-> x, n |-> n] : x \in InWinPns(E, n)} : E \in PointsOf(b), n \in 1..4}
    \cup UNION {{[k |-> "enc", a1 |-> A1, pn |-> AddD(A1, d)] : d \in {y \in Dists : LtD(AddD(A1, y), SpaceD)}}
                : A1 \in {q \in PointsOf(b) : LtD(q, SpaceD)}}

\* receivers for a sender case: everything the sender knows acknowledged has been
\* processed and nothing at or beyond pn:  A1 <= E <= pn
Receivers(A1, pn) ==
    {x \in {A1, AddD(A1, OneD), pn, SubD(pn, OneD),
            AddD(A1, SubD(pn, A1))} \cup
           (IF LeqD(SmallD(100), SubD(pn, A1)) THEN {AddD(A1, SmallD(77))} ELSE {}) :
        LeqD(A1, x) /\ LeqD(x, pn)}

\* two levels (a base, then every case around it) so that TLC's workers share the work
Init == c \in [k : {"grp"}, b : Bases]
Next == c.k = "grp" /\ c' \in CasesOf(c.b)
Spec == Init /\ [][Next]_c

OkLens(pn, A1) == {n \in 1..4 : OkLenD(pn, A1, n)}
Truncs(pn) == [n \in 1..4 |-> TruncD(pn, n)]

\* receiver case: the number is in the window, so it is the unique element of WindowDecodeD
DecInv ==
    LET t == TruncD(c.pn, c.n)
        S == WindowDecodeD(c.e, t, c.n) IN
    /\ IsNum(c.e) /\ IsNum(c.pn) /\ InWindowD(c.e, c.pn, c.n)
    /\ S = {c.pn}
    /\ PrintT(<<"CASE", ToJson([k |-> "dec", e |-> c.e, n |-> c.n, t |-> t, out |-> CHOOSE x \in S : TRUE])>>)

\* sender case: the property -- any sufficient length, any receiver between A and pn
\* (checked here for the two extreme receivers; the theorem for all of them is RoundTripThm
\* of PacketNumber.tla; the driver runs every receiver of R)
EncInv ==
    LET R  == Receivers(c.a1, c.pn)
        Ls == OkLens(c.pn, c.a1) IN
    /\ IsNum(c.a1) /\ IsNum(c.pn) /\ LeqD(c.a1, c.pn)
    /\ 4 \in Ls
    /\ c.a1 \in R /\ c.pn \in R
    /\ \A n \in Ls : \A E \in {c.a1, c.pn} : WindowDecodeD(E, TruncD(c.pn, n), n) = {c.pn}
    /\ PrintT(<<"CASE", ToJson([k |-> "enc", a1 |-> c.a1, pn |-> c.pn,
                                 lens |-> [n \in 1..4 |-> n \in Ls],
                                 tr |-> Truncs(c.pn), es |-> R])>>)

Inv == CASE c.k = "grp" -> TRUE [] c.k = "dec" -> DecInv [] c.k = "enc" -> EncInv
=============================================================================
