SPECIFICATION SpecQ
CONSTANTS
  WD = 2
  ND = 6
  TopLim = 1
INVARIANTS InvQ
CHECK_DEADLOCK FALSE
