SPECIFICATION SpecQ
CONSTANTS
  WD = 2
  ND = 5
  TopLim = 1
INVARIANTS InvQ
CHECK_DEADLOCK FALSE
