SPECIFICATION SpecLP
CONSTANTS
  WD = 4
  ND = 5
  TopLim = 1
INVARIANTS InvLP
CHECK_DEADLOCK FALSE
