------------------------------ MODULE PnEquiv ------------------------------
(* Scaled-down exhaustive check (TLC) that the digit operators of PnDigits, which  *)
(* judge the real code, agree with the integer operators of PacketNumber, whose    *)
(* theorems Apalache proves for the 62-bit space -- and, in the same run, those    *)
(* theorems themselves on the small instance.  Variables as in PacketNumber:       *)
(* a = A and l = L in -1..Space-1, p in 0..Space-1, n in 1..4.                      *)
EXTENDS Integers, Sequences

CONSTANTS WD, ND, TopLim

VARIABLES a, l, p, n, ph

D == INSTANCE PnDigits

RECURSIVE Pow(_, _)
Pow(b, k) == IF k = 0 THEN 1 ELSE b * Pow(b, k - 1)
SpaceI == TopLim * Pow(WD, ND - 1)

I == INSTANCE PacketNumber WITH W <- WD, Space <- SpaceI

\* integer -> digits
ToDs(x)   == SubSeq([i \in 1..ND |-> (x \div Pow(WD, ND - i)) % WD], 1, ND)
ToT(t, k) == SubSeq(ToDs(t), ND - k + 1, ND)

\* Two phases only so that TLC's workers share the enumeration (initial states are generated
\* by a single thread): phase 0 fixes a (Spec, SpecAP) or l (SpecLP), phase 1 the rest.
vars == <<a, l, p, n, ph>>
AS == (0 - 1)..(SpaceI - 1)
PS == 0..(SpaceI - 1)
Init   == ph = 0 /\ a \in AS /\ l = 0 - 1 /\ p = 0 /\ n = 1
Next   == ph = 0 /\ ph' = 1 /\ a' = a /\ l' \in AS /\ p' \in PS /\ n' \in 1..4
Spec   == Init /\ [][Next]_vars
InitLP == ph = 0 /\ l \in AS /\ a = 0 - 1 /\ p = 0 /\ n = 1
NextLP == ph = 0 /\ ph' = 1 /\ a' = a /\ l' = l /\ p' \in PS /\ n' \in 1..4
SpecLP == InitLP /\ [][NextLP]_vars
\* quick: receiver pairs (l, p) and sender pairs (a, p) only
InitQ  == ph = 0 /\ p = 0 /\ n = 1 /\ ((a \in AS /\ l = 0 - 1) \/ (l \in AS /\ a = 0 - 1))
SpecQ  == InitQ /\ [][NextLP]_vars
NextAP == ph = 0 /\ ph' = 1 /\ a' = a /\ l' = l /\ p' \in PS /\ n' \in 1..4
SpecAP == Init /\ [][NextAP]_vars

E  == ToDs(l + 1)
A1 == ToDs(a + 1)
P  == ToDs(p)

ArithOK ==
    /\ D!IsNum(P) /\ D!IsNum(E)
    /\ D!AddD(E, P) = ToDs(l + 1 + p)
    /\ (l + 1 >= p => D!SubD(E, P) = ToDs(l + 1 - p))
    /\ (D!LtD(E, P) <=> l + 1 < p)
    /\ (D!LeqD(E, P) <=> l + 1 <= p)
    /\ D!WinD(n) = ToDs(I!Win(n)) /\ D!HWinD(n) = ToDs(I!HWin(n)) /\ D!SpaceD = ToDs(SpaceI)
    /\ D!TruncD(P, n) = ToT(I!Trunc(p, n), n)

WindowOK ==
    /\ (D!InWindowD(E, P, n) <=> I!InWindow(l, p, n))
    /\ D!WindowDecodeD(E, D!TruncD(P, n), n) = {ToDs(x) : x \in I!WindowDecode(l, I!Trunc(p, n), n)}

LenOK == (a < p) => (D!OkLenD(P, A1, n) <=> I!OkLen(p, a, n))

Thms   == I!AllThms
ThmsLP == I!DecodeThm /\ I!UniqueThm /\ I!ClampThm

InvAll == ph = 1 => (ArithOK /\ WindowOK /\ LenOK /\ Thms)
InvLP  == ph = 1 => (ArithOK /\ WindowOK /\ ThmsLP)
InvQ   == ph = 1 => (ArithOK /\ WindowOK /\ LenOK /\ ThmsLP /\ I!MinLenThm)
InvAP  == ph = 1 => (LenOK /\ I!MinLenThm)
=============================================================================
