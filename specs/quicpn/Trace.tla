------------------------------- MODULE Trace -------------------------------
(* Trace validation for C23: the driver logs seeded 62-bit (A, pn, L) triples and   *)
(* what packetNumberLength / appendPacketNumber / decodePacketNumber returned       *)
(* (numbers as 8-byte big-endian arrays, a1 = A + 1, e1 = L + 1).  TLC decides      *)
(* whether a line is inside C23's quantifier and, if so, whether the logged result  *)
(* is the one PnDigits allows.  Lines outside the quantifier are consumed unjudged. *)
EXTENDS PnDigits, TraceIO

VARIABLES cur, l, judged
tvars == <<cur, l, judged>>

Line == Trace[l]

TInit ==
    \E t \in 1..NT :
       LET h == Trace[Meta.starts[t]] IN
       /\ cur = t /\ l = Meta.starts[t] + 1 /\ judged = 0
       /\ h.e = "hdr"

IsBytes(b) == \A i \in 1..Len(b) : b[i] \in 0..255

\* sender: packetNumberLength(pn, A) = n, appendPacketNumber(nil, pn, A) = b
SenderOK(a1, pn, n, b) ==
    /\ OkLenD(pn, a1, n)
    /\ Len(b) \in 1..4 /\ OkLenD(pn, a1, Len(b)) /\ b = TruncD(pn, Len(b))

TEnc ==
    /\ Line.e = "enc" /\ IsNum(Line.a1) /\ IsNum(Line.pn) /\ IsBytes(Line.b)
    /\ LET dom == LeqD(Line.a1, Line.pn) /\ LtD(Line.pn, SpaceD) /\ OkLenD(Line.pn, Line.a1, 4) IN
       /\ dom => SenderOK(Line.a1, Line.pn, Line.n, Line.b)
       /\ judged' = judged + (IF dom THEN 1 ELSE 0)

\* receiver: decodePacketNumber(L, t, n) = out; judged when some packet number of the
\* space is congruent to t within the window around L + 1
TDec ==
    /\ Line.e = "dec" /\ IsNum(Line.e1) /\ LeqD(Line.e1, SpaceD) /\ IsBytes(Line.tb)
    /\ Line.n \in 1..4 /\ Len(Line.tb) = Line.n
    /\ LET S == WindowDecodeD(Line.e1, Line.tb, Line.n) IN
       /\ S # {} => Line.out \in S
       /\ judged' = judged + (IF S # {} THEN 1 ELSE 0)

\* the whole property: sender (A, pn), receiver with A <= L < pn
TRt ==
    /\ Line.e = "rt" /\ IsNum(Line.a1) /\ IsNum(Line.pn) /\ IsNum(Line.e1) /\ IsBytes(Line.b)
    /\ LET dom == /\ LeqD(Line.a1, Line.e1) /\ LeqD(Line.e1, Line.pn) /\ LtD(Line.pn, SpaceD)
                  /\ OkLenD(Line.pn, Line.a1, 4) IN
       /\ dom => SenderOK(Line.a1, Line.pn, Len(Line.b), Line.b) /\ Line.out = Line.pn
       /\ judged' = judged + (IF dom THEN 1 ELSE 0)

TNext ==
    /\ l <= Meta.ends[cur]
    /\ l' = l + 1 /\ cur' = cur
    /\ (TEnc \/ TDec \/ TRt)

TSpec == TInit /\ [][TNext]_tvars

Mark == HighWater(cur, l)
=============================================================================
