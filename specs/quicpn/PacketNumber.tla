---------------------------- MODULE PacketNumber ----------------------------
(* QUIC packet number truncation and recovery (RFC 9000 sections 17.1 and A.3), on *)
(* integers.  Parameterised by the size of a "byte" (W = 256 in QUIC) and of the   *)
(* packet number space (2^62 in QUIC) so that TLC can check the theorems           *)
(* exhaustively on a scaled-down instance (W = 4, Space = 256) and Apalache        *)
(* symbolically on the real one (PnApa.tla; TLC integers are 32-bit).              *)
(*                                                                                 *)
(* A is the largest packet number the sender has seen acknowledged (-1: none),     *)
(* L the largest packet number the receiver has successfully processed (-1: none), *)
(* pn the packet number being sent, n the number of "bytes" it is truncated to.    *)
EXTENDS Integers

CONSTANTS
    \* @type: Int;
    W,
    \* @type: Int;
    Space

\* @type: (Int) => Int;
Win(n)  == CASE n = 1 -> W [] n = 2 -> W * W [] n = 3 -> W * W * W [] OTHER -> W * W * W * W
\* @type: (Int) => Int;
HWin(n) == Win(n) \div 2

\* what goes on the wire: the n least significant "bytes"
\* @type: (Int, Int) => Int;
Trunc(pn, n) == pn % Win(n)

(* ------------------------------------------------------------- the property *)
\* 17.1: the sender must use a size able to represent more than twice the range
\* pn - A.  C23: "the chosen length always leaves pn - A below half the window".
\* Any such length is acceptable (the property does not ask for the shortest one).
OkLen(pn, A, n) == n \in 1..4 /\ pn - A < HWin(n)

\* The receiver can recover pn iff pn lies in the window of size Win(n) centred on L + 1.
InWindow(L, pn, n) == (L + 1) - HWin(n) < pn /\ pn <= (L + 1) + HWin(n)

\* Property-level decoder: the packet numbers in the window that are congruent to the
\* truncated value.  Any number congruent to t within half a window of L + 1 is one of the
\* three neighbours of the candidate below; there is at most one.
Cand(L, t, n) == ((L + 1) - ((L + 1) % Win(n))) + t
WindowDecode(L, t, n) ==
    {c \in {Cand(L, t, n) - Win(n), Cand(L, t, n), Cand(L, t, n) + Win(n)} :
        c >= 0 /\ c < Space /\ InWindow(L, c, n)}

(* ---------------------------------------------- RFC 9000 A.3, transcribed *)
RfcDecode(L, t, n) ==
    LET expected  == L + 1
        win       == Win(n)
        hwin      == HWin(n)
        candidate == (expected - (expected % win)) + t     \* (expected & ~mask) | truncated
    IN IF candidate <= expected - hwin /\ candidate < Space - win THEN candidate + win
       ELSE IF candidate > expected + hwin /\ candidate >= win THEN candidate - win
       ELSE candidate

\* A.3 without the two clamps at the ends of the space
RfcDecodeNoClamp(L, t, n) ==
    LET expected == L + 1  win == Win(n)  hwin == HWin(n)
        candidate == (expected - (expected % win)) + t
    IN IF candidate <= expected - hwin THEN candidate + win
       ELSE IF candidate > expected + hwin THEN candidate - win
       ELSE candidate

\* 17.1 example algorithm for the sender: the shortest sufficient length (4 if none is)
MinLen(pn, A) == IF pn - A < HWin(1) THEN 1 ELSE IF pn - A < HWin(2) THEN 2
                 ELSE IF pn - A < HWin(3) THEN 3 ELSE 4

(* ------------------------------------------------------------------ theorems *)
VARIABLES
    \* @type: Int;
    a,
    \* @type: Int;
    l,
    \* @type: Int;
    p,
    \* @type: Int;
    n

Init == /\ a \in (0 - 1)..(Space - 1) /\ l \in (0 - 1)..(Space - 1)
        /\ p \in 0..(Space - 1) /\ n \in 1..4
Next == UNCHANGED <<a, l, p, n>>

\* T1: a packet number in the receiver's window is the unique element of WindowDecode,
\*     and the RFC's algorithm finds it.
DecodeThm ==
    InWindow(l, p, n) => /\ WindowDecode(l, Trunc(p, n), n) = {p}
                         /\ RfcDecode(l, Trunc(p, n), n) = p
\* T2: WindowDecode never has two elements, and whenever it has one the RFC's algorithm
\*     returns it (for every truncated value t = Trunc(p, n), in the window or not).
UniqueThm ==
    \A c \in WindowDecode(l, Trunc(p, n), n) :
        /\ WindowDecode(l, Trunc(p, n), n) = {c}
        /\ RfcDecode(l, Trunc(p, n), n) = c
\* T3: C23 as stated: sender (A, pn) picks any sufficient length; a receiver that has
\*     processed at least A and nothing at or beyond pn recovers pn.
RoundTripThm ==
    (a < p /\ OkLen(p, a, n) /\ a <= l /\ l < p) => /\ InWindow(l, p, n)
                                                     /\ RfcDecode(l, Trunc(p, n), n) = p
\* T4: the shortest-length rule is sufficient whenever any length is (pn - A < 2^31 in QUIC).
MinLenThm == (a < p /\ p - a < HWin(4)) => OkLen(p, a, MinLen(p, a))
\* T5: in the window the two clamps of A.3 never decide (they only keep out-of-window
\*     results inside [0, Space)), so C23 does not observe them.
ClampThm == InWindow(l, p, n) => RfcDecodeNoClamp(l, Trunc(p, n), n) = RfcDecode(l, Trunc(p, n), n)

AllThms == DecodeThm /\ UniqueThm /\ RoundTripThm /\ MinLenThm /\ ClampThm
=============================================================================
