SPECIFICATION SpecAP
CONSTANTS
  WD = 4
  ND = 5
  TopLim = 1
INVARIANTS InvAP
CHECK_DEADLOCK FALSE
