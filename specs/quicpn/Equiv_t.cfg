SPECIFICATION Spec
CONSTANTS
  WD = 2
  ND = 6
  TopLim = 1
INVARIANTS InvAll
CHECK_DEADLOCK FALSE
