------------------------------ MODULE PnDigits ------------------------------
(* The operators of PacketNumber.tla on numbers written as ND big-endian digits of *)
(* base WD (QUIC: 8 bytes), because TLC cannot hold 62-bit integers.  This is the   *)
(* form in which TLC predicts and judges what the real Go code does.  PnEquiv.tla   *)
(* checks exhaustively on a scaled-down instance (base 4, 5 digits) that every      *)
(* operator here agrees with its integer counterpart.                               *)
(*                                                                                 *)
(* Conventions: A1 = A + 1 and E = L + 1 are used instead of A and L (which may be  *)
(* -1); both range over [0, Space], Space = TopLim * WD^(ND-1) (2^62: TopLim = 64). *)
EXTENDS Integers, Sequences

CONSTANTS WD, ND, TopLim

IsNum(x) == Len(x) = ND /\ \A i \in 1..ND : x[i] \in 0..(WD - 1)

ZeroD == [i \in 1..ND |-> 0]
AsSeq(f) == SubSeq(f, 1, ND)

\* x + y (no overflow out of ND digits for the arguments used: everything is < 2 * Space).
\* Carry look-ahead form (a recursive carry chain is very slow in TLC): there is a carry into
\* digit i iff some lower digit j generates one and every digit between propagates it.
CarryIn(x, y, i) == \E j \in (i + 1)..ND : /\ x[j] + y[j] >= WD
                                            /\ \A k \in (i + 1)..(j - 1) : x[k] + y[k] = WD - 1
AddD(x, y) == AsSeq([i \in 1..ND |-> (x[i] + y[i] + (IF CarryIn(x, y, i) THEN 1 ELSE 0)) % WD])
\* x - y for x >= y
BorrowIn(x, y, i) == \E j \in (i + 1)..ND : /\ x[j] < y[j]
                                             /\ \A k \in (i + 1)..(j - 1) : x[k] = y[k]
SubD(x, y) == AsSeq([i \in 1..ND |-> (x[i] - y[i] - (IF BorrowIn(x, y, i) THEN 1 ELSE 0) + WD) % WD])

\* lexicographic order = numeric order
LtD(x, y)  == \E i \in 1..ND : x[i] < y[i] /\ \A j \in 1..(i - 1) : x[j] = y[j]
LeqD(x, y) == x = y \/ LtD(x, y)

\* d * WD^k as digits (d < WD)
UnitD(d, k) == AsSeq([i \in 1..ND |-> IF i = ND - k THEN d ELSE 0])
OneD     == UnitD(1, 0)
WinD(n)  == UnitD(1, n)
HWinD(n) == UnitD(WD \div 2, n - 1)
SpaceD   == UnitD(TopLim, ND - 1)

TruncD(x, n) == SubSeq(x, ND - n + 1, ND)

(* ------------------------------------------------------------- the property *)
\* pn - A < HWin(n)   with A = A1 - 1:   pn + 1 < A1 + HWin(n)
OkLenD(pn, A1, n) == n \in 1..4 /\ LtD(AddD(pn, OneD), AddD(A1, HWinD(n)))
\* E - HWin(n) < pn <= E + HWin(n)
InWindowD(E, pn, n) == LtD(E, AddD(pn, HWinD(n))) /\ LeqD(pn, AddD(E, HWinD(n)))

CandD(E, t, n) == SubSeq(E, 1, ND - n) \o t
WindowDecodeD(E, t, n) ==
    LET c == CandD(E, t, n) IN
    {x \in ({c, AddD(c, WinD(n))} \cup (IF LeqD(WinD(n), c) THEN {SubD(c, WinD(n))} ELSE {})) :
        LtD(x, SpaceD) /\ InWindowD(E, x, n)}
=============================================================================
