SPECIFICATION TSpec
CONSTANTS
  NSym = 256
  W = 8
  Code <- RFCCode
  CLen <- RFCLen
CONSTRAINT Mark
POSTCONDITION AllConsumed
CHECK_DEADLOCK FALSE
