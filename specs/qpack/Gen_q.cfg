SPECIFICATION Spec
CONSTANTS
  NSym = 256
  W = 8
  Code <- RFCCode
  CLen <- RFCLen
  MaxList = 2
  Short = {1, 2, 3, 4, 5, 6, 7, 9, 10, 11, 12, 13}
  Long = {8, 14, 15, 16}
  Octets = {0, 1, 31, 32, 33, 41, 58, 80, 95, 97, 128, 129, 192, 194, 255}
  MaxOctets = 3
  LongFirst = {}
INVARIANTS Emit
CHECK_DEADLOCK FALSE
