SPECIFICATION Spec
CONSTANTS
  NSym = 256
  W = 8
  Code <- RFCCode
  CLen <- RFCLen
  MaxList = 2
  Short = {1, 2, 3, 4, 5, 6, 7, 8, 9, 10, 11, 12, 13, 14}
  Long = {15, 16}
  Octets = {0, 1, 16, 31, 32, 33, 39, 41, 58, 80, 95, 97, 128, 129, 192, 194, 255}
  MaxOctets = 3
  LongFirst = {}
INVARIANTS Emit
CHECK_DEADLOCK FALSE
