------------------------------- MODULE Trace -------------------------------
(* Trace validation for C33: every recorded call of the real QPACK encoder and decoder is    *)
(* judged against the reference.                                                            *)
(*   enc  the octets the real encoder produced for a logged field list must be a QPACK       *)
(*        section that the reference decodes to Expect(fs): Norm(fs), all of it unless a     *)
(*        decoder has to refuse a line (empty name, pseudo-header after a regular field).    *)
(*   dec  what the real decoder made of logged octets (success?, lines) against RefDecode:   *)
(*        reference ok     -> success means exactly the reference's lines; a failure must    *)
(*                            have emitted a prefix, and is not tolerated at all when the     *)
(*                            octets are the real encoder's own output (rt: round trip)       *)
(*        reference bad    -> failure, emitted lines a prefix of the reference's              *)
(*        reference either -> emitted lines compatible with the reference's                   *)
(* A panic or hang is logged in field p and matches no action.                               *)
EXTENDS Qpack, TraceIO

VARIABLES cur, l, last
tvars == <<cur, l, last>>

Ev == Trace[l]

TInit ==
    \E t \in 1..NT :
       LET h == Trace[Meta.starts[t]] IN
       /\ cur = t /\ l = Meta.starts[t] + 1
       /\ h.e = "hdr"
       /\ last = <<0>>

TEnc ==
    /\ Ev.e = "enc" /\ Ev.p = ""
    /\ \A i \in 1..Len(Ev.fs) : InDomain(Ev.fs[i].n)
    /\ Bind(RefDecode(Ev.b), LAMBDA r :
       Bind(Expect(Ev.fs), LAMBDA e : r.k = e.k /\ r.em = e.em /\ ~r.soft))
    /\ last' = Ev.b

Judge(r, o, strict) ==
    CASE r.k = "ok"  -> IF o.ok THEN o.em = r.em ELSE ~strict /\ IsPrefix(o.em, r.em)
      [] r.k = "bad" -> ~o.ok /\ IsPrefix(o.em, r.em)
      [] OTHER       -> IsPrefix(o.em, r.em) \/ IsPrefix(r.em, o.em)

TDec ==
    /\ Ev.e = "dec" /\ Ev.p = ""
    /\ Bind(RefDecode(Ev.b), LAMBDA r : Judge(r, Ev, Ev.rt /\ Ev.b = last /\ ~r.soft))
    /\ (Ev.rt => Ev.b = last)
    /\ UNCHANGED last

TNext ==
    /\ l <= Meta.ends[cur]
    /\ l' = l + 1 /\ cur' = cur
    /\ (TEnc \/ TDec)

TSpec == TInit /\ [][TNext]_tvars

Mark == HighWater(cur, l)
=============================================================================
