SPECIFICATION Spec
CONSTANTS
  NSym = 256
  W = 8
  Code <- RFCCode
  CLen <- RFCLen
  MaxList = 3
  Short = {1, 2, 4, 5, 7, 8, 9, 10, 11, 12, 13, 14}
  Long = {3, 6, 15, 16, 17}
  Octets = {0, 1, 7, 8, 15, 16, 31, 32, 33, 39, 40, 41, 47, 48, 49, 58, 63, 64, 79, 80, 81, 95, 97, 112, 127, 128, 129, 191, 192, 193, 194, 254, 255, 35, 36}
  MaxOctets = 4
  LongFirst = {33, 80, 95}
INVARIANTS Emit
CHECK_DEADLOCK FALSE
