SPECIFICATION Spec
CONSTANTS
  NSym = 256
  W = 8
  Code <- RFCCode
  CLen <- RFCLen
  MaxList = 3
  Short = {1, 2, 5, 7, 9, 10, 12, 13}
  Long = {3, 4, 6, 8, 11, 14, 15, 16, 17}
  Octets = {0, 1, 7, 15, 16, 31, 32, 33, 39, 40, 41, 47, 49, 58, 64, 80, 81, 95, 97, 112, 127, 128, 129, 191, 192, 194, 254, 255, 35, 36}
  MaxOctets = 4
  LongFirst = {33, 80}
INVARIANTS Emit
CHECK_DEADLOCK FALSE
