------------------------------ MODULE Huffman ------------------------------
(* Static Huffman string coding as RFC 7541 section 5.2 defines it, generic in the       *)
(* prefix-code table.                                                                    *)
(*   symbols   0..NSym-1 ; NSym itself stands for EOS                                    *)
(*   Code[s]   the code of s as a number (most significant bit first), s \in 0..NSym     *)
(*   CLen[s]   its length in bits                                                        *)
(*   W         bits per output unit (8: octets)                                          *)
(* Encoding: the codes of the symbols back to back, then the most significant bits of    *)
(* EOS up to the next unit boundary.  Decoding: read codes greedily; what is left after  *)
(* the last complete code is padding, which must be shorter than one unit and be a       *)
(* prefix of EOS; a complete EOS is an error.                                            *)
EXTENDS Integers, Sequences, FiniteSets

CONSTANTS NSym, Code, CLen, W

Syms   == 0..(NSym - 1)
EOS    == NSym
All    == 0..NSym
MaxCodeLen == CHOOSE m \in 1..30 : (\E s \in All : CLen[s] = m) /\ (\A s \in All : CLen[s] <= m)

Pow2(n) == 2 ^ n

(* Bind(x, F): F(x) with x evaluated exactly once.  TLC re-evaluates a LET definition at    *)
(* every use; binding through a singleton set forces one evaluation (performance only).     *)
Bind(x, F(_)) == CHOOSE y \in {F(v) : v \in {x}} : TRUE

(* ---- table sanity: a complete prefix-free code whose EOS is all ones, at least W long.   *)
(* Code s owns the interval [Code[s] * 2^(M - CLen[s]), (Code[s] + 1) * 2^(M - CLen[s])) of  *)
(* M-bit strings (M = MaxCodeLen).  The code is prefix-free and complete iff these intervals *)
(* tile [0, 2^M): all starts distinct, 0 is a start, 2^M an end, and every other end is a   *)
(* start (ends exceed starts, so the intervals then form one chain from 0 to 2^M).          *)
BitOf(s, k) == (Code[s] \div Pow2(CLen[s] - k)) % 2          \* k-th bit of the code, k \in 1..CLen[s]
IvStart(s)  == Code[s] * Pow2(MaxCodeLen - CLen[s])
IvEnd(s)    == (Code[s] + 1) * Pow2(MaxCodeLen - CLen[s])
WellFormed ==
    /\ \A s \in All : CLen[s] \in 1..30 /\ Code[s] \in 0..(Pow2(CLen[s]) - 1)
    /\ LET S == {IvStart(s) : s \in All}
           E == {IvEnd(s) : s \in All}
       IN  /\ Cardinality(S) = NSym + 1 /\ 0 \in S /\ Pow2(MaxCodeLen) \in E
           /\ E \ {Pow2(MaxCodeLen)} = S \ {0}
    /\ Code[EOS] = Pow2(CLen[EOS]) - 1 /\ CLen[EOS] >= W      \* padding can never contain EOS

(* ---- inverse tables.  They are built as tuples by recursion on purpose: TLC evaluates ---- *)
(* ---- such a definition once and caches it, whereas a function constructor stays lazy  ---- *)
(* ---- and would re-evaluate its body at every application.                             ---- *)
RECURSIVE SymsByLen(_)
SymsByLen(n) == IF n = 0 THEN <<>> ELSE Append(SymsByLen(n - 1), {t \in All : CLen[t] = n})
SymsOfLen == SymsByLen(MaxCodeLen)                 \* SymsOfLen[l] = symbols whose code has l bits
RECURSIVE CodesByLen(_)
CodesByLen(n) == IF n = 0 THEN <<>> ELSE Append(CodesByLen(n - 1), {Code[s] : s \in SymsOfLen[n]})
CodesOfLen == CodesByLen(MaxCodeLen)               \* CodesOfLen[l] = the l-bit codes
SymOf(l, c) == CHOOSE s \in SymsOfLen[l] : Code[s] = c

(* ---- encoder ---- *)
SymBits(s) == [k \in 1..CLen[s] |-> BitOf(s, k)]

RECURSIVE CatBits(_, _, _)
CatBits(str, i, acc) == IF i > Len(str) THEN acc ELSE CatBits(str, i + 1, acc \o SymBits(str[i]))

RECURSIVE SumLen(_, _)
SumLen(str, i) == IF i > Len(str) THEN 0 ELSE CLen[str[i]] + SumLen(str, i + 1)

Ones(n) == [k \in 1..n |-> 1]
PadLen(n) == (W - (n % W)) % W

RECURSIVE UnitValFrom(_, _, _, _)     \* value of W bits of a bit string starting after offset base
UnitValFrom(bits, base, k, acc) == IF k > W THEN acc ELSE UnitValFrom(bits, base, k + 1, 2 * acc + bits[base + k])
UnitVal(bits, u) == UnitValFrom(bits, (u - 1) * W, 1, 0)

Pack(bits) == [u \in 1..(Len(bits) \div W) |-> UnitVal(bits, u)]

Enc(str) == Bind(CatBits(str, 1, <<>>), LAMBDA b : Pack(b \o Ones(PadLen(Len(b)))))

EncLen(str) == (SumLen(str, 1) + W - 1) \div W

(* ---- decoder ---- *)
\* k-th bit (1-based, most significant first) of a sequence of W-bit units
BitAt(units, k) == (units[((k - 1) \div W) + 1] \div Pow2(W - 1 - ((k - 1) % W))) % 2

NoSym  == 0 - 1      \* ran out of bits inside a code
BadSym == 0 - 2      \* no code matches (impossible for a complete code)

(* The code that starts at bit p (1-based) of n bits; l bits with value v have been read. *)
RECURSIVE NextSym(_, _, _, _, _)
NextSym(units, n, p, l, v) ==
    IF p + l > n THEN [s |-> NoSym, l |-> l, v |-> v]
    ELSE LET l2 == l + 1
             v2 == 2 * v + BitAt(units, p + l)
         IN  IF v2 \in CodesOfLen[l2] THEN [s |-> SymOf(l2, v2), l |-> l2, v |-> v2]
             ELSE IF l2 >= MaxCodeLen THEN [s |-> BadSym, l |-> l2, v |-> v2]
             ELSE NextSym(units, n, p, l2, v2)

Reject == [ok |-> FALSE, out |-> <<>>]

RECURSIVE DecFrom(_, _, _, _)
DecFrom(units, n, p, out) ==
    Bind(NextSym(units, n, p, 0, 0), LAMBDA r :
       IF r.s = NoSym THEN
            \* r.l leftover bits: padding; shorter than a unit and the most significant bits of EOS
            IF r.l < W /\ r.v = Pow2(r.l) - 1 THEN [ok |-> TRUE, out |-> out] ELSE Reject
       ELSE IF r.s = BadSym \/ r.s = EOS THEN Reject
       ELSE DecFrom(units, n, p + r.l, Append(out, r.s)))

Dec(units) == DecFrom(units, Len(units) * W, 1, <<>>)
Accepts(units) == Dec(units).ok

(* ---- the properties of the scheme (C04) ---- *)
RoundTrip(str)   == Bind(Enc(str), LAMBDA e : Dec(e) = [ok |-> TRUE, out |-> str] /\ Len(e) = EncLen(str))
Canonical(units) == Bind(Dec(units), LAMBDA d : d.ok => Enc(d.out) = units)
=============================================================================
