-------------------------------- MODULE Gen --------------------------------
(* C33 generator and design-level check, one TLC run (the state space is two trees):        *)
(*                                                                                          *)
(* mode "fs"  first sentence of C33.  For every field list up to MaxList over the alphabet  *)
(*   below (x never-index flag) decoding an encoding of it yields exactly Norm(fs), or      *)
(*   stops at the first line a decoder must refuse (SectionRoundTrip, an invariant here).   *)
(*   Every list is printed with the expected outcome (CASE with field "fs") and is run      *)
(*   through the real qpackEncoder and qpackDecoder.                                        *)
(* mode "b"   second sentence.  Every octet string up to MaxOctets over an alphabet that    *)
(*   straddles every first-octet class, prefix-full values, continuation octets, Huffman    *)
(*   flags and the static table boundary, behind the prefix 00 00 and (up to two octets) on *)
(*   its own (exercises the section prefix), is decoded by RefDecode; the outcome and lines *)
(*   are printed (CASE with field "in") for replay on the real decoder.  At the root, all   *)
(*   99 + 1 static indices are printed as indexed lines and as name references, and long,   *)
(*   huge, overflowing and zero-padded integers in every integer position.                  *)
EXTENDS Qpack, Json, TLC

CONSTANTS MaxList,      \* longest list
          Short,        \* field alphabet indices usable at every position
          Long,         \* field alphabet indices usable only in lists of length 1 (long strings)
          Octets,       \* octet alphabet
          MaxOctets,    \* longest octet string
          LongFirst     \* octet strings longer than 3 only when they start with one of these

Rep(c, k) == [i \in 1..k |-> c]

Alpha == <<
  [n |-> <<58,109,101,116,104,111,100>>, v |-> <<71,69,84>>],   \* 1 :method GET            exact 17, pseudo
  [n |-> <<58,109,101,116,104,111,100>>, v |-> <<80,65,84,67,72>>],   \* 2 :method PATCH     name ref 15 = full 4-bit prefix, pseudo
  [n |-> <<58,97,117,116,104,111,114,105,116,121>>, v |-> <<>>],   \* 3 :authority ""        exact 0, empty value, pseudo
  [n |-> <<58,115,116,97,116,117,115>>, v |-> <<49,48,48>>],   \* 4 :status 100            exact 63 = full 6-bit prefix, pseudo
  [n |-> <<58,115,116,97,116,117,115>>, v |-> <<50,48,52>>],   \* 5 :status 204            exact 64, pseudo
  [n |-> <<99,111,110,116,101,110,116,45,116,121,112,101>>, v |-> <<116,101,120,116,47,112,108,97,105,110>>],   \* 6 content-type text/plain   exact 53
  [n |-> <<67,111,110,116,101,110,116,45,84,121,112,101>>, v |-> <<120,47,121>>],   \* 7 Content-Type x/y   upper case, name ref 44 after lowering
  [n |-> <<120,45,102,114,97,109,101,45,111,112,116,105,111,110,115>>, v |-> <<115,97,109,101,111,114,105,103,105,110>>],   \* 8 x-frame-options sameorigin   exact 98 (last entry)
  [n |-> <<120,45,97>>, v |-> <<98>>],   \* 9 x-a b                miss, short
  [n |-> <<88,122,113,106,107,120,122>>, v |-> <<>>],   \* 10 Xzqjkxz ""   miss, upper case, raw name of length 7 = full 3-bit prefix, empty value
  [n |-> <<120,45,99,117,115,116,111,109>>, v |-> <<97,97,97,97,97,97,97,97>>],   \* 11 x-custom aaaaaaaa   miss, Huffman shorter for both
  [n |-> <<120,233>>, v |-> <<118>>],   \* 12 non-ASCII name: skipped
  [n |-> <<>>, v |-> <<118>>],   \* 13 empty name: the decoder must refuse it
  [n |-> <<101,116,97,103>>, v |-> <<233,1,255>>],   \* 14 etag e9 01 ff    name ref 7, octets that Huffman makes longer
  [n |-> <<99,111,111,107,105,101>>, v |-> Rep(126, 127)],   \* 15 cookie, 127 x '~': raw length 127 = full 7-bit prefix
  [n |-> <<120,45,104>>, v |-> Rep(97, 203)],   \* 16 x-h, 203 x 'a': Huffman length 127 = full 7-bit prefix
  [n |-> <<120,45,104>>, v |-> Rep(126, 128)]   \* 17 x-h, 128 x '~': raw length 128
>>

VARIABLE x          \* [m |-> "root"] | [m |-> "fs", fs |-> list] | [m |-> "b", c |-> octets]
Init == x = [m |-> "root"]
Next ==
    \/ x.m = "root" /\ (x' = [m |-> "fs", fs |-> <<>>] \/ x' = [m |-> "b", c |-> <<>>])
    \/ /\ x.m = "fs" /\ Len(x.fs) < MaxList
       /\ \E a \in Short, nv \in BOOLEAN : x' = [x EXCEPT !.fs = Append(@, FieldLine(Alpha[a].n, Alpha[a].v, nv))]
    \/ /\ x.m = "fs" /\ x.fs = <<>>
       /\ \E a \in Long, nv \in BOOLEAN : x' = [x EXCEPT !.fs = <<FieldLine(Alpha[a].n, Alpha[a].v, nv)>>]
    \/ /\ x.m = "b" /\ Len(x.c) < MaxOctets
       /\ IF Len(x.c) < 3 THEN TRUE ELSE x.c[1] \in LongFirst
       /\ \E o \in Octets : x' = [x EXCEPT !.c = Append(@, o)]
Spec == Init /\ [][Next]_x

(* ---- mode fs ---- *)
EmitFs(fs) ==
    /\ \A i \in 1..Len(fs) : InDomain(fs[i].n)
    /\ SectionRoundTrip(fs)
    /\ Bind(Expect(fs), LAMBDA e : PrintT(<<"CASE", ToJson([fs |-> fs, k |-> e.k, em |-> e.em])>>))

(* ---- mode b ---- *)
\* the reference's own sanity: "ok" only with every octet consumed is built into Run; lines carry
\* a non-empty name and pseudo-headers come first
RECURSIVE WellOrdered(_, _, _)
WellOrdered(em, i, reg) ==
    i > Len(em) \/ (/\ em[i].n # <<>>
                    /\ ~(IsPseudo(em[i]) /\ reg)
                    /\ WellOrdered(em, i + 1, reg \/ ~IsPseudo(em[i])))
Case(b) == Bind(RefDecode(b), LAMBDA r :
    /\ WellOrdered(r.em, 1, FALSE)
    /\ PrintT(<<"CASE", ToJson([in |-> b, k |-> r.k, em |-> r.em, soft |-> r.soft])>>))

Indexed(i) == <<0, 0>> \o EncInt(128 + 64, 6, i)
NameRef(i) == <<0, 0>> \o EncInt(64 + 16, 4, i) \o <<1, 97>>

\* long, huge, overflowing and zero-padded integers in every integer position of a line
Rep8(c, k) == [i \in 1..k |-> c]
LongInts == { Rep8(255, 9) \o <<1>>,          \* 2^64 - 1 (+ prefix): wraps a signed 64-bit length
              Rep8(255, 9) \o <<0>>,          \* 2^63 - 1 (+ prefix)
              Rep8(255, 9) \o <<127>>,        \* does not fit 64 bits
              <<255, 255, 255, 255, 7>>,      \* 2^31 - 1 (+ prefix)
              <<255, 255, 255, 255, 15>>,     \* 2^32 - 1 (+ prefix)
              Rep8(128, 8) \o <<0>>,          \* 0, nine continuation octets (must be accepted)
              Rep8(128, 10) \o <<0>>,         \* 0, eleven continuation octets (implementation limit)
              <<128>> }                       \* never ends
IntSites == { <<255>>,                        \* indexed, static
              <<95>>,                         \* name reference, static
              <<39>>, <<47>>,                 \* literal name length, raw and Huffman
              <<33, 97, 127>>, <<33, 97, 255>>,   \* value length behind a literal name
              <<80, 127>> }                   \* value length behind a name reference
EmitInts == \A f \in IntSites, li \in LongInts :
               Case(<<0, 0>> \o f \o li) /\ Case(<<0, 0>> \o f \o li \o <<97>>) /\ Case(<<0, 0, 192>> \o f \o li \o <<0, 192>>)
EmitPrefix == \A li \in LongInts : Case(<<255>> \o li \o <<0, 192>>) /\ Case(<<0, 127>> \o li \o <<192>>) /\ Case(<<0, 255>> \o li \o <<192>>)

EmitRoot == (\A i \in 0..NStatic : Case(Indexed(i)) /\ Case(NameRef(i))) /\ EmitInts /\ EmitPrefix

Emit == CASE x.m = "root" -> EmitRoot
          [] x.m = "fs"   -> EmitFs(x.fs)
          [] x.m = "b"    -> Case(<<0, 0>> \o x.c) /\ (Len(x.c) > 2 \/ Case(x.c))
=============================================================================
