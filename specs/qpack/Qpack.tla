------------------------------- MODULE Qpack -------------------------------
(* Byte-level reference for QPACK encoded field sections as golang/net's HTTP/3 uses them: *)
(* RFC 9204 sections 4.1 (prefixed integers, string literals, RFC 7541 Huffman code) and   *)
(* 4.5 (encoded field section prefix, field line representations) with                    *)
(* SETTINGS_QPACK_MAX_TABLE_CAPACITY = 0, i.e. static table only.  Transcribed from the    *)
(* RFC and from the text of property C33, not from the Go code.                            *)
(*                                                                                         *)
(* Octet strings (sections, names, values) are tuples of 0..255.  TLC integers are 32 bit: *)
(* integers of 2^24 and more collapse to BIG; every use of BIG in a section that is itself *)
(* shorter than 2^24 octets is an error.                                                   *)
(*                                                                                         *)
(* RefDecode(b) = [k, em, soft]:                                                           *)
(*   k = "ok"      the section is well formed; em = its field lines in order               *)
(*   k = "bad"     C33's rejection list applies (see Line/Run/RefDecode); em = the lines   *)
(*                 in front of the offending one                                           *)
(*   k = "either"  an integer with more than MaxCont continuation octets and a small value *)
(*                 (zero padding): RFC 7541 section 5.1 leaves the octet-length limit of   *)
(*                 an implementation open; nothing is fixed from this point on             *)
(*   soft          the Delta Base is one that RFC 9204 4.5.1.2 calls invalid (sign bit with *)
(*                 Required Insert Count 0) or is huge / over-long.  C33 does not list it   *)
(*                 and golang/net ignores the Delta Base without a dynamic table, so a      *)
(*                 decoder may accept or reject such a section.                             *)
EXTENDS HuffmanRFC7541, QpackStatic

BIG      == 1073741824        \* 2^30, stands for "2^24 or more"
BigFrom  == 16777216          \* 2^24
MaxCont  == 9                 \* continuation octets of an integer up to which behaviour is specified

NStatic  == Len(StaticTab)    \* 99; wire index i is StaticTab[i + 1]

Cap(x) == IF x >= BigFrom THEN BIG ELSE x

(* ---- RFC 9204 4.1.1 / RFC 7541 5.1 prefixed integers ----------------------------------- *)
\* continuation octets; q: next octet, acc: value so far, m: shift, j: continuation octets already read
RECURSIVE IntCont(_, _, _, _, _, _)
IntCont(b, n, q, acc, m, j) ==
    IF q > n THEN [k |-> "more"]
    ELSE LET lo   == b[q] % 128
             acc2 == IF acc = BIG THEN BIG
                     ELSE IF lo = 0 THEN acc
                     ELSE IF m > 21 THEN BIG
                     ELSE Cap(acc + lo * Pow2(m))
         IN  IF b[q] < 128 THEN [k |-> "ok", v |-> acc2, nx |-> q + 1, long |-> (j + 1 > MaxCont)]
             ELSE IntCont(b, n, q + 1, acc2, m + 7, j + 1)

\* integer with an N-bit prefix whose first octet is b[p] (p <= n = Len(b)).
\* k = "ok" (v, nx) | "more" (the section ends inside the integer) | "limit" (over-long, small value)
ReadInt(b, n, p, N) ==
    LET full == Pow2(N) - 1
        pre  == b[p] % Pow2(N)
    IN  IF pre < full THEN [k |-> "ok", v |-> pre, nx |-> p + 1]
        ELSE Bind(IntCont(b, n, p + 1, pre, 0, 0), LAMBDA r :
                IF r.k = "ok" /\ r.long /\ r.v # BIG THEN [k |-> "limit"] ELSE r)

(* ---- RFC 9204 4.1.2 / RFC 7541 5.2 string literals -------------------------------------- *)
\* string literal whose first octet is b[p]: H flag is the bit above the N-bit length prefix.
\* k = "ok" (s, nx) | "bad" (missing, truncated, longer than the rest of the section = oversized,
\* invalid Huffman code or padding) | "either"
ReadStr(b, n, p, N) ==
    IF p > n THEN [k |-> "bad"]
    ELSE Bind(ReadInt(b, n, p, N), LAMBDA r :
         IF r.k = "more" THEN [k |-> "bad"]
         ELSE IF r.k = "limit" THEN [k |-> "either"]
         ELSE IF r.v = BIG THEN [k |-> "bad"]
         ELSE IF r.nx + r.v - 1 > n THEN [k |-> "bad"]
         ELSE IF (b[p] \div Pow2(N)) % 2 = 0
              THEN [k |-> "ok", s |-> SubSeq(b, r.nx, r.nx + r.v - 1), nx |-> r.nx + r.v]
         ELSE Bind(Dec(SubSeq(b, r.nx, r.nx + r.v - 1)), LAMBDA d :
                   IF d.ok THEN [k |-> "ok", s |-> d.out, nx |-> r.nx + r.v] ELSE [k |-> "bad"]))

(* ---- RFC 9204 4.5.2 - 4.5.6 field line representations ---------------------------------- *)
FieldLine(n, v, nv) == [n |-> n, v |-> v, nv |-> nv]
Bit(o, w) == (o \div w) % 2 = 1
BadLine    == [k |-> "bad"]
EitherLine == [k |-> "either"]

Line(b, n, p) ==                                     \* p <= n
    LET o == b[p] IN
    IF o >= 128 THEN                                 \* 4.5.2 indexed field line: 1 T index(6+)
        Bind(ReadInt(b, n, p, 6), LAMBDA i :
          IF i.k = "more" THEN BadLine
          ELSE IF ~Bit(o, 64) THEN BadLine           \* T = 0: dynamic table reference
          ELSE IF i.k = "limit" THEN EitherLine
          ELSE IF i.v >= NStatic THEN BadLine        \* static index out of range
          ELSE [k |-> "ok", nx |-> i.nx,
                f |-> FieldLine(StaticTab[i.v + 1].n, StaticTab[i.v + 1].v, FALSE)])
    ELSE IF o >= 64 THEN                             \* 4.5.4 literal with name reference: 01 N T index(4+)
        Bind(ReadInt(b, n, p, 4), LAMBDA i :
          IF i.k = "more" THEN BadLine
          ELSE IF ~Bit(o, 16) THEN BadLine           \* T = 0: dynamic table reference
          ELSE IF i.k = "limit" THEN EitherLine
          ELSE IF i.v >= NStatic THEN BadLine
          ELSE Bind(ReadStr(b, n, i.nx, 7), LAMBDA s :
               IF s.k # "ok" THEN [k |-> s.k]
               ELSE [k |-> "ok", nx |-> s.nx, f |-> FieldLine(StaticTab[i.v + 1].n, s.s, Bit(o, 32))]))
    ELSE IF o >= 32 THEN                             \* 4.5.6 literal with literal name: 001 N H len(3+)
        Bind(ReadStr(b, n, p, 3), LAMBDA nm :
          IF nm.k # "ok" THEN [k |-> nm.k]
          ELSE Bind(ReadStr(b, n, nm.nx, 7), LAMBDA s :
               IF s.k # "ok" THEN [k |-> s.k]
               ELSE IF nm.s = <<>> THEN BadLine      \* empty field name
               ELSE [k |-> "ok", nx |-> s.nx, f |-> FieldLine(nm.s, s.s, Bit(o, 16))]))
    ELSE BadLine                                     \* 4.5.3 / 4.5.5 post-base: dynamic table reference

Colon == 58
IsPseudo(f) == f.n[1] = Colon

\* the field lines from octet p on; reg: a regular (non-pseudo) field line has been seen
RECURSIVE Run(_, _, _, _, _)
Run(b, n, p, reg, em) ==
    IF p > n THEN [k |-> "ok", em |-> em]
    ELSE Bind(Line(b, n, p), LAMBDA r :
         IF r.k # "ok" THEN [k |-> r.k, em |-> em]
         ELSE IF IsPseudo(r.f) /\ reg THEN [k |-> "bad", em |-> em]     \* pseudo-header after a regular field
         ELSE Run(b, n, r.nx, reg \/ ~IsPseudo(r.f), Append(em, r.f)))

(* 4.5.1 encoded field section prefix: Required Insert Count (8+), S + Delta Base (7+).      *)
(* An 8-bit prefix integer that continues is at least 255: whatever its length, it is not 0.  *)
Res(k, em, soft) == [k |-> k, em |-> em, soft |-> soft]
RefDecode(b) ==
    LET n == Len(b) IN
    IF n = 0 THEN Res("bad", <<>>, FALSE)
    ELSE Bind(ReadInt(b, n, 1, 8), LAMBDA ric :
         IF ric.k # "ok" \/ ric.v # 0 THEN Res("bad", <<>>, FALSE)      \* truncated or non-zero RIC
         ELSE IF ric.nx > n THEN Res("bad", <<>>, FALSE)
         ELSE Bind(ReadInt(b, n, ric.nx, 7), LAMBDA db :
              IF db.k = "more" THEN Res("bad", <<>>, FALSE)
              ELSE IF db.k = "limit" THEN Res("either", <<>>, TRUE)
              ELSE Bind(Run(b, n, db.nx, FALSE, <<>>), LAMBDA r :
                        Res(r.k, r.em, b[ric.nx] >= 128 \/ db.v = BIG))))

(* ---- the encoder C33 describes ----------------------------------------------------------- *)
(* Normalisation: names lower-cased; a field whose name has an octet outside ASCII is skipped. *)
(* (Names with control characters or DEL are outside the judged domain: golang/net skips them  *)
(* too, C33 does not say.)                                                                     *)
LowerOctet(c) == IF c >= 65 /\ c <= 90 THEN c + 32 ELSE c
LowerSeq(s)   == [i \in 1..Len(s) |-> LowerOctet(s[i])]
NonAscii(s)   == \E i \in 1..Len(s) : s[i] >= 128
InDomain(s)   == \A i \in 1..Len(s) : s[i] >= 128 \/ (s[i] >= 32 /\ s[i] <= 126)

RECURSIVE NormFrom(_, _)
NormFrom(fs, i) ==
    IF i > Len(fs) THEN <<>>
    ELSE IF NonAscii(fs[i].n) THEN NormFrom(fs, i + 1)
    ELSE <<FieldLine(LowerSeq(fs[i].n), fs[i].v, fs[i].nv)>> \o NormFrom(fs, i + 1)
Norm(fs) == NormFrom(fs, 1)

(* What decoding an encoding of fs must yield: Norm(fs), up to the first line the decoder has  *)
(* to refuse (empty name, pseudo-header after a regular field).                                *)
RECURSIVE ExpectFrom(_, _, _, _)
ExpectFrom(ls, i, reg, em) ==
    IF i > Len(ls) THEN [k |-> "ok", em |-> em]
    ELSE IF ls[i].n = <<>> THEN [k |-> "bad", em |-> em]
    ELSE IF IsPseudo(ls[i]) /\ reg THEN [k |-> "bad", em |-> em]
    ELSE ExpectFrom(ls, i + 1, reg \/ ~IsPseudo(ls[i]), Append(em, ls[i]))
Expect(fs) == ExpectFrom(Norm(fs), 1, FALSE, <<>>)

(* A concrete encoder (one of many valid ones; used for the design-level round trip only --  *)
(* the real encoder's octets are judged by RefDecode, not compared with these).              *)
RECURSIVE Varint(_)
Varint(u) == IF u < 128 THEN <<u>> ELSE <<128 + (u % 128)>> \o Varint(u \div 128)
EncInt(first, N, v) == IF v < Pow2(N) - 1 THEN <<first + v>> ELSE <<first + Pow2(N) - 1>> \o Varint(v - (Pow2(N) - 1))
EncStr(first, N, s) == Bind(Enc(s), LAMBDA h :
    IF Len(h) < Len(s) THEN EncInt(first + Pow2(N), N, Len(h)) \o h ELSE EncInt(first, N, Len(s)) \o s)

ExactIdx(f) == {i \in 0..(NStatic - 1) : StaticTab[i + 1].n = f.n /\ StaticTab[i + 1].v = f.v}
NameIdx(f)  == {i \in 0..(NStatic - 1) : StaticTab[i + 1].n = f.n}
MinOf(S)    == CHOOSE x \in S : \A y \in S : x <= y
NvBit(f, w) == IF f.nv THEN w ELSE 0

EncLine(f) ==
    IF ~f.nv /\ ExactIdx(f) # {} THEN EncInt(128 + 64, 6, MinOf(ExactIdx(f)))
    ELSE IF NameIdx(f) # {} THEN EncInt(64 + NvBit(f, 32) + 16, 4, MinOf(NameIdx(f))) \o EncStr(0, 7, f.v)
    ELSE EncStr(32 + NvBit(f, 16), 3, f.n) \o EncStr(0, 7, f.v)

RECURSIVE EncLines(_, _)
EncLines(ls, i) == IF i > Len(ls) THEN <<>> ELSE EncLine(ls[i]) \o EncLines(ls, i + 1)
EncSection(fs) == <<0, 0>> \o EncLines(Norm(fs), 1)

(* C33, first sentence, at design level. *)
SectionRoundTrip(fs) == Bind(Expect(fs), LAMBDA x : RefDecode(EncSection(fs)) = Res(x.k, x.em, FALSE))

IsPrefix(s, t) == Len(s) <= Len(t) /\ SubSeq(t, 1, Len(s)) = s
=============================================================================
