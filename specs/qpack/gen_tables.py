#!/usr/bin/env python3
# One-shot transcription helper (NOT run by any check).
#
# Writes QpackStatic.tla (RFC 9204 Appendix A: the 99 static table entries, indices 0..98) from
# the reproduction of that RFC table in golang/net at the pinned commit
# (internal/http3/qpack_static.go).  The generated module is committed and pinned: it is the
# RFC's table, not a live copy, so a later change to qpack_static.go shows up as a disagreement
# with the specification.  ASSUMEs tie a few entries to the RFC text independently of the Go
# source (RFC 9204 Appendix B.1 uses index 1 = ":path /" ; section 4.5.2/4.5.4 examples; the
# first/last rows of Appendix A).
#
# Huffman.tla and HuffmanRFC7541.tla in this directory are copies of the pinned modules of
# specs/hpackwire (RFC 7541 Appendix B is shared by HPACK and QPACK, RFC 9204 section 4.1.2).
#
# usage: gen_tables.py [/repo]   (writes next to this file)
import os
import re
import sys

repo = sys.argv[1] if len(sys.argv) > 1 else "/repo"
here = os.path.dirname(os.path.abspath(__file__))

src = open(os.path.join(repo, "internal/http3/qpack_static.go")).read()
body = src[src.index("var staticTableEntries"):]
rows = re.findall(r'^\s*(\d+):\s*\{"([^"]*)", "([^"]*)"\},\s*$', body, re.M)
assert len(rows) == 99, len(rows)
for i, (k, _, _) in enumerate(rows):
    assert int(k) == i


def tup(s):
    return "<<" + ",".join(str(b) for b in s.encode()) + ">>"


with open(os.path.join(here, "QpackStatic.tla"), "w") as f:
    f.write("""---------------------------- MODULE QpackStatic ----------------------------
(* RFC 9204 Appendix A (QPACK static table, 99 entries, wire indices 0..98), transcribed   *)
(* once by gen_tables.py and pinned.  Names and values are tuples of octet values.         *)
(* StaticTab[i + 1] is the entry with wire index i.                                        *)
EXTENDS Integers, Sequences

StaticTab == <<
""")
    for i, (_, n, v) in enumerate(rows):
        f.write("  [n |-> %s, v |-> %s]%s   \\* %d %s: %s\n" % (tup(n), tup(v), "," if i < 98 else " ", i, n, v))
    f.write(""">>

ASSUME Len(StaticTab) = 99
(* anchors to the RFC text (Appendix A rows 0, 1, 17, 25, 63, 98) *)
ASSUME StaticTab[1]  = [n |-> %s, v |-> <<>>]
ASSUME StaticTab[2]  = [n |-> %s, v |-> <<47>>]
ASSUME StaticTab[18] = [n |-> %s, v |-> %s]
ASSUME StaticTab[26] = [n |-> %s, v |-> %s]
ASSUME StaticTab[64] = [n |-> %s, v |-> %s]
ASSUME StaticTab[99] = [n |-> %s, v |-> %s]
=============================================================================
""" % (tup(":authority"), tup(":path"), tup(":method"), tup("GET"), tup(":status"), tup("200"),
       tup(":status"), tup("100"), tup("x-frame-options"), tup("sameorigin")))
print("written")
