------------------------------ MODULE TraceRS ------------------------------
(* Trace validation for C24: the driver runs long seeded add/sub sequences on a   *)
(* real rangeset (int64 or packetNumber, under an embedding e(k) = base + unit*k  *)
(* that it undoes before logging) and records, after every operation, the ranges  *)
(* the real set holds and what its queries answered.  TLC tracks the mathematical *)
(* set S and accepts a line only if every logged value is what RangeSet defines.  *)
(*                                                                               *)
(* Logged values: coordinates are cells (de-embedded; -7777 = not on the grid);   *)
(* scalar answers are pairs <<cell, z>> with z = 1 iff the raw answer was the      *)
(* literal 0 (the documented default for the empty set / a non-member).           *)
EXTENDS RangeSet, TraceIO

VARIABLES cur, l
tvars == <<S, cur, l>>

Line == Trace[l]

TInit ==
    \E t \in 1 .. NT :
       LET h == Trace[Meta.starts[t]] IN
       /\ cur = t /\ l = Meta.starts[t] + 1
       /\ h.e = "hdr" /\ h.n <= N
       /\ S = {}

\* what the queries must have answered on the set T
Conforms(ln, T) ==
    LET canon == Canon(T) IN
    /\ ln.r = canon                                      \* sorted, non-empty, disjoint, non-adjacent, = T
    /\ ln.n = NumRanges(T)
    /\ ln.size = Size(T)
    /\ IF T = {} THEN ln.min[2] = 1 /\ ln.max[2] = 1 /\ ln.end[2] = 1
       ELSE /\ ln.min[1] = SetMin(T)
            /\ ln.max[1] = SetMax(T) + 1                 \* logged as de-embedded (max + 1)
            /\ ln.end[1] = SetMax(T) + 1
    /\ \A i \in DOMAIN ln.pq :                           \* point queries <<cell, contains, rs, re, z>>
          LET q == ln.pq[i] IN
          IF q[1] \in T
          THEN q[2] = 1 /\ <<q[3], q[4]>> = RunIn(canon, q[1])
          ELSE q[2] = 0 /\ q[5] = 1
    /\ \A i \in DOMAIN ln.iq :                           \* isrange queries <<a, b, answer>>, a < b
          LET q == ln.iq[i] IN
          q[1] < q[2] /\ (q[3] = 1) = IsRange(T, q[1], q[2])
    /\ (ln.z00 = 1) = (T = {})                           \* isrange(0, 0), literal

TOp ==
    /\ Line.e \in {"add", "sub"}
    /\ Line.a \in Bounds /\ Line.b \in Bounds /\ Line.a <= Line.b
    /\ IF Line.e = "add" THEN Add(Line.a, Line.b) ELSE Sub(Line.a, Line.b)
    /\ Conforms(Line, S')

TNext ==
    /\ l <= Meta.ends[cur]
    /\ l' = l + 1 /\ cur' = cur
    /\ TOp

TSpec == TInit /\ [][TNext]_tvars

Mark == HighWater(cur, l)
=============================================================================
