SPECIFICATION GSpec
CONSTANTS
  MaxOff = 5
  MaxLen = 2
  MaxWin = 5
  Back = 1
  Ahead = 1
  GenDepth = 3
  Rnd = 0
INVARIANT Emit
CHECK_DEADLOCK FALSE
