SPECIFICATION CSpec
CONSTANTS
  MaxOff = 7
  MaxLen = 4
  MaxWin = 6
  Back = 2
  C = 3
  MaxWrites = 4
INVARIANTS ChainOK ReadsOK PeeksOK
PROPERTIES Refines RefWrite RefAppend RefDiscard Monotone Stable
CHECK_DEADLOCK FALSE
