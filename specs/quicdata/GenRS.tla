-------------------------------- MODULE GenRS --------------------------------
(* Case generator for C24.  Two kinds of CASE items, together the complete         *)
(* transition table and the complete query table of the data structure:           *)
(*   edge  (op = "add"/"sub"): one per (S, op, a, b), a <= b, with the canonical   *)
(*          ranges of the set S' the operation must produce;                      *)
(*   state (op = "q"): one per set S, with the answer to every query on S.         *)
(* The representation is a function of the set (RangeSet!UniqueRep), so a result   *)
(* whose ranges equal Canon(S') answers queries exactly as the state item of S'    *)
(* says; the driver checks ranges on edges and every query on states.             *)
(*                                                                               *)
(* Predicted values are tagged so that the driver can place them under any       *)
(* order-preserving embedding e(k) = base + unit*k without knowing what they     *)
(* mean:  <<0,v>> literal v;  <<1,k>> the coordinate e(k);  <<2,k>> e(k) - 1;    *)
(* <<3,n>> n*unit (a size).                                                      *)
EXTENDS RangeSet, TLC, Json, SequencesExt

VARIABLES op, arg
gvars == <<S, op, arg>>

GInit == /\ S \in SUBSET Cells
         /\ \/ op \in {"add", "sub"} /\ arg \in Pairs
            \/ op = "q" /\ arg = <<0, 0>>
GNext == UNCHANGED gvars
GSpec == GInit /\ [][GNext]_gvars

Result == IF op = "add" THEN S \cup Span(arg[1], arg[2])
          ELSE IF op = "sub" THEN S \ Span(arg[1], arg[2])
          ELSE S

Zero == <<0, 0>>

\* point queries at -1 .. N (index i is point i - 2): <<contains (0/1), tag, start, end>> where
\* (start, end) is the range containing the point: coordinates (tag 1) or the literal [0,0) (tag 0)
Pts(T, canon) ==
    [i \in 1 .. (N + 2) |->
        LET v == i - 2 IN
        IF Contains(T, v)
        THEN LET r == RunIn(canon, v) IN <<1, 1, r[1], r[2]>>        \* = RunOf(T, v), see CanonIsRuns
        ELSE <<0, 0, 0, 0>>]

Q(T, canon) ==
        [min  |-> IF T = {} THEN Zero ELSE <<1, SetMin(T)>>,
         max  |-> IF T = {} THEN Zero ELSE <<2, SetMax(T) + 1>>,
         end  |-> IF T = {} THEN Zero ELSE <<1, SetMax(T) + 1>>,
         size |-> <<3, Size(T)>>,
         n    |-> NumRanges(T),
         pts  |-> Pts(T, canon),
         \* isrange: the pairs a < b for which the answer is TRUE; pairs with a = b are judged
         \* (answer FALSE) only when T is not empty (ire = FALSE); ir00 is the answer for the literal (0,0)
         irt  |-> SetToSeq({p \in Pairs : p[1] < p[2] /\ IsRange(T, p[1], p[2])}),
         ire  |-> (T = {}),
         ir00 |-> (T = {})]

\* scenario class (used to group reports and to name findings)
Class == IF op = "q" THEN "query"
         ELSE IF arg[1] < arg[2] THEN op \o ";range"
         ELSE IF arg[1] \in S /\ (arg[1] - 1) \in S THEN op \o ";empty-range-inside"
         ELSE op \o ";empty-range-edge-or-outside"

Case == IF op = "q"
        THEN LET cs == Canon(S) IN
             [s |-> cs, op |-> op, a |-> 0, b |-> 0, cls |-> Class, r |-> cs, q |-> Q(S, cs)]
        ELSE [s |-> Canon(S), op |-> op, a |-> arg[1], b |-> arg[2], cls |-> Class, r |-> Canon(Result)]

Emit == PrintT(<<"CASE", ToJson(Case)>>)
=============================================================================
