# Family hooks for quicdata (C24 rangeset, C30 pipe): scenario-class signatures.
#
# A signature names the *class* of failing scenario, so that a known finding suppresses only
# that class.  For C24 the class of an edge comes from the specification (GenRS.tla, Class);
# for recorded traces it is recomputed from the failing line and the ranges logged before it.


def _inside(ranges, a):
    return any(r[0] < a < r[1] for r in ranges or [])


def signature(prop, kind, scenario, detail):
    what = (detail.get("what") or "").split(" ")[0]
    if prop == "C24":
        if kind == "replay" and isinstance(scenario, dict):
            cls = scenario.get("cls", "?")
            if cls == "sub;empty-range-inside":
                return "rangeset.sub;empty-range-inside"
            return "rangeset.%s;%s" % (cls, what)
        if kind == "trace" and isinstance(scenario, dict):
            lines = scenario.get("lines") or []
            if not lines:
                return None
            last = lines[-1]
            op = last.get("e", "?")
            if op not in ("add", "sub"):
                return "rangeset.trace;%s" % op
            a, b = last.get("a"), last.get("b")
            prev = lines[-2].get("r") if len(lines) >= 2 and lines[-2].get("e") in ("add", "sub") else []
            if a == b:
                where = "empty-range-inside" if _inside(prev, a) else "empty-range-edge-or-outside"
                if op == "sub" and where == "empty-range-inside":
                    return "rangeset.sub;empty-range-inside"
                return "rangeset.trace;%s;%s" % (op, where)
            return "rangeset.trace;%s;range" % op
    if prop == "C30" and kind == "replay" and isinstance(scenario, list):
        step = detail.get("step")
        op = scenario[step].get("op", "?") if isinstance(step, int) and 0 <= step < len(scenario) else "?"
        return "pipe;%s;after-op=%s" % (what, op)
    return None
