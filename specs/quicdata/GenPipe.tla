------------------------------- MODULE GenPipe -------------------------------
(* Behaviour generator for C30: histories of Pipe with, after every step, the     *)
(* window and its content as the specification predicts them (win[i] = id of the  *)
(* write that owns offset st + i - 1, 0 = never written).  The driver replays     *)
(* each history on real pipes and compares start, end and every read/copy/peek    *)
(* against these predictions.                                                    *)
(*   bfs mode      : every history up to GenDepth steps (small constants)         *)
(*   simulate mode : random walks of GenDepth steps (sliding window, many chunks) *)
EXTENDS Pipe, TLC, Json

CONSTANTS GenDepth,
          Ahead,     \* discardBefore goes at most this far beyond end
          Rnd        \* 0: quantify over all arguments (bfs); k > 0: simulate mode, arguments are
                     \* drawn with RandomElement (seeded by -seed): k write candidates, 2 append
                     \* candidates and 1 discard candidate per step instead of every combination

VARIABLES hist, done
gvars == <<pvars, hist, done>>

GInit == Init /\ hist = <<>> /\ done = FALSE

After == [st |-> start', en |-> end', win |-> buf']

Rec(r) == hist' = Append(hist, r @@ After)

Pick(T) == IF Rnd = 0 THEN T ELSE {RandomElement(T)}
Reps(k) == IF Rnd = 0 THEN {1} ELSE 1 .. k

Step ==
    \/ \E rep \in Reps(Rnd) :
       \E off \in Pick(Max2(0, start - Back) .. Min2(MaxOff, start + MaxWin)), n \in Pick(0 .. MaxLen) :
          WriteAt(off, n) /\ Rec([op |-> "w", off |-> off, n |-> n, id |-> nid])
    \/ \E rep \in Reps(2) : \E n \in Pick(1 .. MaxLen) :
          AppendEnd(n) /\ Rec([op |-> "a", off |-> end, n |-> n, id |-> nid])
    \/ \E off \in Pick(start .. Min2(MaxOff, end + Ahead)) :
          DiscardBefore(off) /\ Rec([op |-> "d", off |-> off, n |-> 0, id |-> 0])

GNext ==
    /\ ~done
    /\ IF Len(hist) >= GenDepth
       THEN done' = TRUE /\ UNCHANGED <<pvars, hist>>
       ELSE done' = FALSE /\ Step

GSpec == GInit /\ [][GNext]_gvars

Emit == ~done \/ PrintT(<<"BEH", ToJson(hist)>>)
=============================================================================
