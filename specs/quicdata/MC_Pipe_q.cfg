SPECIFICATION CSpec
CONSTANTS
  MaxOff = 5
  MaxLen = 3
  MaxWin = 4
  Back = 1
  C = 2
  MaxWrites = 3
INVARIANTS ChainOK ReadsOK PeeksOK
PROPERTIES Refines RefWrite RefAppend RefDiscard Monotone Stable
CHECK_DEADLOCK FALSE
