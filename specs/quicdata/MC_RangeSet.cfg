SPECIFICATION Spec
CONSTANTS
  N = 8
INVARIANTS TypeOK CanonDenotes CanonWellFormed CanonLen CanonIsRuns UniqueRep QueriesConsistent
CHECK_DEADLOCK FALSE
