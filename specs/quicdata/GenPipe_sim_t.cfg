SPECIFICATION GSpec
CONSTANTS
  MaxOff = 900
  MaxLen = 9
  MaxWin = 14
  Back = 3
  Ahead = 2
  GenDepth = 220
  Rnd = 6
INVARIANT Emit
CHECK_DEADLOCK FALSE
