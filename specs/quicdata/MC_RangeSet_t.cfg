SPECIFICATION Spec
CONSTANTS
  N = 10
INVARIANTS TypeOK CanonDenotes CanonWellFormed CanonLen CanonIsRuns UniqueRep QueriesConsistent
CHECK_DEADLOCK FALSE
