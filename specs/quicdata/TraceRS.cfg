SPECIFICATION TSpec
CONSTANTS
  N = 64
CONSTRAINT Mark
POSTCONDITION AllConsumed
CHECK_DEADLOCK FALSE
