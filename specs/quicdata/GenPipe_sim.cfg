SPECIFICATION GSpec
CONSTANTS
  MaxOff = 600
  MaxLen = 9
  MaxWin = 14
  Back = 3
  Ahead = 2
  GenDepth = 150
  Rnd = 6
INVARIANT Emit
CHECK_DEADLOCK FALSE
