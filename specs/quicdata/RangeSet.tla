------------------------------ MODULE RangeSet ------------------------------
(* C24 -- QUIC range sets behave exactly like integer sets.                      *)
(*                                                                               *)
(* The abstract state is a plain set S of integers (cells 0..N-1).  add(a,b) and  *)
(* sub(a,b) take a half-open range [a,b) with a <= b; the empty range a = b is a   *)
(* legal argument and a no-op.  Everything rangeset.go can be asked is defined    *)
(* here as a function of S alone; Canon(S) (the maximal runs of S, ascending) is   *)
(* the only list of ranges that denotes S and is sorted, non-empty, pairwise       *)
(* disjoint and non-adjacent, so the implementation's representation is a          *)
(* function of S as well.  That is what makes the TLC graph of this module the     *)
(* complete transition table of the data structure.                               *)
EXTENDS Integers, Sequences, FiniteSets

CONSTANT N                  \* cells are 0..N-1, range bounds 0..N

VARIABLE S

Cells  == 0 .. (N - 1)
Bounds == 0 .. N
Pairs  == {p \in Bounds \X Bounds : p[1] <= p[2]}

Span(a, b) == a .. (b - 1)        \* the cells of [a,b); empty for a = b

-----------------------------------------------------------------------------
(* Representation: maximal runs.                                                 *)

RunStarts(T) == {a \in T : (a - 1) \notin T}
RunEndOf(T, a) == CHOOSE e \in (a + 1) .. (N + 1) :
                      /\ e \notin T
                      /\ \A k \in a .. (e - 1) : k \in T
Runs(T) == {<<a, RunEndOf(T, a)>> : a \in RunStarts(T)}

\* Canon(T): the maximal runs in ascending order, computed by one left-to-right scan
\* (open = start of the run being scanned, or -1).  TLC checks CanonIsRuns below: this is
\* exactly the set Runs(T), sorted.
RECURSIVE Scan(_, _, _, _)
Scan(T, k, open, acc) ==
    IF k > N THEN acc                                   \* N is never a member, so every run is closed by then
    ELSE IF k \in T THEN Scan(T, k + 1, IF open < 0 THEN k ELSE open, acc)
    ELSE Scan(T, k + 1, 0 - 1, IF open >= 0 THEN Append(acc, <<open, k>>) ELSE acc)

Canon(T) == Scan(T, 0, 0 - 1, <<>>)

\* the range of the list rs that holds v (v must be covered)
RunIn(rs, v) == rs[CHOOSE i \in DOMAIN rs : rs[i][1] <= v /\ v < rs[i][2]]

\* the set a list of ranges denotes
Denote(rs) == UNION {Span(rs[i][1], rs[i][2]) : i \in DOMAIN rs}

\* the four representation invariants of the property text
WellFormed(rs) ==
    /\ \A i \in DOMAIN rs : rs[i][1] < rs[i][2]                          \* non-empty
    /\ \A i \in DOMAIN rs : i > 1 => rs[i - 1][2] < rs[i][1]             \* sorted, disjoint, non-adjacent

-----------------------------------------------------------------------------
(* Queries, as functions of the set.  The defaults for the empty set / a value    *)
(* that is not a member are the documented ones of rangeset.go (0, [0,0)); they    *)
(* are absolute literals, not coordinates.                                       *)

SetMin(T) == CHOOSE m \in T : \A k \in T : m <= k
SetMax(T) == CHOOSE m \in T : \A k \in T : m >= k

Contains(T, v)  == v \in T
NumRanges(T)    == Cardinality(RunStarts(T))
Size(T)         == Cardinality(T)
\* the run of T that holds v (v \in T)
RunOf(T, v)     == CHOOSE r \in Runs(T) : r[1] <= v /\ v < r[2]
\* T is exactly [a,b), a < b.  (For a = b the code answers TRUE only for the literal
\* pair (0,0) on the empty set; Gen/Trace judge that case and nothing else with a = b
\* on the empty set -- see README.)
IsRange(T, a, b) == T = Span(a, b)

-----------------------------------------------------------------------------
(* Actions.                                                                      *)

Add(a, b) == S' = S \cup Span(a, b)
Sub(a, b) == S' = S \ Span(a, b)

Init == S = {}
Next == \E p \in Pairs : Add(p[1], p[2]) \/ Sub(p[1], p[2])
Spec == Init /\ [][Next]_S

-----------------------------------------------------------------------------
(* Checked by TLC on the whole graph: the representation theorem the replay      *)
(* relies on, and consistency of the query definitions.                          *)

TypeOK == S \subseteq Cells

CanonDenotes    == Denote(Canon(S)) = S
CanonWellFormed == WellFormed(Canon(S))
CanonLen        == Len(Canon(S)) = NumRanges(S)
CanonIsRuns     == /\ {Canon(S)[i] : i \in DOMAIN Canon(S)} = Runs(S)
                   /\ \A v \in S : RunIn(Canon(S), v) = RunOf(S, v)

\* Every well-formed list of ranges over the universe is a strictly increasing sequence of
\* bounds s1 < e1 < s2 < e2 < ..., i.e. an even-sized subset of Bounds.  Among all of them
\* only Canon(S) denotes S: the representation is a function of the set.
RECURSIVE PairUp(_)
PairUp(B) == IF B = {} THEN <<>>
             ELSE LET a == CHOOSE x \in B : \A y \in B : x <= y
                      b == CHOOSE x \in B \ {a} : \A y \in B \ {a} : x <= y
                  IN  <<<<a, b>>>> \o PairUp(B \ {a, b})
UniqueRep ==
    \A B \in SUBSET Bounds :
        (Cardinality(B) % 2 = 0) =>
            LET rs == PairUp(B) IN
            /\ WellFormed(rs)
            /\ (Denote(rs) = S) => (rs = Canon(S))

QueriesConsistent ==
    /\ S # {} => /\ SetMin(S) = Canon(S)[1][1]
                 /\ SetMax(S) + 1 = Canon(S)[Len(Canon(S))][2]
    /\ \A v \in S : LET r == RunOf(S, v) IN
                      /\ \E i \in DOMAIN Canon(S) : Canon(S)[i] = r
                      /\ Span(r[1], r[2]) \subseteq S
    /\ \A p \in Pairs : (p[1] < p[2] /\ IsRange(S, p[1], p[2])) => Canon(S) = <<p>>
    /\ Size(S) = Cardinality(Denote(Canon(S)))

=============================================================================
