SPECIFICATION GSpec
CONSTANTS
  N = 8
INVARIANT Emit
CHECK_DEADLOCK FALSE
