SPECIFICATION GSpec
CONSTANTS
  N = 10
INVARIANT Emit
CHECK_DEADLOCK FALSE
