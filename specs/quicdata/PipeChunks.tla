----------------------------- MODULE PipeChunks -----------------------------
(* Design-level check for C30: the chunked algorithm of quic/pipe.go (a chain of  *)
(* fixed-size buffers head..tail, writes that start at the tail when they can,    *)
(* trimming before start, discardBefore keeping a head whose end equals the new    *)
(* start) implements the abstract buffer of module Pipe.  TLC checks the           *)
(* refinement PipeChunks => Pipe!Spec and that read / peek / availableBuffer       *)
(* return what Pipe allows and never index outside a chunk.                       *)
(*                                                                               *)
(* This module is a transcription of the algorithm and is NOT what the real code  *)
(* is judged against (that is Pipe, through Gen); it is here so that the abstract *)
(* spec is known to be implementable by the chunk scheme at every chunk size C.   *)
EXTENDS Integers, Sequences

CONSTANTS MaxOff, MaxLen, MaxWin, Back,
          C,          \* chunk size in cells
          MaxWrites   \* bound on the number of writes (ids) in a behaviour

VARIABLES pstart, pend, chain, nid
cvars == <<pstart, pend, chain, nid>>

Stale == 0 - 1           \* what a buffer from the pool holds (old bytes of anybody)
Undef == 0
PanicSeq == <<0 - 99>>   \* stands for "the Go code would panic here"
Max2(a, b) == IF a > b THEN a ELSE b
Min2(a, b) == IF a < b THEN a ELSE b

NewBuf(off) == [off |-> off, b |-> [j \in 1 .. C |-> Stale]]
BufEnd(pb) == pb.off + C

CInit == pstart = 0 /\ pend = 0 /\ chain = <<>> /\ nid = 1

-----------------------------------------------------------------------------
(* writeAt: the copy loop of pipe.writeAt, started at index i.                    *)
RECURSIVE Walk(_, _, _, _, _)
Walk(ch, i, off, n, id) ==
    LET pb    == ch[i]
        pboff == off - pb.off
        next(c2, o2, n2) ==
            IF i = Len(c2) THEN Walk(Append(c2, NewBuf(c2[i].off + C)), i + 1, o2, n2, id)
                           ELSE Walk(c2, i + 1, o2, n2, id)
    IN  IF pboff < 0 THEN <<NewBuf(0 - 99)>>       \* pb.b[pboff:] would panic in Go; violates ChainOK
        ELSE IF pboff < C
        THEN LET m  == Min2(C - pboff, n)
                 c2 == [ch EXCEPT ![i].b = [j \in 1 .. C |->
                              IF j - 1 >= pboff /\ j - 1 < pboff + m THEN id ELSE @[j]]]
             IN  IF m = n THEN c2 ELSE next(c2, off + m, n - m)
        ELSE next(ch, off, n)

CWriteAt(off, n) ==
    /\ off \in 0 .. MaxOff /\ n \in 0 .. MaxLen /\ off + n <= MaxOff
    /\ off >= pstart - Back
    /\ Max2(pend, off + n) - pstart <= MaxWin
    /\ nid <= MaxWrites
    /\ nid' = nid + 1
    /\ pstart' = pstart
    /\ LET e == off + n IN
       IF e <= pend /\ e <= pstart
       THEN UNCHANGED <<pend, chain>>                       \* early return
       ELSE /\ pend' = Max2(pend, e)
            /\ LET off2 == Max2(off, pstart)                \* trim
                   n2   == e - off2
                   ch1  == IF chain = <<>> THEN <<NewBuf(pstart)>> ELSE chain
                   i0   == IF off2 >= ch1[Len(ch1)].off THEN Len(ch1) ELSE 1
               IN  chain' = Walk(ch1, i0, off2, n2, nid)

(* the stream's fast path: bytes stored into availableBuffer(), then end moved    *)
AvailLen == IF chain = <<>> THEN 0 ELSE C - (pend - chain[Len(chain)].off)

CFastAppend(n) ==
    /\ n \in 1 .. MaxLen /\ pend + n <= MaxOff /\ pend + n - pstart <= MaxWin
    /\ nid <= MaxWrites
    /\ n <= AvailLen
    /\ LET t == Len(chain)
           o == pend - chain[t].off
       IN  chain' = [chain EXCEPT ![t].b = [j \in 1 .. C |->
                        IF j - 1 >= o /\ j - 1 < o + n THEN nid ELSE @[j]]]
    /\ pend' = pend + n
    /\ nid' = nid + 1
    /\ pstart' = pstart

RECURSIVE DropHeads(_, _)
DropHeads(ch, off) == IF ch # <<>> /\ BufEnd(ch[1]) < off THEN DropHeads(Tail(ch), off) ELSE ch

CDiscardBefore(off) ==
    /\ off \in pstart .. MaxOff
    /\ chain' = DropHeads(chain, off)
    /\ pstart' = off
    /\ pend' = Max2(pend, off)
    /\ UNCHANGED nid

CNext == \/ \E off \in 0 .. MaxOff, n \in 0 .. MaxLen : CWriteAt(off, n)
         \/ \E n \in 1 .. MaxLen : CFastAppend(n)
         \/ \E off \in 0 .. MaxOff : CDiscardBefore(off)

CSpec == CInit /\ [][CNext]_cvars

-----------------------------------------------------------------------------
(* Observers of the chunk chain, as the code computes them.                       *)

\* read(off, n, f): concatenation of the pieces handed to f; PanicSeq if it would panic
RECURSIVE ReadFrom(_, _, _, _)
ReadFrom(i, off, n, acc) ==
    IF i > Len(chain) \/ n <= 0 THEN (IF n > 0 THEN PanicSeq ELSE acc)
    ELSE LET pb == chain[i] IN
         IF off >= BufEnd(pb) THEN ReadFrom(i + 1, off, n, acc)
         ELSE IF off < pb.off THEN PanicSeq
         ELSE LET avail == BufEnd(pb) - off
                  m     == Min2(avail, n)
                  piece == [j \in 1 .. m |-> pb.b[off - pb.off + j]]
              IN  ReadFrom(i + 1, off + m, n - m, acc \o piece)
CRead(off, n) == ReadFrom(1, off, n, <<>>)

\* peek(n)
CPeek(n) == IF chain = <<>> THEN <<>>
            ELSE LET pb == chain[1]
                     o  == pstart - pb.off
                 IN  IF o < 0 \/ o > C THEN PanicSeq
                     ELSE [j \in 1 .. Min2(C - o, n) |-> pb.b[o + j]]

-----------------------------------------------------------------------------
(* Refinement mapping and properties.                                            *)

HasCell(k) == \E i \in DOMAIN chain : chain[i].off <= k /\ k < BufEnd(chain[i])
CellAt(k) == LET i == CHOOSE i \in DOMAIN chain : chain[i].off <= k /\ k < BufEnd(chain[i])
             IN  chain[i].b[k - chain[i].off + 1]
AbsBuf == [i \in 1 .. (pend - pstart) |->
             LET k == pstart + i - 1 IN
             IF HasCell(k) /\ CellAt(k) # Stale THEN CellAt(k) ELSE Undef]

P == INSTANCE Pipe WITH start <- pstart, buf <- AbsBuf
Refines  == P!Spec
\* ... and action by action with the same arguments (P!Spec alone would let a lost write pass
\* as a zero-length write)
RefWrite   == [][\A off \in 0 .. MaxOff, n \in 0 .. MaxLen : CWriteAt(off, n) => P!WriteAt(off, n)]_cvars
RefAppend  == [][\A n \in 1 .. MaxLen : CFastAppend(n) => P!AppendEnd(n)]_cvars
RefDiscard == [][\A off \in 0 .. MaxOff : CDiscardBefore(off) => P!DiscardBefore(off)]_cvars
Monotone == P!Monotone
Stable   == P!Stable

ChainOK ==
    /\ \A i \in DOMAIN chain : i > 1 => chain[i].off = BufEnd(chain[i - 1])       \* contiguous
    /\ chain # <<>> => /\ chain[1].off <= pstart /\ BufEnd(chain[1]) >= pstart
                       /\ chain[Len(chain)].off <= pend /\ BufEnd(chain[Len(chain)]) >= pend
    /\ pstart <= pend
    /\ \A k \in pstart .. (pend - 1) : HasCell(k)                               \* the window is backed
    /\ AvailLen >= 0 /\ AvailLen <= C

\* read returns exactly the abstract content wherever it is defined, for every legal range
ReadsOK ==
    \A off \in pstart .. pend : \A n \in 0 .. (pend - off) :
        LET r == CRead(off, n) IN
        /\ r # PanicSeq
        /\ P!ReadAllows(off, n, [i \in 1 .. Len(r) |-> IF r[i] = Stale THEN Undef ELSE r[i]])

PeeksOK ==
    \A n \in 0 .. (pend - pstart) :
        LET r == CPeek(n) IN
        /\ r # PanicSeq
        /\ P!PeekAllows(n, [i \in 1 .. Len(r) |-> IF r[i] = Stale THEN Undef ELSE r[i]])
=============================================================================
