-------------------------------- MODULE Pipe --------------------------------
(* C30 -- QUIC stream buffers store exactly the bytes written.                   *)
(*                                                                               *)
(* The abstract buffer is a window [start, end) of stream offsets and a map from  *)
(* each offset of the window to the *write* that most recently stored a byte      *)
(* there (a write id), or Undef for offsets the window was extended over without  *)
(* anything being written (their bytes are whatever a recycled chunk held; they   *)
(* are never compared).  How the implementation cuts the window into fixed-size   *)
(* chunks is invisible here: that is the point of the property.                  *)
(*                                                                               *)
(* Offsets are "cells"; the driver maps a cell to one byte (small chunks) or to   *)
(* about a thousand bytes (real 4096-byte chunks), see README.                   *)
EXTENDS Integers, Sequences

CONSTANTS MaxOff,     \* offsets are 0..MaxOff
          MaxLen,     \* longest single write
          MaxWin,     \* writes keep end - start <= MaxWin (bounds the model, not the code)
          Back        \* how far before start a write may begin (trimmed prefix)

VARIABLES start,      \* stream offset of the first byte of the window
          buf,        \* buf[i] = id of the write that owns offset start + i - 1, or Undef
          nid         \* id of the next write (ghost)
pvars == <<start, buf, nid>>

Undef == 0
Max2(a, b) == IF a > b THEN a ELSE b
Min2(a, b) == IF a < b THEN a ELSE b

end == start + Len(buf)                      \* offset just past the window
At(k) == buf[k - start + 1]                  \* owner of offset k, start <= k < end

TypeOK == /\ start \in 0 .. MaxOff /\ end <= MaxOff
          /\ buf \in Seq(Nat)
          /\ nid \in Nat \ {0}

Init == start = 0 /\ buf = <<>> /\ nid = 1

(* writeAt(b, off) with len(b) = n: bytes before start are dropped, the window     *)
(* grows to cover the write, offsets between the old end and the write stay Undef. *)
WriteEffect(off, n) ==
    LET e  == off + n
        ne == Max2(end, e)
    IN
    /\ start' = start
    /\ buf' = [i \in 1 .. (ne - start) |->
                 LET k == start + i - 1 IN
                 IF k >= off /\ k < e THEN nid
                 ELSE IF i <= Len(buf) THEN buf[i] ELSE Undef]
    /\ nid' = nid + 1

WriteAt(off, n) ==
    /\ off \in 0 .. MaxOff /\ n \in 0 .. MaxLen /\ off + n <= MaxOff
    /\ off >= start - Back
    /\ Max2(end, off + n) - start <= MaxWin
    /\ WriteEffect(off, n)

(* Appending at the end of the window: Stream.Write does it with writeAt(b, end)   *)
(* or, when the bytes fit, by storing them into availableBuffer() and moving end.  *)
(* Both must have the effect of a write at end.                                   *)
AppendEnd(n) ==
    /\ n \in 1 .. MaxLen /\ end + n <= MaxOff /\ end + n - start <= MaxWin
    /\ WriteEffect(end, n)

(* discardBefore(off), off >= start (callers never move the start backwards; off    *)
(* may lie beyond end: the crypto stream skips data it consumed without storing).  *)
DiscardBefore(off) ==
    /\ off \in start .. MaxOff
    /\ start' = off
    /\ buf' = IF off >= end THEN <<>> ELSE SubSeq(buf, off - start + 1, Len(buf))
    /\ UNCHANGED nid

Next == \/ \E off \in 0 .. MaxOff, n \in 0 .. MaxLen : WriteAt(off, n)
        \/ \E n \in 1 .. MaxLen : AppendEnd(n)
        \/ \E off \in 0 .. MaxOff : DiscardBefore(off)

Spec == Init /\ [][Next]_pvars

-----------------------------------------------------------------------------
(* Observers.                                                                    *)

\* read(off, n, f) / copy(off, b): defined for start <= off, off + n <= end
CanRead(off, n) == start <= off /\ off + n <= end /\ n >= 0
ReadResult(off, n) == [i \in 1 .. n |-> At(off + i - 1)]

\* peek(n), n <= end - start: some prefix (possibly empty) of the bytes at start
CanPeek(n) == n >= 0 /\ n <= end - start
PeekAllows(n, res) == /\ Len(res) <= n
                      /\ \A i \in 1 .. Len(res) : buf[i] = Undef \/ res[i] = buf[i]

\* a logged read result conforms when it agrees on every defined offset
ReadAllows(off, n, res) ==
    /\ Len(res) = n
    /\ \A i \in 1 .. n : At(off + i - 1) = Undef \/ res[i] = At(off + i - 1)

-----------------------------------------------------------------------------
(* Properties of the abstract buffer (checked together with the refinement in     *)
(* MC_Pipe*.cfg through the instance in PipeChunks).                             *)

\* the start never moves backwards, the end never shrinks: discarded bytes never reappear
Monotone == [][start' >= start /\ end' >= end]_pvars

\* discarding changes no byte that stays in the window; a write changes only offsets it
\* covers, and those become its own id
Stable == [][\A k \in start' .. (end - 1) :
                At(k)' # At(k) => (At(k)' = nid /\ nid' = nid + 1)]_pvars
=============================================================================
