----------------------------- MODULE PunyCases -----------------------------
(* Case generator for the Punycode part of C50 (exhaustive enumeration, TLC BFS).   *)
(* Every state is one case: a label (sequence of code points) to encode, an encoded *)
(* string to decode, or a long label that drives the encoder into its overflow      *)
(* test.  The invariant checks the inverse laws of Punycode.tla on the case and     *)
(* prints it with the outputs the specification predicts; the Go driver runs every  *)
(* case on encode / decode and on Profile.ToASCII / ToUnicode.                      *)
EXTENDS IdnaLaws, TLC, Json

CONSTANTS LabelAlpha,   \* code points of the labels to encode
          MaxLabel,     \* their maximal length
          PayAlpha,     \* code points of the strings to decode
          MaxPay,       \* their maximal length
          LongPre,      \* the longer strings to decode (overflow tests, code point range): this many
          LongAlpha,    \* '9' digits followed by LongMin..LongMax digits over LongAlpha
          LongMin, LongMax,
          Reps,         \* numbers of leading basic code points of the long labels
          BigCPs,       \* their single non-basic code point

          MaxLawLabels  \* domains of the consistency check have at most this many labels

VARIABLE c

\* labels of the consistency check of IdnaLaws (RefConsistent): plain, upper case, a U-label,
\* mixed, its A-label in both digit cases, "xn--" with an empty, ASCII-only, invalid and
\* non-basic payload, the empty label
LawLabels == {<<97>>, <<65, 98>>, <<252>>, <<97, 223, 20013>>, <<>>,
              AcePrefix \o <<116, 100, 97>>, AcePrefix \o <<84, 68, 65>>,
              AcePrefix, AcePrefix \o <<97, 45>>, AcePrefix \o <<45>>, AcePrefix \o <<57>>,
              AcePrefix \o <<252, 45>>}

\* encodings of single code points around the surrogate range and the top of the code space
\* (Enc is arithmetic on integers, so it also yields the strings that WOULD encode a surrogate
\* or a value past U+10FFFF; the decoder has to refuse those)
EdgeCPs  == {55295, 55296, 56319, 56320, 57343, 57344, 65533, 1114111, 1114112, 2000000}
EdgePays == {Enc(<<cp>>).s : cp \in EdgeCPs} \cup {Enc(<<97, cp, 98>>).s : cp \in EdgeCPs}

RECURSIVE SeqsOfLen(_, _)
SeqsOfLen(A, n) == IF n = 0 THEN {<<>>} ELSE {Append(s, x) : s \in SeqsOfLen(A, n - 1), x \in A}
SeqsUpTo(A, n)  == UNION {SeqsOfLen(A, k) : k \in 0..n}

Cases ==
    [k : {"enc"}, u : SeqsUpTo(LabelAlpha, MaxLabel)]
    \cup [k : {"dec"}, a : SeqsUpTo(PayAlpha, MaxPay)]
    \cup [k : {"dec"}, a : {[i \in 1..LongPre |-> 57] \o t : t \in UNION {SeqsOfLen(LongAlpha, n) : n \in LongMin..LongMax}}]
    \cup [k : {"dec"}, a : EdgePays]
    \cup [k : {"encl"}, rep : Reps, cp : BigCPs]
    \cup [k : {"law"}, x : {Join(ls) : ls \in UNION {SeqsOfLen(LawLabels, n) : n \in 1..MaxLawLabels}}]

\* Two levels so that TLC's workers share the enumeration.
NGroups == 16
Sum(s) == LET RECURSIVE F(_) F(i) == IF i > Len(s) THEN 0 ELSE (s[i] % 7) * i + F(i + 1) IN F(1)
Group(x) == CASE x.k = "enc" -> Sum(x.u) % NGroups
              [] x.k = "dec" -> Sum(x.a) % NGroups
              [] x.k = "law" -> Sum(x.x) % NGroups
              [] OTHER -> 0
Init == c \in [k : {"grp"}, g : 0..(NGroups - 1)]
Next == c.k = "grp" /\ c' \in {x \in Cases : Group(x) = c.g}
Spec == Init /\ [][Next]_c

LongLabel(rep, cp) == [i \in 1..rep |-> 97] \o <<cp>>

Out ==
    CASE c.k = "enc"  -> LET e == Enc(c.u) IN [k |-> "enc", u |-> c.u, ok |-> e.ok, s |-> e.s]
      [] c.k = "dec"  -> LET d == Dec(c.a) IN [k |-> "dec", a |-> c.a, ok |-> d.ok, u |-> d.u, cls |-> PayloadClass(c.a)]
      [] c.k = "encl" -> LET e == Enc(LongLabel(c.rep, c.cp)) IN
                         \* the output is rep basic code points, the delimiter, then these digits
                         [k |-> "encl", rep |-> c.rep, cp |-> c.cp, ok |-> e.ok,
                          s |-> IF e.ok THEN SubSeq(e.s, c.rep + 2, Len(e.s)) ELSE <<>>]
      [] c.k = "law"  -> [k |-> "law", x |-> c.x, reject |-> MustReject(c.x, FALSE), rejectm |-> MustReject(c.x, TRUE),
                          classes |-> BadClasses(c.x, FALSE), classesm |-> BadClasses(c.x, TRUE)]

Lemmas ==
    CASE c.k = "enc"  -> IsText(c.u) /\ Enc(c.u).ok /\ RoundTripEnc(c.u)
      [] c.k = "dec"  -> RoundTripDec(c.a)
      [] c.k = "encl" -> LET e == Enc(LongLabel(c.rep, c.cp)) IN
                         e.ok => SubSeq(e.s, 1, c.rep + 1) = [i \in 1..(c.rep + 1) |-> IF i <= c.rep THEN 97 ELSE Delim]
      [] c.k = "law"  -> RefConsistent(c.x)

Inv == c.k = "grp" \/ (Lemmas /\ PrintT(<<"CASE", ToJson(Out)>>))
=============================================================================
