SPECIFICATION TSpec
CONSTRAINT Mark
POSTCONDITION AllConsumed
CHECK_DEADLOCK FALSE
INVARIANTS
  RejectAsciiOnly
  RejectEmpty
  RejectInvalid
  RejectNonBasic
  RejectSurrogate
  Idempotent
  ViaUnicode
  CanonicalOutput
