------------------------------- MODULE Trace -------------------------------
(* Trace validation for C50.  One trace = one (domain, profile) pair observed on the *)
(* real package: a header line with the input and a result line with                 *)
(* ToASCII(x), ToASCII(ToASCII(x)), ToUnicode(x), ToASCII(ToUnicode(x)).  The step   *)
(* that consumes the result line evaluates the laws of IdnaLaws.tla on the tuple and *)
(* stores the verdicts in v; the invariants of Trace_C50.cfg read v (one invariant   *)
(* per law and per class of offending "xn--" payload, so that a rejected trace names *)
(* what failed).                                                                     *)
EXTENDS IdnaLaws, TraceIO

VARIABLES cur, l, v
tvars == <<cur, l, v>>

Line == Trace[l]

IsCPs(s) == \A i \in 1..Len(s) : s[i] \in 0..MaxCP

Pending == [done |-> FALSE, ea |-> TRUE, bad |-> {}, idem |-> TRUE, uni |-> TRUE, canon |-> TRUE]

TInit ==
    \E t \in 1..NT :
       LET h == Trace[Meta.starts[t]] IN
       /\ cur = t /\ l = Meta.starts[t] + 1 /\ v = Pending
       /\ h.e = "q" /\ IsCPs(h.x) /\ h.maps \in BOOLEAN /\ h.trans \in BOOLEAN

TResult ==
    /\ Line.e = "r"
    /\ IsCPs(Line.A) /\ IsCPs(Line.AA) /\ IsCPs(Line.AU)
    /\ Line.ea \in BOOLEAN /\ Line.eaa \in BOOLEAN /\ Line.eau \in BOOLEAN
    /\ LET h == Trace[Meta.starts[cur]]
           q == [x |-> h.x, maps |-> h.maps, trans |-> h.trans, A |-> Line.A, ea |-> Line.ea, AA |-> Line.AA, eaa |-> Line.eaa,
                 AU |-> Line.AU, eau |-> Line.eau]
       IN v' = [done |-> TRUE, ea |-> q.ea, bad |-> BadClasses(q.x, q.maps),
                idem |-> LawIdem(q), uni |-> LawUni(q), canon |-> LawCanon(q)]

TNext ==
    /\ l <= Meta.ends[cur]
    /\ ~v.done
    /\ l' = l + 1 /\ cur' = cur
    /\ TResult

TSpec == TInit /\ [][TNext]_tvars

Mark == HighWater(cur, l)

\* Law 1, one invariant per class of payload that must have been rejected
RejectAsciiOnly == "asciionly" \in v.bad => v.ea
RejectEmpty     == "empty" \in v.bad => v.ea
RejectInvalid   == "invalid" \in v.bad => v.ea
RejectNonBasic  == "nonbasic" \in v.bad => v.ea
RejectSurrogate == "surrogate" \in v.bad => v.ea
\* Laws 2, 3 and the canonical-output reading of the title
Idempotent      == v.idem
ViaUnicode      == v.uni
CanonicalOutput == v.canon
=============================================================================
