SPECIFICATION Spec
CONSTANTS
  LabelAlpha = {97, 122, 48, 45, 65, 128, 223, 252, 20013, 55295, 57344, 128512, 1114111}
  MaxLabel = 4
  PayAlpha = {97, 122, 48, 57, 45, 90, 98, 252}
  MaxPay = 5
  LongPre = 3
  LongAlpha = {57, 48, 97, 107, 113, 114}
  LongMin = 2
  LongMax = 5
  Reps = {1926, 1927, 2000}
  BigCPs = {1114111, 1114000}
  MaxLawLabels = 3
INVARIANT Inv
CHECK_DEADLOCK FALSE
