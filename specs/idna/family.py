# idna family hooks: signatures name the class of a C50 violation (which law, which class of
# "xn--" payload, which profile), not its values, so that one defect is one signature whichever
# stage met it, and a different violation of the same property is still reported.
# (The verdict itself always comes from TLC: a replay mismatch against TLC's prediction or a
# trace TLC rejected. This file only classifies rejected scenarios for reporting.)
import re

_REJECT = {"RejectAsciiOnly": "asciionly", "RejectEmpty": "empty", "RejectInvalid": "invalid",
           "RejectNonBasic": "nonbasic", "RejectSurrogate": "surrogate"}


def signature(prop, kind, scenario, detail):
    what = (detail or {}).get("what", "")
    try:
        if kind == "replay":
            m = re.match(r"ToASCII accepts an xn-- label;payload=(\w+);profile=(\w+)", what)
            if m:
                return "accepts-bad-ace;payload=%s;profile=%s" % (m.group(1), m.group(2))
            k = scenario.get("k", "?") if isinstance(scenario, dict) else "?"
            return "replay;case=%s;%s" % (k, what)
        if kind == "trace":
            prof = "?"
            if isinstance(scenario, dict) and scenario.get("lines"):
                prof = scenario["lines"][0].get("p", "?")
            m = re.match(r"invariant (\w+)", what)
            if m and m.group(1) in _REJECT:
                return "accepts-bad-ace;payload=%s;profile=%s" % (_REJECT[m.group(1)], prof)
            if m:
                return "trace;law=%s;profile=%s" % (m.group(1), prof)
            ev = re.search(r'"e": "(\w+)"', what)
            return "trace;unmatched;event=%s;profile=%s" % (ev.group(1) if ev else "?", prof)
    except Exception:
        return None
    return None
