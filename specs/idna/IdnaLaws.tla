------------------------------ MODULE IdnaLaws ------------------------------
(* What C50 states about Profile.ToASCII / ToUnicode, as predicates over one observed *)
(* tuple                                                                              *)
(*    q = [x, maps, trans, A, ea, AA, eaa, AU, eau]                                   *)
(* x    the input domain (code points), maps: the profile has a mapping step that may *)
(*      rewrite non-ASCII text before labels are looked at (a fact about the profile) *)
(* trans    the profile uses UTS 46 transitional processing (a fact about the profile) *)
(* A, ea    = ToASCII(x)  and "an error was returned"                                 *)
(* AA, eaa  = ToASCII(A)                                                              *)
(* AU, eau  = ToASCII(ToUnicode(x))                                                   *)
(* UTS 46 itself (mapping tables, validity criteria, Bidi and joiner rules) is not    *)
(* modelled: a profile may reject whatever it likes.  The laws only constrain inputs  *)
(* a profile ACCEPTS, plus the one rejection C50 demands.                             *)
EXTENDS Punycode

Dot == 46
AcePrefix == <<120, 110, 45, 45>>        \* "xn--"

\* labels of a domain: split at every '.'
RECURSIVE SplitFrom(_, _, _)
SplitFrom(x, i, acc) ==
    IF i > Len(x) THEN <<acc>>
    ELSE IF x[i] = Dot THEN <<acc>> \o SplitFrom(x, i + 1, <<>>)
    ELSE SplitFrom(x, i + 1, Append(acc, x[i]))
Labels(x) == SplitFrom(x, 1, <<>>)

RECURSIVE JoinFrom(_, _)
JoinFrom(ls, i) == IF i > Len(ls) THEN <<>> ELSE (IF i > 1 THEN <<Dot>> ELSE <<>>) \o ls[i] \o JoinFrom(ls, i + 1)
Join(ls) == JoinFrom(ls, 1)

IsAce(l)   == Len(l) >= 4 /\ SubSeq(l, 1, 4) = AcePrefix
Payload(l) == SubSeq(l, 5, Len(l))

(* Law 1: "every IDNA profile rejects an 'xn--' label whose Punycode payload is invalid or   *)
(* decodes to only ASCII".  Judged for the labels of x that carry the prefix literally and   *)
(* that the profile sees as written: all-ASCII labels (no mapping step changes them other    *)
(* than by case, which does not affect the class of a payload), and any label when the       *)
(* profile has no mapping step.                                                              *)
Judged(l, maps) == IsAce(l) /\ (AllBasic(l) \/ ~maps)
BadClasses(x, maps) ==
    LET ls == Labels(x) IN
    {PayloadClass(Payload(ls[i])) : i \in {j \in 1..Len(ls) : Judged(ls[j], maps)}} \ {"ok"}

MustReject(x, maps) == BadClasses(x, maps) # {}

(* Law 2: for any input ToASCII accepts, ToASCII is idempotent.                              *)
LawIdem(q) == ~q.ea => (~q.eaa /\ q.AA = q.A)

(* Law 3: for any input ToASCII accepts, ToASCII(ToUnicode(x)) = ToASCII(x).                 *)
(* Not judged for transitional processing: by definition (UTS 46 section 4) it maps the      *)
(* deviation characters of a U-label ("faß" -> "fass") but leaves an A-label that contains    *)
(* them alone, so the equation cannot hold there; none of the exported profiles is            *)
(* transitional.                                                                              *)
LawUni(q) == (~q.ea /\ ~q.trans) => (~q.eau /\ q.AU = q.A)

(* Title: "produces canonical A-labels": an accepted result is ASCII and each of its "xn--"  *)
(* labels is the one spelling of its Unicode label (payload decodes, to something that is    *)
(* not plain ASCII, and encodes back to itself).                                             *)
CanonAce(l) == LET p == Payload(l) IN PayloadClass(p) = "ok" /\ Enc(Dec(p).u) = [ok |-> TRUE, s |-> p]
LawCanon(q) ==
    ~q.ea => /\ AllBasic(q.A)
             /\ LET ls == Labels(q.A) IN \A i \in 1..Len(ls) : IsAce(ls[i]) => CanonAce(ls[i])

(* --------------------------------------------------------------------------------------- *)
(* A reference transformer for a profile without mapping or validation ("raw Punycode"),    *)
(* used only in the model stage to show that the laws above are consistent: a transformer   *)
(* that follows RFC 3492 and rejects what Law 1 names satisfies all of them.                *)
RefAsciiLabel(l) ==
    IF IsAce(l) THEN
        IF PayloadClass(Payload(l)) # "ok" THEN [ok |-> FALSE, l |-> l]
        ELSE [ok |-> TRUE, l |-> AcePrefix \o Enc(Dec(Payload(l)).u).s]
    ELSE IF AllBasic(l) THEN [ok |-> TRUE, l |-> l]
    ELSE LET e == Enc(l) IN [ok |-> e.ok, l |-> AcePrefix \o e.s]
RefUnicodeLabel(l) ==
    IF IsAce(l) /\ PayloadClass(Payload(l)) = "ok" THEN Dec(Payload(l)).u ELSE l

RefToASCII(x) ==
    LET ls == Labels(x)
        rs == [i \in 1..Len(ls) |-> RefAsciiLabel(ls[i])]
    IN [e |-> \E i \in 1..Len(ls) : ~rs[i].ok, s |-> Join([i \in 1..Len(ls) |-> rs[i].l])]
RefToUnicode(x) ==
    LET ls == Labels(x) IN Join([i \in 1..Len(ls) |-> RefUnicodeLabel(ls[i])])

RefTuple(x) ==
    LET a  == RefToASCII(x)
        aa == RefToASCII(a.s)
        au == RefToASCII(RefToUnicode(x))
    IN [x |-> x, maps |-> FALSE, trans |-> FALSE, A |-> a.s, ea |-> a.e, AA |-> aa.s, eaa |-> aa.e, AU |-> au.s, eau |-> au.e]

RefConsistent(x) ==
    LET q == RefTuple(x) IN
    /\ MustReject(x, FALSE) => q.ea
    /\ LawIdem(q) /\ LawUni(q) /\ LawCanon(q)
=============================================================================
