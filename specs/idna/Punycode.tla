------------------------------ MODULE Punycode ------------------------------
(* RFC 3492 (Punycode, the Bootstring instance used by IDNA), section 6, transcribed *)
(* on sequences of code points.  A code point is an integer 0..16r10FFFF; the ASCII  *)
(* ("basic") ones are below 128.  Text is a sequence of code points on both sides:   *)
(* the encoder maps a sequence of code points to a sequence of basic code points     *)
(* (letters are produced in lower case), the decoder maps back.                      *)
(*                                                                                   *)
(*   Enc(u)  section 6.3 (encoding procedure)      -> [ok, s]                        *)
(*   Dec(a)  section 6.2 (decoding procedure)      -> [ok, u]                        *)
(*                                                                                   *)
(* "fail on overflow" is taken with maxint = 2^31 - 1, the integer width both the    *)
(* RFC's sample code (26+ bits required) and the Go code (int32) use; TLC integers   *)
(* are 32-bit as well, so every overflow test below is written with a division and   *)
(* no intermediate value exceeds MaxInt.                                             *)
EXTENDS Integers, Sequences

Base        == 36
TMin        == 1
TMax        == 26
Skew        == 38
Damp        == 700
InitialBias == 72
InitialN    == 128
Delim       == 45            \* '-'
MaxInt      == 2147483647
MaxCP       == 1114111       \* 16r10FFFF

IsBasic(c)     == c >= 0 /\ c < 128
IsCP(c)        == c >= 0 /\ c <= MaxCP
IsSurrogate(c) == c >= 55296 /\ c <= 57343
AllBasic(s)    == \A i \in 1..Len(s) : IsBasic(s[i])
IsText(s)      == \A i \in 1..Len(s) : IsCP(s[i]) /\ ~IsSurrogate(s[i])

(* ------------------------------------------------------------ 5. digits *)
\* digit-value -> basic code point (lower case form)
DigitChar(d) == IF d < 26 THEN 97 + d ELSE 22 + d
\* basic code point -> digit-value, -1 if it is not a digit ("A-Z" = "a-z" = 0..25, "0-9" = 26..35)
DigitVal(c) ==
    IF c >= 48 /\ c <= 57 THEN c - 22
    ELSE IF c >= 65 /\ c <= 90 THEN c - 65
    ELSE IF c >= 97 /\ c <= 122 THEN c - 97
    ELSE 0 - 1

(* ------------------------------------------------------------ 6.1 bias adaptation *)
RECURSIVE AdaptLoop(_, _)
AdaptLoop(d, k) ==
    IF d > ((Base - TMin) * TMax) \div 2
    THEN AdaptLoop(d \div (Base - TMin), k + Base)
    ELSE k + (((Base - TMin + 1) * d) \div (d + Skew))

Adapt(delta, numpoints, first) ==
    LET d0 == IF first THEN delta \div Damp ELSE delta \div 2
        d1 == d0 + (d0 \div numpoints)
    IN AdaptLoop(d1, 0)

\* the threshold t(k) for the digit at position k (k = Base, 2*Base, ...)
Thr(k, bias) == IF k <= bias THEN TMin ELSE IF k >= bias + TMax THEN TMax ELSE k - bias

(* ------------------------------------------------------------ generalized variable-length integers *)
\* q as a sequence of digit code points, little-endian, thresholds from bias
RECURSIVE VarInt(_, _, _)
VarInt(q, k, bias) ==
    LET t == Thr(k, bias) IN
    IF q < t THEN <<DigitChar(q)>>
    ELSE <<DigitChar(t + ((q - t) % (Base - t)))>> \o VarInt((q - t) \div (Base - t), k + Base, bias)

(* ------------------------------------------------------------ 6.3 encoding *)
EncFail == [ok |-> FALSE, s |-> <<>>]

Basics(u) == SelectSeq(u, IsBasic)

\* the inner "for each code point c in the input (in order)" loop; st = [delta, bias, h, out, ok]
RECURSIVE EncInner(_, _, _, _, _)
EncInner(u, i, n, b, st) ==
    IF i > Len(u) \/ ~st.ok THEN st
    ELSE LET c == u[i] IN
         IF c < n THEN
             IF st.delta = MaxInt THEN [st EXCEPT !.ok = FALSE]       \* increment delta, fail on overflow
             ELSE EncInner(u, i + 1, n, b, [st EXCEPT !.delta = @ + 1])
         ELSE IF c = n THEN
             EncInner(u, i + 1, n, b,
                      [delta |-> 0,
                       bias  |-> Adapt(st.delta, st.h + 1, st.h = b),
                       h     |-> st.h + 1,
                       out   |-> st.out \o VarInt(st.delta, Base, st.bias),
                       ok    |-> TRUE])
         ELSE EncInner(u, i + 1, n, b, st)

\* the main loop "while h < length(input)"
RECURSIVE EncOuter(_, _, _, _)
EncOuter(u, n, b, st) ==
    IF ~st.ok THEN EncFail
    ELSE IF st.h >= Len(u) THEN [ok |-> TRUE, s |-> st.out]
    ELSE LET rest == {u[i] : i \in {j \in 1..Len(u) : u[j] >= n}}
             m    == CHOOSE x \in rest : \A y \in rest : x <= y
         IN \* delta = delta + (m - n) * (h + 1), fail on overflow
            IF (m - n) > (MaxInt - st.delta) \div (st.h + 1) THEN EncFail
            ELSE LET st1 == EncInner(u, 1, m, b, [st EXCEPT !.delta = @ + (m - n) * (st.h + 1)])
                 IN IF ~st1.ok THEN EncFail
                    ELSE IF st1.delta = MaxInt THEN EncFail
                    ELSE EncOuter(u, m + 1, b, [st1 EXCEPT !.delta = @ + 1])

Enc(u) ==
    LET bs == Basics(u)
        b  == Len(bs)
    IN EncOuter(u, InitialN, b,
                [delta |-> 0, bias |-> InitialBias, h |-> b,
                 out |-> IF b > 0 THEN Append(bs, Delim) ELSE <<>>, ok |-> TRUE])

(* ------------------------------------------------------------ 6.2 decoding *)
DecFail == [ok |-> FALSE, u |-> <<>>]

Insert(s, pos, x) == SubSeq(s, 1, pos) \o <<x>> \o SubSeq(s, pos + 1, Len(s))     \* x becomes s[pos+1]

\* one generalized variable-length integer starting at a[p]; r = [ok, i, p]
RECURSIVE DecDigits(_, _, _, _, _, _)
DecDigits(a, p, i, w, k, bias) ==
    IF p > Len(a) THEN [ok |-> FALSE, i |-> 0, p |-> p]                     \* consume a code point, or fail if there was none
    ELSE LET digit == DigitVal(a[p]) IN
         IF digit < 0 THEN [ok |-> FALSE, i |-> 0, p |-> p]                 \* fail if it does not represent a digit
         ELSE IF digit > (MaxInt - i) \div w THEN [ok |-> FALSE, i |-> 0, p |-> p]     \* i + digit * w, fail on overflow
         ELSE LET i1 == i + digit * w
                  t  == Thr(k, bias)
              IN IF digit < t THEN [ok |-> TRUE, i |-> i1, p |-> p + 1]
                 ELSE IF w > MaxInt \div (Base - t) THEN [ok |-> FALSE, i |-> 0, p |-> p]   \* w * (base - t), fail on overflow
                 ELSE DecDigits(a, p + 1, i1, w * (Base - t), k + Base, bias)

\* lax = TRUE: the decoder of the RFC on integers (any value up to 16r10FFFF); lax = FALSE: the
\* result must be text, i.e. surrogate code points are refused as well (used by Dec)
RECURSIVE DecMain(_, _, _, _, _, _, _)
DecMain(a, p, n, i, bias, out, lax) ==
    IF p > Len(a) THEN [ok |-> TRUE, u |-> out]
    ELSE LET r == DecDigits(a, p, i, 1, Base, bias) IN
         IF ~r.ok THEN DecFail
         ELSE LET x  == Len(out) + 1
                  nb == Adapt(r.i - i, x, i = 0)
                  q  == r.i \div x
              IN IF q > MaxInt - n THEN DecFail                                   \* n + i div x, fail on overflow
                 ELSE LET n1 == n + q IN
                      \* the result must be a code point that text can carry
                      IF ~IsCP(n1) \/ (~lax /\ IsSurrogate(n1)) THEN DecFail
                      ELSE DecMain(a, r.p, n1, (r.i % x) + 1, nb, Insert(out, r.i % x, n1), lax)

\* position of the last delimiter, 0 if none
LastDelim(a) == LET D == {i \in 1..Len(a) : a[i] = Delim} IN
                IF D = {} THEN 0 ELSE CHOOSE i \in D : \A j \in D : j <= i

DecG(a, lax) ==
    LET d == LastDelim(a)
        \* "consume all code points before the last delimiter (if there is one) and copy them to
        \*  output, fail on any non-basic code point; if more than zero code points were consumed
        \*  then consume one more (which will be the last delimiter)"
        b == IF d = 0 THEN 0 ELSE d - 1
        lit == SubSeq(a, 1, b)
    IN IF ~AllBasic(lit) THEN DecFail
       ELSE DecMain(a, IF b > 0 THEN d + 1 ELSE 1, InitialN, 0, InitialBias, lit, lax)

Dec(a) == DecG(a, FALSE)

(* ------------------------------------------------------------ the laws of C50, Punycode part *)
\* an encoded string in the form the encoder produces it: digits after the last delimiter in lower case
LowerDigits(a) ==
    LET d == LastDelim(a) IN
    [i \in 1..Len(a) |-> IF i > d /\ a[i] >= 65 /\ a[i] <= 90 THEN a[i] + 32 ELSE a[i]]

\* Dec is a left inverse of Enc
RoundTripEnc(u) == LET e == Enc(u) IN e.ok => (AllBasic(e.s) /\ Dec(e.s) = [ok |-> TRUE, u |-> u])
\* Enc is a left inverse of Dec (up to the case of the digits, which carry no information)
RoundTripDec(a) == LET d == Dec(a) IN d.ok => (IsText(d.u) /\ Enc(d.u) = [ok |-> TRUE, s |-> LowerDigits(a)])

\* what C50 says about the payload of an "xn--" label: it must be rejected unless it decodes,
\* and decodes to something that is not plain ASCII
PayloadClass(a) ==
    LET d == Dec(a) IN
    IF ~d.ok THEN (IF ~AllBasic(a) THEN "nonbasic" ELSE IF DecG(a, TRUE).ok THEN "surrogate" ELSE "invalid")
    ELSE IF Len(d.u) = 0 THEN "empty"
    ELSE IF AllBasic(d.u) THEN "asciionly"
    ELSE "ok"
=============================================================================
