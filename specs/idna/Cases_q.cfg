SPECIFICATION Spec
CONSTANTS
  LabelAlpha = {97, 45, 65, 128, 252, 20013, 128512, 1114111}
  MaxLabel = 3
  PayAlpha = {97, 57, 45, 90, 252}
  MaxPay = 4
  LongPre = 4
  LongAlpha = {57, 97, 107, 113}
  LongMin = 1
  LongMax = 4
  Reps = {1926, 1927}
  BigCPs = {1114111}
  MaxLawLabels = 2
INVARIANT Inv
CHECK_DEADLOCK FALSE
