SPECIFICATION Spec
CONSTANTS
  LabelAlpha = {97, 45, 65, 128, 252, 20013, 128512, 1114111}
  MaxLabel = 3
  PayAlpha = {97, 122, 57, 45, 90, 252}
  MaxPay = 4
  LongAlpha = {57, 97}
  LongMin = 5
  LongMax = 8
  Reps = {1926, 1927}
  BigCPs = {1114111}
  MaxLawLabels = 2
INVARIANT Inv
CHECK_DEADLOCK FALSE
