-------------------------------- MODULE Gen --------------------------------
(***************************************************************************)
(* X19 / X20 case generator: the bounded domain of (document, Content-Type) *)
(* pairs as TLC states; one CASE item per state with what Sniff!Decide      *)
(* predicts; the design-level properties of Sniff are checked on every      *)
(* state on the way.  Groups (constant Groups selects them):                *)
(*   prec    BOM x Content-Type x body: the precedence of the steps         *)
(*   bound   a chunk A moved across the 1024-byte window end byte by byte   *)
(*           (pre-chunk, padding, A, post-chunk)                            *)
(*   lookup  labels of the table and non-labels                             *)
(*   attrs   every attribute list up to AttrLen over AttrAlpha in one meta, *)
(*           followed by a second, well-formed meta                         *)
(*   cv      the content attribute value grammar                            *)
(*   seq     every chunk sequence up to SeqLen over SeqAlpha                *)
(* The domain is split into seeds (initial states) whose successors are the *)
(* cases, so that TLC workers share the work.                               *)
(***************************************************************************)
EXTENDS Sniff, TLC, Json

CONSTANTS Groups, AttrLen, SeqLen, Thorough

VARIABLE c

Ch(k, n, w, f, attrs) == [k |-> k, n |-> n, w |-> w, f |-> f, attrs |-> attrs]
At(a, v, pre, ws1, ws2, q, tail) == [a |-> a, v |-> v, pre |-> pre, ws1 |-> ws1, ws2 |-> ws2, q |-> q, tail |-> tail]

AHe(v)      == At("he", v, "", 0, 0, "", "")
ACharset(l) == At("charset", l, "", 0, 0, "", "")
AContent(l) == At("content", l, "type", 0, 0, "none", "")
ANoCs       == At("content", "", "nocs", 0, 0, "none", "")
AOther      == At("other", "", "", 0, 0, "", "")

MetaLen(attrs) == 24 + 64 * Len(attrs)
Meta(attrs) == Ch("meta", MetaLen(attrs), 0, "", attrs)
Asc(n)      == Ch("asc", n, 0, "", <<>>)
Hi(w, n)    == Ch("hi", n, w, "", <<>>)
Part(w, n)  == Ch("part", n, w, "", <<>>)
Bad(f, n)   == Ch("bad", n, 0, f, <<>>)
Cmt(f, n)   == Ch("cmt", n, 0, f, <<>>)
Tag(f)      == Ch("tag", 72, 0, f, <<>>)
Raw(f)      == Ch("raw", 72, 0, f, <<>>)
Bom(f)      == Ch("bom", IF f = "u8" THEN 3 ELSE 2, 0, f, <<>>)

CtAbsent == [k |-> "absent", l |-> ""]
CtLabel(l) == [k |-> "label", l |-> l]
CTs == {CtAbsent, [k |-> "malformed", l |-> "koi8-r"], [k |-> "nocharset", l |-> ""]}
       \cup {CtLabel(x) : x \in {"koi8-r", "latin1", "utf-16be", "utf-8", "x-user-defined", "iso-2022-kr", "unicode", "bogus", ""}}

SeqsUpTo(A, n) == UNION { [1..m -> A] : m \in 0..n }

Item(g, ct, ch) == [seed |-> FALSE, g |-> g, i |-> 0, ct |-> ct, ch |-> ch, l |-> ""]
Seed(g, i)      == [seed |-> TRUE, g |-> g, i |-> i, ct |-> CtAbsent, ch |-> <<>>, l |-> ""]

-----------------------------------------------------------------------------
(* prec *)
BomSeq == <<"", "u8", "le", "be">>
M1 == Meta(<<ACharset("iso-8859-2")>>)
PrecBodies == { <<>>, <<Asc(20)>>, <<M1>>, <<Hi(2, 6)>>, <<Bad("ff", 1)>>, <<Asc(1100)>>,
                <<Asc(Window - M1.n), M1>>, <<Asc(Window - M1.n + 1), M1>>, <<Hi(3, 3), M1, Bad("cont", 2)>>,
                <<Meta(<<AHe("ct"), AContent("unicode")>>), Hi(2, 2)>> }
Prec(i) == { Item("prec", ct, (IF BomSeq[i] = "" THEN <<>> ELSE <<Bom(BomSeq[i])>>) \o b) : ct \in CTs, b \in PrecBodies }

(* bound *)
PresT == << <<>>, <<Hi(2, 2)>>, <<Bad("ff", 1)>>, <<Meta(<<ACharset("bogus")>>)>>, <<Raw("open")>>,
            <<Cmt("inner", 96)>>, <<Meta(<<ACharset("iso-8859-2")>>)>>, <<Raw("closed"), Tag("end")>> >>
Pres == IF Thorough THEN PresT ELSE SubSeq(PresT, 1, 5)
MA == Meta(<<ACharset("koi8-r")>>)
As == { MA, Hi(2, 2), Hi(3, 3), Hi(4, 4), Hi(2, 4), Hi(3, 6), Bad("ff", 1), Bad("cont", 1), Bad("cont", 3),
        Part(3, 2), Part(4, 3), Part(2, 1), Part(4, 1), Asc(3) }
Posts == { <<>>, <<Bad("ff", 1)>>, <<Meta(<<ACharset("shift_jis")>>)>> } \cup (IF Thorough THEN { <<Hi(2, 2)>>, <<Asc(2)>> } ELSE {})
Sweep(a) == IF a.k = "meta" THEN {0, 1, a.n - 2, a.n - 1, a.n, a.n + 1, a.n + 3} ELSE 0..(a.n + 3)
PadKinds == IF Thorough THEN {"asc", "cmt"} ELSE {"asc"}
BoundCTs == IF Thorough THEN {CtAbsent, CtLabel("bogus"), [k |-> "malformed", l |-> "koi8-r"]} ELSE {CtAbsent}
Bound(i) ==
  LET pre == Pres[i] IN
  UNION { { Item("bound", ct, pre \o <<Ch(pk, Window - d - TotalLen(pre), 0, "", <<>>)>> \o <<a>> \o post) :
              ct \in BoundCTs, pk \in PadKinds, post \in Posts, d \in Sweep(a) } : a \in As }
BoundShort(i) == { Item("bound", CtAbsent, Pres[i] \o <<a>> \o post) : a \in As, post \in Posts }

(* lookup *)
LookupItems == { [seed |-> FALSE, g |-> "lookup", i |-> 0, ct |-> CtAbsent, ch |-> <<>>, l |-> x] :
                   x \in KnownLabels \cup UnknownLabels }

(* attrs *)
AttrAlphaT == << AHe("ct"), AHe("other"), AContent("koi8-r"), ANoCs, AContent("bogus"), AContent("utf-16"),
                 ACharset("iso-8859-2"), ACharset("bogus"), ACharset("x-user-defined"), AOther,
                 ACharset("utf-16be"), AContent("x-user-defined") >>
AttrAlpha == IF Thorough THEN AttrAlphaT ELSE SubSeq(AttrAlphaT, 1, 10)
AttrSet == { AttrAlpha[j] : j \in 1..Len(AttrAlpha) }
M2 == Meta(<<ACharset("shift_jis")>>)
Attrs(i) == { Item("attrs", CtAbsent, <<Meta(<<AttrAlpha[i]>> \o s), M2>>) : s \in SeqsUpTo(AttrSet, AttrLen - 1) }
             \cup (IF i = 1 THEN {Item("attrs", CtAbsent, <<Meta(<<>>), M2>>)} ELSE {})

(* cv *)
CvPre == <<"", "type", "decoy", "decoy2">>
CvAttrs(i) == { At("content", v, CvPre[i], w1, w2, q, tl) :
                  v \in {"koi8-r", "bogus", "unicode"}, w1 \in 0..1, w2 \in 0..1,
                  q \in {"none", "dq", "sq", "open", "empty", "trailq"}, tl \in {"", "semi", "sp"} }
              \cup (IF i = 1 THEN {ANoCs, At("content", "koi8-r", "noeq", 0, 0, "none", "")} ELSE {})
Cv(i) == UNION { { Item("cv", CtAbsent, <<Meta(IF heFirst THEN <<AHe("ct"), a>> ELSE <<a, AHe("ct")>>), M2>>) :
                     heFirst \in (IF Thorough THEN BOOLEAN ELSE {a.ws1 = a.ws2}) } : a \in CvAttrs(i) }

(* seq *)
SeqAlphaT == << Cmt("inner", 96), Tag("start"), Tag("end"), Tag("pi"), Tag("decl"), Raw("closed"), Raw("open"),
               Meta(<<ACharset("bogus")>>), Meta(<<AContent("koi8-r")>>), Meta(<<ACharset("koi8-r")>>), Meta(<<ACharset("utf-16")>>),
               Meta(<<AHe("ct"), AContent("iso-8859-2")>>), Cmt("", 40), Asc(10), Hi(2, 2), Bad("ff", 1) >>
SeqAlpha == IF Thorough THEN SeqAlphaT ELSE SubSeq(SeqAlphaT, 1, 11)
SeqSet == { SeqAlpha[j] : j \in 1..Len(SeqAlpha) }
Seqs(i) == { Item("seq", CtAbsent, <<SeqAlpha[i]>> \o s) : s \in SeqsUpTo(SeqSet, SeqLen - 1) }
           \cup { Item("seq", CtAbsent, <<SeqAlphaT[j], Hi(2, 2)>>) : j \in 1..Len(SeqAlphaT) }
           \cup { Item("seq", CtAbsent, <<Hi(2, 2), SeqAlpha[i], Bad("ff", 1), Asc(3)>>), Item("seq", CtAbsent, <<SeqAlpha[i], SeqAlphaT[12], SeqAlphaT[13]>>) }

-----------------------------------------------------------------------------
Seeds == (IF "prec" \in Groups THEN { Seed("prec", i) : i \in 1..Len(BomSeq) } ELSE {})
    \cup (IF "bound" \in Groups THEN { Seed("bound", i) : i \in 1..Len(Pres) } \cup { Seed("short", i) : i \in 1..Len(Pres) } ELSE {})
    \cup (IF "lookup" \in Groups THEN { Seed("lookup", 1) } ELSE {})
    \cup (IF "attrs" \in Groups THEN { Seed("attrs", i) : i \in 1..Len(AttrAlpha) } ELSE {})
    \cup (IF "cv" \in Groups THEN { Seed("cv", i) : i \in 1..Len(CvPre) } ELSE {})
    \cup (IF "seq" \in Groups THEN { Seed("seq", i) : i \in 1..Len(SeqAlpha) } ELSE {})

Expand(s) == CASE s.g = "prec"   -> Prec(s.i)
               [] s.g = "bound"  -> Bound(s.i)
               [] s.g = "short"  -> BoundShort(s.i)
               [] s.g = "lookup" -> LookupItems
               [] s.g = "attrs"  -> Attrs(s.i)
               [] s.g = "cv"     -> Cv(s.i)
               [] OTHER          -> Seqs(s.i)

GInit == c \in Seeds
GNext == c.seed /\ c' \in Expand(c)

Case(x) ==
  IF x.g = "lookup" THEN [g |-> "lookup", l |-> x.l, name |-> Canon(x.l)]
  ELSE LET d == Decide(x.ch, x.ct) IN
       [g |-> x.g, ct |-> x.ct, chunks |-> x.ch, names |-> d.names, certain |-> d.certain, at |-> d.at,
        via |-> d.via, len |-> TotalLen(x.ch),
        rd |-> IF TotalLen(x.ch) = 0 THEN {"F3-empty-input"} ELSE {}]

Emit == c.seed \/ PrintT(<<"CASE", ToJson(Case(c))>>)

ASSUME TableOK

Facts == c.seed \/ c.g = "lookup" \/
  /\ \A j \in 1..Len(c.ch) : c.ch[j].n >= 0 /\ (c.ch[j].k = "hi" => c.ch[j].n % c.ch[j].w = 0)
  /\ LET d == Decide(c.ch, c.ct) IN
       Precedence(c.ch, c.ct, d) /\ (TotalLen(c.ch) > Window => PrefixProperty(c.ch, c.ct, d)) /\ FirstMetaWins(c.ch, c.ct, d)
  /\ \A j \in 1..Len(c.ch) : c.ch[j].k = "meta" => MetaFacts(c.ch[j].attrs)
=============================================================================
