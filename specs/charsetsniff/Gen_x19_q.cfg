INIT GInit
NEXT GNext
CONSTANTS
  Groups = {"prec", "bound", "lookup"}
  AttrLen = 1
  SeqLen = 1
  Thorough = FALSE
INVARIANTS Facts Emit
CHECK_DEADLOCK FALSE
