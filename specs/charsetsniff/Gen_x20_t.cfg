INIT GInit
NEXT GNext
CONSTANTS
  Groups = {"attrs", "cv", "seq"}
  AttrLen = 4
  SeqLen = 3
  Thorough = TRUE
INVARIANTS Facts Emit
CHECK_DEADLOCK FALSE
