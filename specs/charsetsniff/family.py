# charsetsniff family hooks: signatures naming the class of a replay mismatch, so that a known
# finding suppresses only its own class.  The verdict always comes from comparing the real code with
# what TLC evaluated from Sniff.tla; this file only classifies.  The F-tags are ghost tags computed
# by the SPECIFICATION (Sniff!Decide / Gen!Case) for exactly the inputs on which the unchanged code
# is known to deviate; a mismatch on such an input only gets the finding's signature if the code
# also answered what the finding says it answers.

import re


def _slug(s, n=100):
    return re.sub(r"[^A-Za-z0-9=,]+", "-", s or "").strip("-")[:n]


def _first(x):
    return str(x).split(" ")[0] if x is not None else ""


def signature(prop, kind, scenario, detail):
    what = detail.get("what", "")
    act = _first(detail.get("actual"))
    exp = detail.get("expected")
    if "F1-sole-rune-at-tail" in what and "DetermineEncoding" in what and " name" in what and act == "windows-1252":
        return "sniff;F-charsetsniff-1;sole-non-ascii-rune-at-the-end-of-the-window-dropped-as-partial"
    if "F1-sole-rune-at-tail" in what and "NewReader" in what and "output" in what:
        return "sniff;F-charsetsniff-1;sole-non-ascii-rune-at-the-end-of-the-window-dropped-as-partial;reader"
    if "F2-meta-x-user-defined" in what and "DetermineEncoding" in what and " name" in what and act == "x-user-defined":
        return "prescan;F-charsetsniff-2;meta-x-user-defined-not-mapped-to-windows-1252"
    if "F2-meta-x-user-defined" in what and "NewReader" in what and "output" in what:
        return "prescan;F-charsetsniff-2;meta-x-user-defined-not-mapped-to-windows-1252;reader"
    if "F3-empty-input" in what and "NewReader" in what and what.rstrip().endswith("error") and act == "EOF":
        return "reader;F-charsetsniff-3;empty-input-returns-EOF-instead-of-a-reader"
    g = (scenario or {}).get("g", "?") if isinstance(scenario, dict) else "?"
    w = re.sub(r"\(first 1024 bytes\)", "", what)
    w = re.sub(r"NewReader\([a-z-]+\)", "NewReader", w)
    e = ",".join(exp) if isinstance(exp, list) else str(exp)
    return "%s;%s;exp=%s;act=%s" % (g, _slug(w), _slug(e, 40), _slug(act, 40))
