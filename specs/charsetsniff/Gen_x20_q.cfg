INIT GInit
NEXT GNext
CONSTANTS
  Groups = {"attrs", "cv", "seq"}
  AttrLen = 3
  SeqLen = 3
  Thorough = FALSE
INVARIANTS Facts Emit
CHECK_DEADLOCK FALSE
