------------------------------- MODULE Sniff -------------------------------
(***************************************************************************)
(* golang.org/x/net/html/charset: Lookup, DetermineEncoding, NewReader,     *)
(* NewReaderLabel (X19) and the meta prescan (X20).                         *)
(*                                                                         *)
(* A document is a sequence of abstract CHUNKS, each with an exact byte     *)
(* length n, so that the 1024-byte window of DetermineEncoding cuts the     *)
(* document at an exact place:                                              *)
(*   bom   f = "u8" | "le" | "be"            (only as the first chunk)      *)
(*   asc   n bytes of ASCII text without '<'                                *)
(*   hi    n bytes of valid UTF-8 made of runes of w bytes (w | n)          *)
(*   part  the first n bytes (n < w) of one w-byte rune                     *)
(*   bad   n bytes that can never be UTF-8 (f = "ff": 0xFF, "cont": 0x80)   *)
(*   cmt   <!-- ... -->   (f = "inner": a <meta charset> inside the comment)*)
(*   meta  <meta a1 a2 ...>  with the attribute records attrs               *)
(*   tag   markup that is not a meta start tag and is inert for the scan:   *)
(*         f = "start" (another element, with charset= decoys, or with a    *)
(*         "<meta ...>" inside a quoted attribute value), "end" (</meta ..>)*)
(*         "pi" (<? ...>), "decl" (<!DOCTYPE ...>, <!x ...>)                *)
(*   raw   a raw-text / RCDATA element holding "<meta charset=...>" as its  *)
(*         TEXT: f = "closed" (<title>..</title>) is inert; f = "open"      *)
(*         (the end tag never comes) turns everything after it into text    *)
(* An attribute record is [a, v, pre, ws1, ws2, q, tail]:                   *)
(*   a = "he"      http-equiv, v = "ct" (content-type) | "other"            *)
(*   a = "charset" charset=v (v a label)                                    *)
(*   a = "content" content = pre "charset" ws1 "=" ws2 <q v q> tail         *)
(*   a = "other"   some other attribute                                     *)
(* The Content-Type header is [k, l]: k = "absent" | "malformed" (rejected  *)
(* by mime.ParseMediaType) | "nocharset" | "label" (charset=l).             *)
(*                                                                         *)
(* Decide(doc, ct) is written in the shape of the code; it returns the SET  *)
(* of names the property allows (a singleton except for the heuristic grey  *)
(* zone named below), `certain`, and ghost tags `via` naming every rule     *)
(* that fired (per-action coverage; the tags "F1-..", "F2-..", "F3-.." mark *)
(* exactly the cases in which the unchanged code is known to deviate).      *)
(***************************************************************************)
EXTENDS Integers, Sequences, FiniteSets

None   == "none"
Window == 1024

(* A fragment of the WHATWG Encoding Standard's label table (labels are     *)
(* given lower-case without surrounding whitespace; Lookup normalises).     *)
LabelPairs == {
  <<"utf-8", "utf-8">>, <<"utf8", "utf-8">>, <<"unicode-1-1-utf-8", "utf-8">>, <<"x-unicode20utf8", "utf-8">>,
  <<"windows-1252", "windows-1252">>, <<"latin1", "windows-1252">>, <<"iso-8859-1", "windows-1252">>,
  <<"ascii", "windows-1252">>, <<"us-ascii", "windows-1252">>, <<"l1", "windows-1252">>,
  <<"cp1252", "windows-1252">>, <<"x-cp1252", "windows-1252">>,
  <<"koi8-r", "koi8-r">>, <<"koi", "koi8-r">>, <<"cskoi8r", "koi8-r">>,
  <<"iso-8859-2", "iso-8859-2">>, <<"latin2", "iso-8859-2">>, <<"l2", "iso-8859-2">>,
  <<"shift_jis", "shift_jis">>, <<"sjis", "shift_jis">>, <<"ms_kanji", "shift_jis">>, <<"windows-31j", "shift_jis">>,
  <<"utf-16le", "utf-16le">>, <<"utf-16", "utf-16le">>, <<"unicode", "utf-16le">>, <<"ucs-2", "utf-16le">>,
  <<"csunicode", "utf-16le">>, <<"unicodefeff", "utf-16le">>, <<"iso-10646-ucs-2", "utf-16le">>,
  <<"utf-16be", "utf-16be">>, <<"unicodefffe", "utf-16be">>,
  <<"x-user-defined", "x-user-defined">>,
  <<"replacement", "replacement">>, <<"iso-2022-kr", "replacement">>, <<"hz-gb-2312", "replacement">>,
  <<"csiso2022kr", "replacement">>, <<"iso-2022-cn", "replacement">>, <<"iso-2022-cn-ext", "replacement">>,
  <<"gbk", "gbk">>, <<"gb2312", "gbk">>, <<"chinese", "gbk">>, <<"gb18030", "gb18030">>,
  <<"big5", "big5">>, <<"big5-hkscs", "big5">>, <<"euc-jp", "euc-jp">>, <<"euc-kr", "euc-kr">>,
  <<"windows-949", "euc-kr">>, <<"iso-8859-8-i", "iso-8859-8-i">>, <<"logical", "iso-8859-8-i">>,
  <<"visual", "iso-8859-8">>, <<"iso-8859-8", "iso-8859-8">>, <<"macintosh", "macintosh">>, <<"mac", "macintosh">>,
  <<"windows-874", "windows-874">>, <<"tis-620", "windows-874">>, <<"iso-8859-11", "windows-874">>,
  <<"windows-1254", "windows-1254">>, <<"latin5", "windows-1254">>, <<"iso-8859-9", "windows-1254">>,
  <<"x-mac-cyrillic", "x-mac-cyrillic">>, <<"x-mac-ukrainian", "x-mac-cyrillic">>,
  <<"ibm866", "ibm866">>, <<"866", "ibm866">>, <<"cp866", "ibm866">> }

KnownLabels == { p[1] : p \in LabelPairs }
Names       == { p[2] : p \in LabelPairs }
(* strings that are NOT labels (after normalisation) *)
UnknownLabels == { "bogus", "", "utf-7", "utf 8", "utf-8;", "utf--8", "cesu-8", "utf-32", "iso-8859-17", "x-user" }

(* Lookup: label already trimmed of ASCII whitespace and lower-cased *)
LabelFn == [l \in KnownLabels |-> (CHOOSE p \in LabelPairs : p[1] = l)[2]]
Canon(l) == IF l \in DOMAIN LabelFn THEN LabelFn[l] ELSE None

TableOK == /\ \A p, q \in LabelPairs : p[1] = q[1] => p = q          \* a function
           /\ \A nm \in Names : Canon(nm) = nm                        \* canonical names are their own labels
           /\ KnownLabels \cap UnknownLabels = {}

-----------------------------------------------------------------------------
(* The meta element ("algorithm for extracting a character encoding from a  *)
(* meta element" + the attribute loop of the prescan).                      *)

(* the label handed to Lookup by the content attribute, or None *)
Extract(at) ==
  CASE at.pre = "nocs"  -> None     \* no "charset" in the value
    [] at.pre = "noeq"  -> None     \* "charset" never followed by "="
    [] at.q = "empty"   -> None     \* nothing after the "="
    [] at.q = "open"    -> None     \* opening quote without a closing one
    [] at.q = "trailq"  -> "?"      \* unquoted label with a stray quote glued to it: not a label
    [] OTHER            -> at.v     \* quoted ("dq"/"sq") or unquoted ("none", ends at ';' or whitespace)

AttrName(at) == CASE at.a = "he" -> "http-equiv" [] at.a = "content" -> "content"
                  [] at.a = "charset" -> "charset" [] OTHER -> "name"

MetaInit == [seen |-> {}, got |-> FALSE, need |-> "dk", e |-> None, via |-> {}]

MetaStep(s, at) ==
  LET nm == AttrName(at) IN
  IF nm \in s.seen THEN [s EXCEPT !.via = @ \cup {"attr-dup-ignored"}]      \* first occurrence wins
  ELSE LET s1 == [s EXCEPT !.seen = @ \cup {nm}] IN
    CASE at.a = "he" ->
           IF at.v = "ct" THEN [s1 EXCEPT !.got = TRUE, !.via = @ \cup {"attr-http-equiv-content-type"}]
                          ELSE [s1 EXCEPT !.via = @ \cup {"attr-http-equiv-other"}]
      [] at.a = "content" ->
           IF s1.e # None THEN [s1 EXCEPT !.via = @ \cup {"attr-content-after-charset"}]
           ELSE LET c == Canon(Extract(at)) IN
                IF c # None THEN [s1 EXCEPT !.e = c, !.need = "yes", !.via = @ \cup {"attr-content-sets"}]
                ELSE [s1 EXCEPT !.via = @ \cup {IF Extract(at) = None THEN "attr-content-no-charset"
                                                 ELSE "attr-content-unknown-label"}]
      [] at.a = "charset" ->
           LET c == Canon(at.v) IN
           [s1 EXCEPT !.e = c, !.need = "no",
                      !.via = @ \cup {IF c = None THEN "attr-charset-unknown" ELSE "attr-charset-sets"}]
      [] OTHER -> [s1 EXCEPT !.via = @ \cup {"attr-other"}]

RECURSIVE MetaFold(_, _, _)
MetaFold(attrs, i, s) == IF i > Len(attrs) THEN s ELSE MetaFold(attrs, i + 1, MetaStep(s, attrs[i]))

(* result of one meta element: [e: name or None, via] *)
MetaEval(attrs) ==
  LET s == MetaFold(attrs, 1, MetaInit) IN
  IF s.need = "dk" THEN [e |-> None, via |-> s.via \cup {"meta-no-declaration"}]
  ELSE IF s.need = "yes" /\ ~s.got THEN [e |-> None, via |-> s.via \cup {"meta-content-without-pragma"}]
  ELSE IF s.e = None THEN [e |-> None, via |-> s.via \cup {"meta-unknown-label-skipped"}]
  ELSE IF s.e \in {"utf-16le", "utf-16be"} THEN [e |-> "utf-8", via |-> s.via \cup {"meta-utf16-becomes-utf8"}]
  ELSE IF s.e = "x-user-defined" THEN [e |-> "windows-1252", via |-> s.via \cup {"F2-meta-x-user-defined"}]
  ELSE [e |-> s.e, via |-> s.via \cup {"meta-wins"}]

-----------------------------------------------------------------------------
(* The window *)

RECURSIVE OffsetOf(_, _)
OffsetOf(ch, i) == IF i = 1 THEN 0 ELSE OffsetOf(ch, i - 1) + ch[i - 1].n
TotalLen(ch) == OffsetOf(ch, Len(ch) + 1)

Max(a, b) == IF a > b THEN a ELSE b
Min(a, b) == IF a < b THEN a ELSE b
(* visible bytes of chunk i inside the window *)
Vis(ch, i) == Max(0, Min(ch[i].n, Window - OffsetOf(ch, i)))
Complete(ch, i) == Vis(ch, i) = ch[i].n

-----------------------------------------------------------------------------
(* The prescan over the chunks that are completely inside the window.       *)
(* Returns [e, at (index of the deciding meta or 0), via].                  *)

SkipTag(c) == CASE c.k = "cmt" -> IF c.f = "inner" THEN "skip-comment-holding-meta" ELSE "skip-comment"
                [] c.k = "tag" -> "skip-" \o c.f \o "-tag"
                [] c.k = "raw" -> "skip-rawtext-element"
                [] c.k = "asc" -> "text" [] c.k = "hi" -> "text" [] c.k = "bad" -> "text"
                [] c.k = "part" -> "text" [] OTHER -> "bom-bytes"

RECURSIVE Prescan(_, _, _)
Prescan(ch, i, via) ==
  IF i > Len(ch) THEN [e |-> None, at |-> 0, via |-> via]
  ELSE IF Vis(ch, i) = 0 THEN [e |-> None, at |-> 0, via |-> via \cup {"window-ends-scan"}]
  ELSE IF ~Complete(ch, i) THEN
         [e |-> None, at |-> 0, via |-> via \cup {IF ch[i].k \in {"asc", "hi", "bad", "part"} THEN "window-cuts-text"
                                                   ELSE "window-cuts-" \o ch[i].k}]
  ELSE IF ch[i].k = "meta" THEN
         LET r == MetaEval(ch[i].attrs) IN
         IF r.e # None THEN [e |-> r.e, at |-> i, via |-> via \cup r.via]
         ELSE Prescan(ch, i + 1, via \cup r.via)
  ELSE IF ch[i].k = "raw" /\ ch[i].f = "open" THEN
         [e |-> None, at |-> 0, via |-> via \cup {"open-rawtext-hides-rest"}]
  ELSE Prescan(ch, i + 1, via \cup {SkipTag(ch[i])})

-----------------------------------------------------------------------------
(* UTF-8 detection on the window: after dropping an incomplete rune at the  *)
(* very end, the bytes are valid UTF-8 and hold a non-ASCII rune.           *)

VisIdx(ch)  == { i \in 1..Len(ch) : Vis(ch, i) > 0 }
LastVis(ch) == IF VisIdx(ch) = {} THEN 0 ELSE CHOOSE i \in VisIdx(ch) : \A j \in VisIdx(ch) : j <= i

(* complete runes visible in chunk i *)
Runes(ch, i) == IF ch[i].k = "hi" THEN Vis(ch, i) \div ch[i].w
                ELSE IF ch[i].k = "bom" /\ ch[i].f = "u8" /\ Complete(ch, i) THEN 1 ELSE 0
RECURSIVE SumRunes(_, _)
SumRunes(ch, i) == IF i = 0 THEN 0 ELSE SumRunes(ch, i - 1) + Runes(ch, i)

(* chunk i holds bytes that are not UTF-8, the tail of the window aside *)
Invalid(ch, i) ==
  \/ ch[i].k = "bad"
  \/ ch[i].k = "bom" /\ ch[i].f # "u8"
  \/ ch[i].k = "part" /\ i # LastVis(ch)                       \* a rune cut short in the middle of the text
  \/ ch[i].k = "hi" /\ Vis(ch, i) % ch[i].w # 0 /\ i # LastVis(ch)   \* (cannot happen: only the window cuts)

ValidUTF8(ch) == \A i \in VisIdx(ch) : ~Invalid(ch, i)
HasRune(ch)   == SumRunes(ch, Len(ch)) >= 1
StrictUTF8(ch) == ValidUTF8(ch) /\ HasRune(ch)

(* grey zone: the window ends with bytes that can never be part of UTF-8.   *)
(* The code's "partial rune" rule may drop them; the property does not say  *)
(* which way a heuristic must go on such input: both answers are allowed.   *)
LooseTail(ch) == LET l == LastVis(ch) IN
                 l > 0 /\ ch[l].k = "bad" /\ \A i \in VisIdx(ch) \ {l} : ~Invalid(ch, i)

(* F1: the only non-ASCII rune of the window is a COMPLETE rune of 2 or 3    *)
(* bytes that ends exactly at the end of the window / document.             *)
TailRune(ch) == LET l == LastVis(ch) IN
                /\ StrictUTF8(ch) /\ l > 0 /\ ch[l].k = "hi" /\ ch[l].w <= 3
                /\ Vis(ch, l) % ch[l].w = 0 /\ SumRunes(ch, Len(ch)) = 1

PartialDropped(ch) == LET l == LastVis(ch) IN
                      l > 0 /\ \/ ch[l].k = "part"
                               \/ ch[l].k = "hi" /\ Vis(ch, l) % ch[l].w # 0

-----------------------------------------------------------------------------
(* The Content-Type header *)
CTName(ct) == IF ct.k = "label" THEN Canon(ct.l) ELSE None

BomName(f) == CASE f = "u8" -> "utf-8" [] f = "le" -> "utf-16le" [] OTHER -> "utf-16be"

(* DetermineEncoding: [names (allowed), certain, at (deciding meta), via]    *)
Decide(ch, ct) ==
  IF Len(ch) >= 1 /\ ch[1].k = "bom" THEN
    [names |-> {BomName(ch[1].f)}, certain |-> TRUE, at |-> 0, via |-> {"bom-" \o ch[1].f}]
  ELSE IF CTName(ct) # None THEN
    [names |-> {CTName(ct)}, certain |-> TRUE, at |-> 0, via |-> {"content-type"}]
  ELSE
    LET v0 == {CASE ct.k = "label" -> "content-type-unknown-label" [] ct.k = "malformed" -> "content-type-malformed"
                 [] ct.k = "nocharset" -> "content-type-no-charset" [] OTHER -> "content-type-absent"}
               \cup (IF TotalLen(ch) > Window THEN {"longer-than-window"} ELSE {})
        p  == Prescan(ch, 1, v0) IN
    IF p.e # None THEN [names |-> {p.e}, certain |-> FALSE, at |-> p.at, via |-> p.via]
    ELSE IF LooseTail(ch) THEN
      [names |-> {"utf-8", "windows-1252"}, certain |-> FALSE, at |-> 0, via |-> p.via \cup {"utf8-grey-invalid-tail"}]
    ELSE IF StrictUTF8(ch) THEN
      [names |-> {"utf-8"}, certain |-> FALSE, at |-> 0,
       via |-> p.via \cup {"utf8-detected"} \cup (IF PartialDropped(ch) THEN {"utf8-partial-tail-dropped"} ELSE {})
                     \cup (IF TailRune(ch) THEN {"F1-sole-rune-at-tail"} ELSE {})]
    ELSE
      [names |-> {"windows-1252"}, certain |-> FALSE, at |-> 0,
       via |-> p.via \cup {IF Len(ch) = 0 THEN "fallback-empty"
                           ELSE IF ~ValidUTF8(ch) THEN "fallback-invalid-utf8" ELSE "fallback-ascii-only"}]

-----------------------------------------------------------------------------
(* Cutting a document to the window, as a document again (for the prefix    *)
(* property).  Cut markup becomes an inert fragment "frag" that ends the    *)
(* input; a cut run of runes becomes its complete runes plus a "part".      *)
CutChunk(c, v) ==
  IF v = c.n THEN <<c>>
  ELSE IF c.k = "hi" THEN
       (IF v \div c.w > 0 THEN <<[c EXCEPT !.n = (v \div c.w) * c.w]>> ELSE <<>>)
       \o (IF v % c.w > 0 THEN <<[c EXCEPT !.k = "part", !.n = v % c.w]>> ELSE <<>>)
  ELSE IF c.k \in {"asc", "bad", "part"} THEN <<[c EXCEPT !.n = v]>>
  ELSE <<[c EXCEPT !.k = "frag", !.n = v]>>

RECURSIVE Truncate(_, _)
Truncate(ch, i) == IF i > Len(ch) \/ Vis(ch, i) = 0 THEN <<>>
                   ELSE CutChunk(ch[i], Vis(ch, i)) \o Truncate(ch, i + 1)

(* "frag" (only produced by Truncate, always last): inert ASCII *)

-----------------------------------------------------------------------------
(* Design-level properties of Decide, checked by TLC on every generated     *)
(* document.                                                                *)

Precedence(ch, ct, d) ==
  /\ (Len(ch) >= 1 /\ ch[1].k = "bom") => d.certain /\ d.names = {BomName(ch[1].f)}
  /\ (~(Len(ch) >= 1 /\ ch[1].k = "bom") /\ CTName(ct) # None) => d.certain /\ d.names = {CTName(ct)}
  /\ d.certain <=> ((Len(ch) >= 1 /\ ch[1].k = "bom") \/ CTName(ct) # None)
  /\ d.at > 0 => ~d.certain
  /\ d.names # {} /\ \A nm \in d.names : Canon(nm) = nm

PrefixProperty(ch, ct, d) ==
  LET t == Decide(Truncate(ch, 1), ct) IN
  d.names = t.names /\ d.certain = t.certain /\ d.at = t.at

FirstMetaWins(ch, ct, d) ==
  d.at > 0 =>
    /\ ch[d.at].k = "meta" /\ Complete(ch, d.at)
    /\ \A j \in 1..(d.at - 1) : ch[j].k = "meta" => MetaEval(ch[j].attrs).e = None
    /\ \A j \in 1..(d.at - 1) : ~(ch[j].k = "raw" /\ ch[j].f = "open")
    /\ Decide(SubSeq(ch, 1, d.at), ct).names = d.names              \* nothing after it matters
    /\ d.names \cap {"utf-16le", "utf-16be", "x-user-defined"} = {}

(* the meta rules by themselves *)
MetaFacts(attrs) ==
  LET r == MetaEval(attrs)
      Has(a) == \E i \in 1..Len(attrs) : attrs[i].a = a
      First(a) == attrs[CHOOSE i \in 1..Len(attrs) : attrs[i].a = a /\ \A j \in 1..(i - 1) : attrs[j].a # a] IN
  /\ (~Has("charset") /\ ~Has("content")) => r.e = None
  /\ (~Has("charset") /\ ~(\E i \in 1..Len(attrs) : attrs[i].a = "he" /\ attrs[i].v = "ct")) => r.e = None
  /\ (Has("charset") /\ Canon(First("charset").v) \notin {None, "utf-16le", "utf-16be", "x-user-defined"})
        => r.e = Canon(First("charset").v)                             \* charset wins over content, pragma or not
  /\ r.e \notin {"utf-16le", "utf-16be", "x-user-defined"}
=============================================================================
