# publicsuffix family hooks: the signature of a rejected trace is the set of verdict classes
# TLC computed for the first rejected line (Trace.tla, variable bad: pairs <<query kind, verdict>>),
# without the query kinds and without values, so that one defect is one signature and a
# different disagreement (another verdict class) is still reported.
import re


def signature(prop, kind, scenario, detail):
    what = (detail or {}).get("what", "")
    try:
        if kind == "trace":
            m = re.match(r"invariant (\w+)", what)
            if m:
                st = what.split(" state=", 1)[1] if " state=" in what else ""
                verdicts = sorted(set(re.findall(r'<<\\"[\w-]+\\", \\"([^"\\]+)\\">>', st)))
                return "psl;" + ("+".join(verdicts) if verdicts else "inv=" + m.group(1))
            ev = re.search(r'"e": "(\w+)"', what)
            return "psl;unmatched;event=%s" % (ev.group(1) if ev else "?")
    except Exception:
        return None
    return None
