SPECIFICATION Spec
CONSTANTS
  Names = {"a", "b"}
  MaxRuleLen = 2
  MaxDomLen = 3
  MaxRules = 2
INVARIANT Inv
CHECK_DEADLOCK FALSE
