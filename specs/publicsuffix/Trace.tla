------------------------------- MODULE Trace -------------------------------
(* Trace validation for C51.  The driver decodes the embedded table into its rule   *)
(* list and, for domains built from the embedded rules, logs per query              *)
(*    n    number of labels of the domain                                           *)
(*    f    for k = 1..n: which rules exist for exactly the last k labels            *)
(*         <<plain?, icann, exception?, icann, wildcard below?, icann>>  (facts      *)
(*         read off the decoded rule list, not the answer)                          *)
(*    ps, ic   PublicSuffix(domain): number of labels of the answer (-1 if it is    *)
(*         not a label-aligned suffix of the domain) and the icann result           *)
(*    e1, ee   EffectiveTLDPlusOne(domain): number of labels of the answer (-1 if   *)
(*         not aligned, 0 with an error) and whether an error was returned          *)
(* One line carries all queries derived from one embedded rule.  The step that      *)
(* consumes a line computes the expected answers with PSL.tla from the facts and    *)
(* stores the kinds of the queries that disagree in bad; Conforms (invariant) says  *)
(* there are none.                                                                  *)
EXTENDS PSL, TraceIO

VARIABLES cur, l, bad
tvars == <<cur, l, bad>>

Line == Trace[l]

\* (only what the operators below apply functions to; a fact that is not 1 counts as 0)
WellTyped(q) ==
    /\ q.n \in 1..40
    /\ Len(q.f) = q.n
    /\ \A k \in 1..q.n : Len(q.f[k]) = 6
    /\ q.ic \in BOOLEAN /\ q.ee \in BOOLEAN

\* what is wrong with query q: "" if nothing.  A wrong icann result is classed by where the
\* expected flag comes from (reporting only).
Verdict(q) ==
    LET M  == FactMatches(q.n, q.f)
        A  == Prevail(M)
        As == {a \in A : a.len = q.ps}
    IN IF As = {} THEN "suffix"
       ELSE IF \A a \in As : a.icann # q.ic THEN
            "icann:" \o (IF M = {} THEN (IF \E k \in 1..q.n : q.f[k][5] = 1 THEN "no-rule-matches-below-wildcard-parent"
                                         ELSE "no-rule-matches")
                         ELSE IF q.ic THEN "private-rule-prevails" ELSE "icann-rule-prevails")
                     \o (IF q.ic THEN ":got-true" ELSE ":got-false")
       ELSE LET e == TLDPlusOne(q.n, q.ps) IN
            IF e.ok /\ (q.ee \/ q.e1 # e.len) THEN "etld1"
            ELSE IF ~e.ok /\ ~q.ee THEN "etld1-noerror"
            ELSE ""

TInit ==
    \E t \in 1..NT :
       LET h == Trace[Meta.starts[t]] IN
       /\ cur = t /\ l = Meta.starts[t] + 1 /\ bad = {}
       /\ h.e = "hdr" /\ h.rules >= 1 /\ h.decoded = "ok"

TRule ==
    /\ Line.e = "rule"
    /\ \A i \in 1..Len(Line.qs) : WellTyped(Line.qs[i])
    /\ bad' = {<<Line.qs[i].k, Verdict(Line.qs[i])>> : i \in {j \in 1..Len(Line.qs) : Verdict(Line.qs[j]) # ""}}

TNext ==
    /\ l <= Meta.ends[cur]
    /\ l' = l + 1 /\ cur' = cur
    /\ TRule

TSpec == TInit /\ [][TNext]_tvars

Mark == HighWater(cur, l)

Conforms == bad = {}
=============================================================================
