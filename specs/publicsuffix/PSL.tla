-------------------------------- MODULE PSL --------------------------------
(* The public suffix list algorithm (https://publicsuffix.org/list/, "Formal         *)
(* algorithm") on label sequences.                                                   *)
(*                                                                                   *)
(*   A domain is a sequence of labels, left to right ("www.example.com" =            *)
(*   <<"www","example","com">>).  A rule is [ls, kind, icann]: ls its labels without *)
(*   the mark, kind "n" (plain rule ls), "w" (wildcard rule "*." ls: any one label   *)
(*   followed by ls) or "e" (exception rule "!" ls), icann whether the rule stands   *)
(*   in the ICANN section of the list.                                               *)
(*                                                                                   *)
(*   1. Match domain against all rules and take note of the matching ones.           *)
(*   2. If no rules match, the prevailing rule is "*".                               *)
(*   3. If more than one rule matches, the prevailing rule is the one which is an    *)
(*      exception rule.                                                              *)
(*   4. If there is no matching exception rule, the prevailing rule is the one with  *)
(*      the most labels.                                                             *)
(*   5. If the prevailing rule is an exception rule, modify it by removing the       *)
(*      leftmost label.                                                              *)
(*   6. The public suffix is the set of labels from the domain which match the       *)
(*      labels of the prevailing rule.                                               *)
(*   7. The registrable domain is the public suffix plus one additional label.       *)
(*                                                                                   *)
(* Only the NUMBER of labels of the answer matters (the answer is always the last    *)
(* so-many labels of the domain), so a matching rule is reduced to a descriptor      *)
(* [kind, len, icann] and the outcome to [len, icann].  Where the list itself is     *)
(* ambiguous (two matching exception rules; a plain and a wildcard rule of the same  *)
(* length in different sections) every outcome the text allows is admitted.          *)
EXTENDS Integers, Sequences, FiniteSets

Last(d, k) == SubSeq(d, Len(d) - k + 1, Len(d))

RuleLen(r) == IF r.kind = "w" THEN Len(r.ls) + 1 ELSE Len(r.ls)

Matches(r, d) == Len(d) >= RuleLen(r) /\ Last(d, Len(r.ls)) = r.ls

Desc(r) == [kind |-> r.kind, len |-> RuleLen(r), icann |-> r.icann]

\* steps 2-6 on the descriptors M of the matching rules
DefaultOutcome == [len |-> 1, icann |-> FALSE]          \* rule "*", not in the list
Outcome(m) == [len |-> IF m.kind = "e" THEN m.len - 1 ELSE m.len, icann |-> m.icann]
Prevail(M) ==
    LET E == {m \in M : m.kind = "e"} IN
    IF M = {} THEN {DefaultOutcome}
    ELSE IF E # {} THEN {Outcome(m) : m \in E}
    ELSE {Outcome(m) : m \in {x \in M : \A y \in M : y.len <= x.len}}

\* the admissible (public suffix length, icann) outcomes for domain d under rule set R
Suffix(d, R) == Prevail({Desc(r) : r \in {x \in R : Matches(x, d)}})

\* step 7: EffectiveTLDPlusOne for a domain of n labels whose public suffix has len labels:
\* one more label, or no answer if the domain has none to give
TLDPlusOne(n, len) == IF n > len THEN [ok |-> TRUE, len |-> len + 1] ELSE [ok |-> FALSE, len |-> 0]

(* ------------------------------------------------------------------------------- *)
(* The same from per-suffix FACTS, as the conformance driver logs them: for a      *)
(* domain of n labels, f[k] (k = 1..n) says which rules exist in the embedded list *)
(* for exactly the last k labels of the domain:                                    *)
(*   f[k] = <<plain?, its icann, exception?, its icann, wildcard "*.<suffix>"?, its icann>>   (0/1) *)
FactMatches(n, f) ==
    {[kind |-> "n", len |-> k, icann |-> f[k][2] = 1] : k \in {j \in 1..n : f[j][1] = 1}}
    \cup {[kind |-> "e", len |-> k, icann |-> f[k][4] = 1] : k \in {j \in 1..n : f[j][3] = 1}}
    \cup {[kind |-> "w", len |-> k + 1, icann |-> f[k][6] = 1] : k \in {j \in 1..(n - 1) : f[j][5] = 1}}

SuffixFromFacts(n, f) == Prevail(FactMatches(n, f))

\* the facts of domain d under rule set R (what the driver computes by table lookups)
Bit(b) == IF b THEN 1 ELSE 0
FactsOf(d, R) ==
    [k \in 1..Len(d) |->
        LET s  == Last(d, k)
            Rn == {r \in R : r.kind = "n" /\ r.ls = s}
            Re == {r \in R : r.kind = "e" /\ r.ls = s}
            Rw == {r \in R : r.kind = "w" /\ r.ls = s}
        IN <<Bit(Rn # {}), Bit(\E r \in Rn : r.icann), Bit(Re # {}), Bit(\E r \in Re : r.icann),
             Bit(Rw # {}), Bit(\E r \in Rw : r.icann)>>]

(* ------------------------------------------------------------------------------- *)
(* A second formulation: one pass over the labels from the right, descending a     *)
(* tree of rule nodes (how a compiled list is walked).  st = [len, icann, wild,    *)
(* wicann]: the best outcome so far, and whether the node just passed carries a    *)
(* wildcard rule (and that rule's section).                                        *)
HasNode(s, R) == \E r \in R : Len(r.ls) >= Len(s) /\ Last(r.ls, Len(s)) = s

RECURSIVE WalkFrom(_, _, _, _)
WalkFrom(d, R, k, st) ==
    LET st1 == IF st.wild THEN [st EXCEPT !.len = k, !.icann = st.wicann] ELSE st   \* label k matched by "*"
        s   == Last(d, k)
    IN IF k > Len(d) THEN st
       ELSE IF ~HasNode(s, R) THEN st1
       ELSE LET Re == {r \in R : r.kind = "e" /\ r.ls = s}
                Rn == {r \in R : r.kind = "n" /\ r.ls = s}
                Rw == {r \in R : r.kind = "w" /\ r.ls = s}
            IN IF Re # {} THEN [st1 EXCEPT !.len = k - 1, !.icann = (CHOOSE r \in Re : TRUE).icann, !.wild = FALSE]
               ELSE LET st2 == IF Rn # {} THEN [st1 EXCEPT !.len = k, !.icann = (CHOOSE r \in Rn : TRUE).icann] ELSE st1
                    IN WalkFrom(d, R, k + 1,
                                [st2 EXCEPT !.wild = (Rw # {}),
                                            !.wicann = IF Rw # {} THEN (CHOOSE r \in Rw : TRUE).icann ELSE FALSE])

Walk(d, R) ==
    LET st == WalkFrom(d, R, 1, [len |-> 0, icann |-> FALSE, wild |-> FALSE, wicann |-> FALSE])
    IN IF st.len = 0 THEN DefaultOutcome ELSE [len |-> st.len, icann |-> st.icann]

\* rule sets on which both formulations are meant to agree: as the list format requires, an
\* exception rule has at least two labels and cancels a wildcard rule ("!a.b" needs "*.b"),
\* and no label sequence carries two rules of one kind
WellFormed(R) ==
    /\ \A r \in R : Len(r.ls) >= 1
    /\ \A r \in R : r.kind = "e" =>
          /\ Len(r.ls) >= 2
          /\ \E w \in R : w.kind = "w" /\ w.ls = Last(r.ls, Len(r.ls) - 1)
    /\ \A r, q \in R : (r.kind = q.kind /\ r.ls = q.ls) => r = q
    \* nested exceptions do not occur
    /\ \A r, q \in R : (r.kind = "e" /\ q.kind = "e" /\ r # q) =>
          ~(Len(q.ls) > Len(r.ls) /\ Last(q.ls, Len(r.ls)) = r.ls)
=============================================================================
