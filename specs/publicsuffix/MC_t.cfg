SPECIFICATION Spec
CONSTANTS
  Names = {"a", "b"}
  MaxRuleLen = 2
  MaxDomLen = 4
  MaxRules = 3
INVARIANT Inv
CHECK_DEADLOCK FALSE
