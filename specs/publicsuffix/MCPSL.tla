------------------------------- MODULE MCPSL -------------------------------
(* Model stage for C51: on every well-formed rule set of at most MaxRules rules   *)
(* over Names (label sequences of at most MaxRuleLen labels, all three kinds, both *)
(* sections) and every domain of at most MaxDomLen labels, the published          *)
(* algorithm (Suffix), its evaluation from per-suffix facts (SuffixFromFacts, the  *)
(* form used to judge recorded traces) and the one-pass tree walk (Walk) agree.   *)
(* A state is the first rule; the invariant quantifies over the remaining rules   *)
(* (all sets of fewer than MaxRules further rules, plus every wildcard/exception   *)
(* pair) and over the domains.                                                    *)
EXTENDS PSL, TLC

CONSTANTS Names, MaxRuleLen, MaxDomLen, MaxRules

VARIABLE r0

RECURSIVE SeqsOfLen(_, _)
SeqsOfLen(A, n) == IF n = 0 THEN {<<>>} ELSE {Append(s, x) : s \in SeqsOfLen(A, n - 1), x \in A}

RuleSeqs == UNION {SeqsOfLen(Names, n) : n \in 1..MaxRuleLen}
Domains  == UNION {SeqsOfLen(Names, n) : n \in 1..MaxDomLen}
AllRules == [ls : RuleSeqs, kind : {"n", "w", "e"}, icann : BOOLEAN]

\* two levels so that TLC's workers share the work (initial states are handled by one thread)
StartKinds == {"sn", "sw", "se"}
Starts == [ls : {<<>>}, kind : StartKinds, icann : BOOLEAN]
Init == r0 \in Starts
Next == r0 \in Starts /\ r0' \in {r \in AllRules : "s" \o r.kind = r0.kind /\ r.icann = r0.icann}
Spec == Init /\ [][Next]_r0

\* rule sets of at most MaxRules rules that contain r0
Wilds == {r \in AllRules : r.kind = "w" /\ Len(r.ls) < MaxRuleLen}
Excs  == {r \in AllRules : r.kind = "e"}

Agree(R) ==
    \A d \in Domains :
        LET A == Suffix(d, R) IN
        /\ A # {}
        /\ SuffixFromFacts(Len(d), FactsOf(d, R)) = A
        /\ Walk(d, R) \in A
        /\ \A a \in A : a.len >= 1 /\ a.len <= Len(d)
                        /\ LET e == TLDPlusOne(Len(d), a.len) IN e.ok <=> Len(d) > a.len

Check(R) == WellFormed(R) => Agree(R)

\* all rule sets {r0} + fewer than MaxRules further rules (MaxRules <= 3), and {r0} + every
\* wildcard rule with one exception below it
Inv == \/ r0 \in Starts
       \/ /\ Check({r0})
          /\ MaxRules >= 2 => \A a \in AllRules : Check({r0, a})
          /\ MaxRules >= 3 => \A a \in AllRules : \A b \in AllRules : Check({r0, a, b})
          /\ \A w \in Wilds : \A e \in Excs : Check({r0, w, e})
=============================================================================
