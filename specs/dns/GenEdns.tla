------------------------------- MODULE GenEdns -------------------------------
(* C38 cases, spec -> code.  One CASE per extended RCODE x:                             *)
(*   lo       the header RCODE (low 4 bits) to pass to ExtendedRCode                    *)
(*   ttl      the four TTL bytes the layout gives for DO = false / true                 *)
(*   sizes    the payload sizes; for every size and both DO values the driver calls      *)
(*            SetEDNS0(size, x, do) and compares TTL bytes, CLASS (= size), TYPE (41),   *)
(*            NAME (root), ExtendedRCode(lo) (= x) and DNSSECAllowed() (= do)            *)
(*   wires    (size, do, the 11 bytes of the OPT RR's fixed part): the header is packed  *)
(*            into a message whose header RCODE is lo, compared with these bytes,        *)
(*            unpacked again and read back.  All sizes for the boundary x, four per x    *)
(*            otherwise.                                                                 *)
EXTENDS MCEdns, Json, FiniteSets

BoundaryX == {0, 1, 15, 16, 17, 255, 256, 2047, 2048, 4079, 4080, 4095}

WireSizes(x) == IF x \in BoundaryX THEN SizeSet
                ELSE {SizeSeq[1 + (x % Len(SizeSeq))], SizeSeq[1 + ((7 * x + 3) % Len(SizeSeq))]}

SetToSeq(S) == LET RECURSIVE TS(_)
                   TS(T) == IF T = {} THEN <<>> ELSE LET m == CHOOSE v \in T : TRUE IN <<m>> \o TS(T \ {m})
               IN TS(S)

Item(x) == [x |-> x, lo |-> Low4(x),
            ttl |-> [f |-> Ttl(x, FALSE), t |-> Ttl(x, TRUE)],
            sizes |-> SizeSeq,
            wires |-> SetToSeq({[size |-> s, do |-> d, wire |-> Wire(x, s, d, 0)] : s \in WireSizes(x), d \in BOOLEAN})]

Emit == "x" \in DOMAIN c => Holds /\ PrintT(<<"CASE", ToJson(Item(c.x))>>)
=============================================================================
