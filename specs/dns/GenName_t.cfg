INIT Init
NEXT Next
CONSTANTS
  Alphabet = {0, 1, 2, 3, 46, 63, 64, 97, 128, 192, 255}
  MaxLen = 5
  NLabels = 0
  MaxNames = 0
  MaxLabelsPerName = 0
  Part = "decode"
INVARIANTS Check
CHECK_DEADLOCK FALSE
