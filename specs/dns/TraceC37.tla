------------------------------ MODULE TraceC37 ------------------------------
(* C37 trace validation.  One trace = one byte string (packed messages mutated in their  *)
(* length fields, counts, pointers, record lengths; truncations; random bytes):           *)
(*   {"e":"input","n":len,"has":b,"msg":[bytes]}     header (msg omitted for huge inputs) *)
(*   {"e":"unpack","ok":b,hdr,recs,names,nlens,lens}  Message.Unpack                       *)
(*   {"e":"stream","ok":b,hdr,recs,names}             Parser, record by record             *)
(*   {"e":"land","k":"q"|"rec"|"all","sec":s,"i":i,"n":len,                                *)
(*      "parse":{ok,off},"skip":{ok,off},"hskip":{ok,off},"typed":{ok,off}}                *)
(*        from one parser state: the parse method, the Skip method, header + Skip, header   *)
(*        + typed body method; the offsets they reach                                       *)
(*   {"e":"name","at":off,"ok":b,"name":[[..]..],"next":n,"sk":{ok,next}}                   *)
(*        Name.unpack / skipName at the offsets where the message has names and at a few    *)
(*        arbitrary offsets; judged by DnsName!Decode on the input bytes                    *)
(*   {"e":"repack","ok":b,"uok":b,hdr,recs,names,lens,plens}   Pack of the unpacked message *)
(*        and Unpack of that                                                               *)
(*   {"e":"end"}                                                                           *)
(* A panic or a hang is logged as its own event, which no action matches.                  *)
EXTENDS DnsMessage, DnsName, TraceIO

VARIABLES inp, u, seen, cur, l
vars == <<inp, u, seen>>
Line == Trace[l]

NoMsg == [ok |-> FALSE, hdr |-> "", recs |-> <<>>, names |-> <<>>]

TInit ==
    \E t \in 1 .. NT :
       LET h == Trace[Meta.starts[t]] IN
       /\ cur = t /\ l = Meta.starts[t] + 1
       /\ h.e = "input"
       /\ inp = [n |-> h.n, has |-> h.has, msg |-> h.msg]
       /\ u = NoMsg /\ seen = {}

TUnpack ==
    /\ Line.e = "unpack" /\ "unpack" \notin seen
    /\ Line.ok => NamesBounded(Line)
    /\ u' = [ok |-> Line.ok, hdr |-> Line.hdr, recs |-> Line.recs, names |-> Line.names]
    /\ seen' = seen \cup {"unpack"}
    /\ UNCHANGED inp

TStream ==
    /\ Line.e = "stream" /\ "unpack" \in seen
    /\ Agree(u, Line)
    /\ seen' = seen \cup {"stream"}
    /\ UNCHANGED <<inp, u>>

TLand ==
    /\ Line.e = "land"
    /\ SkipLands(Line.parse, Line.skip)
    /\ Line.k = "rec" => SkipLands(Line.parse, Line.hskip) /\ ParseLands(Line.parse, Line.typed)
    /\ UNCHANGED vars

TName ==
    /\ Line.e = "name" /\ inp.has
    /\ LET d == Decode(inp.msg, Line.at) IN
       /\ ~d.ok => ~Line.ok
       /\ (d.ok /\ d.hops <= HopFloor) => Line.ok
       /\ Line.ok => /\ Line.name = d.name /\ Line.next = d.next
                     /\ Line.sk.ok /\ Line.sk.next = d.next
    /\ UNCHANGED vars

TRepack ==
    /\ Line.e = "repack" /\ u.ok
    /\ Repacks(u, Line)
    /\ seen' = seen \cup {"repack"}
    /\ UNCHANGED <<inp, u>>

TEnd ==
    /\ Line.e = "end"
    /\ {"unpack", "stream"} \subseteq seen
    /\ u.ok => "repack" \in seen
    /\ UNCHANGED vars

TNext ==
    /\ l <= Meta.ends[cur] /\ l' = l + 1 /\ cur' = cur
    /\ (TUnpack \/ TStream \/ TLand \/ TName \/ TRepack \/ TEnd)

TSpec == TInit /\ [][TNext]_<<vars, cur, l>>
Mark == HighWater(cur, l)
=============================================================================
