INIT Init
NEXT Next
CONSTANTS
  Mode = "byx"
  Tier = "quick"
INVARIANTS Emit
CHECK_DEADLOCK FALSE
