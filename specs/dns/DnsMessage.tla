------------------------------ MODULE DnsMessage ------------------------------
(* Message-level equations of C36 and C37 (tier C: the property-level machine).        *)
(* The record codecs (A, AAAA, NS, CNAME, SOA, PTR, MX, TXT, SRV, SVCB/HTTPS, OPT,      *)
(* unknown types) are not transcribed; the specification states what the properties     *)
(* state, over canonical projections of messages that the driver logs:                   *)
(*     hdr    one string: id and every header flag / code                                *)
(*     recs   one string per question / resource in section order: section, owner name,  *)
(*            class, TTL, type and every field of the body (long bodies as length+digest) *)
(*     names  every domain name of the message in wire order (escaped text)              *)
(*     lens   ResourceHeader.Length of every resource (the field Pack fills in)          *)
(* Two messages are the same message iff hdr, recs and names agree.                      *)
EXTENDS Integers, Sequences

Same(a, b) == a.hdr = b.hdr /\ a.recs = b.recs /\ a.names = b.names

(* ---- C36: for a well-formed message m ------------------------------------------------ *)
\* Unpack(bytes) = m, where bytes = Pack(m) or the Builder's output (compression on / off);
\* in particular the names decoded from compressed bytes are m's names
UnpacksTo(m, u) == u.ok /\ Same(m, u)
\* the RDLENGTHs Pack reports having written are the ones Unpack reads
LengthsKept(p, u) == u.lens = p.lens

(* ---- C37: for an arbitrary byte string ------------------------------------------------ *)
\* Message.Unpack and the streaming Parser agree: same message, or both fail
Agree(u, s) == (u.ok = s.ok) /\ (u.ok => Same(u, s))
\* a Skip method lands where the corresponding parse method lands (Skip methods validate
\* less, so they may succeed where parsing fails - documented on SkipAnswer & co.)
SkipLands(parse, skip) == parse.ok => (skip.ok /\ skip.off = parse.off)
\* two ways of parsing the same record (Answer() / AnswerHeader() + typed method) agree
ParseLands(a, b) == (a.ok = b.ok) /\ (a.ok => a.off = b.off)
\* decoded names are at most 255 bytes
NamesBounded(u) == \A i \in DOMAIN u.nlens : u.nlens[i] \in 1 .. 255
\* what Unpack accepts packs again, and unpacks to an equal message
Repacks(u, r) == r.ok /\ r.uok /\ Same(u, r) /\ r.lens = r.plens
=============================================================================
