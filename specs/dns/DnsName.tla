------------------------------- MODULE DnsName -------------------------------
(* Wire grammar of a domain name (RFC 1035 sections 2.3.4, 3.1, 4.1.4), as far as     *)
(* properties C36 and C37 need it.                                                    *)
(*                                                                                    *)
(* A message is a sequence of bytes (TLA+ index = Go offset + 1; all offsets below     *)
(* are Go offsets, 0-based).  A name is a sequence of labels; a label is a non-empty   *)
(* sequence of at most 63 bytes none of which is '.' (C37: "never contain '.' inside   *)
(* a label"; the package represents a name as dotted text, so a dot inside a label     *)
(* could not be told from a separator).  The empty sequence is the root.               *)
(*                                                                                    *)
(* Decode(msg, off) walks length bytes:                                               *)
(*     0            end of the name                                                   *)
(*     1 .. 63      a label of that many bytes follows                                *)
(*     0xC0 | hi, lo  compression pointer to offset hi*256 + lo                       *)
(*     0x40.., 0x80..  reserved prefixes: invalid                                     *)
(* The offset at which the enclosing record continues (next) is fixed at the first     *)
(* pointer.  A name is at most 255 bytes on the wire (length bytes and root included). *)
(* Decoding from a given offset is a function of that offset alone, so a finite decode *)
(* never visits an offset twice: a walk that follows Len(msg) pointers is a loop       *)
(* (or grows for ever) and is invalid.  That is the *ideal* decoder.                   *)
(*                                                                                    *)
(* Hop budget.  C37 demands that pointer chains terminate; a decoder may therefore     *)
(* give up on an acyclic chain that is longer than some budget.  C36 demands that      *)
(* whatever the packer produces is unpacked again: a packer that compresses name       *)
(* suffixes yields, for nested names n1 < n2 < ... (each one label longer), a chain of *)
(* k-1 pointers for the k-th name (k when that name occurs a second time), and a legal  *)
(* name has at most 127 labels.  So the budget may not be below HopFloor = 127:         *)
(* Verdict is "accept" up to HopFloor hops, "either" above it (both the ideal result    *)
(* and a rejection are allowed).                                                       *)
EXTENDS Integers, Sequences, FiniteSets

Dot      == 46
MaxLabel == 63
MaxWire  == 255                       \* bytes of a name on the wire, uncompressed
MaxLabels == (MaxWire - 1) \div 2     \* 127 one-byte labels
HopFloor == MaxLabels                 \* longest chain a suffix-compressing packer produces

Range(s) == {s[i] : i \in DOMAIN s}
At(msg, o) == msg[o + 1]

RECURSIVE WireLenOf(_)
WireLenOf(name) == IF name = <<>> THEN 1 ELSE Len(Head(name)) + 1 + WireLenOf(Tail(name))

LabelOK(lab) == Len(lab) \in 1 .. MaxLabel /\ Dot \notin Range(lab) /\ \A i \in DOMAIN lab : lab[i] \in 0 .. 255
WellFormed(name) == (\A i \in DOMAIN name : LabelOK(name[i])) /\ WireLenOf(name) <= MaxWire

Reject == [ok |-> FALSE, name |-> <<>>, next |-> 0, hops |-> 0]

(* cur: offset being read; name, wlen: labels read so far and their wire size;        *)
(* hops: pointers followed; next: -1 or the offset after the first pointer.           *)
RECURSIVE Walk(_, _, _, _, _, _)
Walk(msg, cur, name, wlen, hops, next) ==
    IF cur < 0 \/ cur >= Len(msg) THEN Reject                       \* truncated
    ELSE LET c == At(msg, cur) IN
      IF c = 0 THEN [ok |-> TRUE, name |-> name, next |-> IF next >= 0 THEN next ELSE cur + 1, hops |-> hops]
      ELSE IF c <= MaxLabel THEN
          IF cur + 1 + c > Len(msg) THEN Reject                     \* label runs past the end
          ELSE LET lab == SubSeq(msg, cur + 2, cur + 1 + c) IN
               IF Dot \in Range(lab) THEN Reject                    \* '.' inside a label
               ELSE IF wlen + c + 1 + 1 > MaxWire THEN Reject       \* name longer than 255 bytes
               ELSE Walk(msg, cur + 1 + c, Append(name, lab), wlen + c + 1, hops, next)
      ELSE IF c >= 192 THEN
          IF cur + 1 >= Len(msg) THEN Reject                        \* truncated pointer
          ELSE IF hops >= Len(msg) THEN Reject                      \* pointer loop
          ELSE Walk(msg, (c - 192) * 256 + At(msg, cur + 1), name, wlen, hops + 1,
                    IF next >= 0 THEN next ELSE cur + 2)
      ELSE Reject                                                   \* reserved prefix 0x40 / 0x80

Decode(msg, off) == Walk(msg, off, <<>>, 0, 0, 0 - 1)

(* What a conforming decoder has to do at (msg, off). *)
Verdict(msg, off) ==
    LET d == Decode(msg, off) IN
    IF ~d.ok THEN "reject" ELSE IF d.hops <= HopFloor THEN "accept" ELSE "either"

(* Skipping a name without decoding it: the position after it (labels are stepped     *)
(* over, the name ends at its zero byte or at its first pointer).  Skipping does not   *)
(* validate label contents, the 255 limit or pointer targets, so it may succeed where  *)
(* Decode rejects; where Decode accepts it has to land on Decode's next.               *)
RECURSIVE SkipWalk(_, _)
SkipWalk(msg, cur) ==
    IF cur < 0 \/ cur >= Len(msg) THEN [ok |-> FALSE, next |-> 0]
    ELSE LET c == At(msg, cur) IN
      IF c = 0 THEN [ok |-> TRUE, next |-> cur + 1]
      ELSE IF c <= MaxLabel THEN
          IF cur + 1 + c > Len(msg) THEN [ok |-> FALSE, next |-> 0] ELSE SkipWalk(msg, cur + 1 + c)
      ELSE IF c >= 192 THEN
          [ok |-> TRUE, next |-> cur + 2]          \* (a truncated pointer is left to the caller's bounds checks)
      ELSE [ok |-> FALSE, next |-> 0]

Skip(msg, off) == SkipWalk(msg, off)

(* ---- packing ---------------------------------------------------------------------- *)
RECURSIVE Flat(_)
Flat(name) == IF name = <<>> THEN <<0>> ELSE <<Len(Head(name))>> \o Head(name) \o Flat(Tail(name))

Suffix(name, i) == SubSeq(name, i, Len(name))            \* labels i .. end

(* Packing with a compression table tab: [suffix -> offset] (a function on a finite set *)
(* of non-root suffixes).  At every label boundary: if the remaining suffix is in the   *)
(* table emit a pointer and stop, otherwise remember where it starts (offsets that fit  *)
(* 14 bits only) and emit the label.  pos = offset where the output is placed.          *)
PtrBytes(o) == <<192 + o \div 256, o % 256>>

RECURSIVE PackC(_, _, _, _)
PackC(name, i, pos, tab) ==
    IF i > Len(name) THEN [bytes |-> <<0>>, tab |-> tab]
    ELSE LET suf == Suffix(name, i) IN
         IF suf \in DOMAIN tab THEN [bytes |-> PtrBytes(tab[suf]), tab |-> tab]
         ELSE LET tab2 == IF pos < 16384 THEN [s \in DOMAIN tab \cup {suf} |-> IF s = suf THEN pos ELSE tab[s]]
                                          ELSE tab
                  rest == PackC(name, i + 1, pos + 1 + Len(name[i]), tab2)
              IN  [bytes |-> <<Len(name[i])>> \o name[i] \o rest.bytes, tab |-> rest.tab]

EmptyTab == [s \in {} |-> 0]

(* Pack a list of names one after the other starting at offset Len(prefix).            *)
RECURSIVE PackAll(_, _, _, _)
PackAll(names, k, acc, tab) ==
    \* acc = [msg, offs]
    IF k > Len(names) THEN acc
    ELSE LET r == PackC(names[k], 1, Len(acc.msg), tab) IN
         PackAll(names, k + 1, [msg |-> acc.msg \o r.bytes, offs |-> Append(acc.offs, Len(acc.msg))], r.tab)

PackedC(prefix, names) == PackAll(names, 1, [msg |-> prefix, offs |-> <<>>], EmptyTab)

RECURSIVE FlatAll(_, _, _)
FlatAll(names, k, acc) ==
    IF k > Len(names) THEN acc
    ELSE FlatAll(names, k + 1, [msg |-> acc.msg \o Flat(names[k]), offs |-> Append(acc.offs, Len(acc.msg))])
PackedFlat(prefix, names) == FlatAll(names, 1, [msg |-> prefix, offs |-> <<>>])

(* ---- theorems checked by TLC on bounded domains (see MCName) ----------------------- *)
DecodeSound(msg, off) ==
    LET d == Decode(msg, off) s == Skip(msg, off) IN
    d.ok => /\ WellFormed(d.name)
            /\ d.next \in off + 1 .. Len(msg)
            /\ s.ok /\ s.next = d.next
            /\ d.hops = 0 => d.next = off + WireLenOf(d.name) /\ SubSeq(msg, off + 1, d.next) = Flat(d.name)

RoundTrip(prefix, names) ==
    LET f == PackedFlat(prefix, names) c == PackedC(prefix, names) IN
    \A k \in DOMAIN names :
       LET df == Decode(f.msg, f.offs[k]) dc == Decode(c.msg, c.offs[k]) IN
       /\ df.ok /\ df.name = names[k] /\ df.hops = 0
       /\ df.next = IF k < Len(names) THEN f.offs[k + 1] ELSE Len(f.msg)
       /\ dc.ok /\ dc.name = names[k] /\ dc.hops <= Len(names[k]) /\ dc.hops <= HopFloor
       /\ dc.next = IF k < Len(names) THEN c.offs[k + 1] ELSE Len(c.msg)
       /\ Len(c.msg) <= Len(f.msg)
=============================================================================
