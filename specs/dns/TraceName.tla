------------------------------ MODULE TraceName ------------------------------
(* C36, names: one trace = one list of names packed by the real Name.pack.             *)
(*  {"e":"pack","names":[[label..]..],"pre":P,"wf":b,                                   *)
(*   "flat":{"ok":b,"msg":[..],"offs":[..]},     packed one after the other, no map      *)
(*   "comp":{"ok":b,"msg":[..],"offs":[..]},     the same with a compression map         *)
(*   "dec":[{"ok":b,"name":[..],"next":n}..]}    real Name.unpack of comp.msg at offs    *)
(* For well-formed names (labels 1..63 bytes without '.', at most 255 wire bytes) TLC    *)
(* accepts the record iff                                                                *)
(*   - without compression the bytes are exactly the RFC 1035 encoding,                  *)
(*   - with compression every name *decodes* (DnsName!Decode on the real bytes) to the   *)
(*     name that was packed and the next name starts where the previous one ended        *)
(*     ("compression never changes the decoded names"); which suffix is replaced by a     *)
(*     pointer is the packer's business,                                                 *)
(*   - the real unpacker returns that same name and offset (it may only give up on a      *)
(*     chain longer than HopFloor).                                                      *)
(* Lists containing an ill-formed name are outside C36's quantifier: recorded, accepted.  *)
EXTENDS DnsName, TraceIO

VARIABLES cur, l
tvars == <<cur, l>>
Line == Trace[l]
Rep(x, n) == [i \in 1 .. n |-> x]

TInit == \E t \in 1 .. NT : cur = t /\ l = Meta.starts[t]

NextOff(p, k) == IF k < Len(p.offs) THEN p.offs[k + 1] ELSE Len(p.msg)

Judge(ln) ==
    LET names == ln.names
        want == PackedFlat(Rep(0, ln.pre), names)
    IN
    /\ ln.flat.ok /\ ln.flat.msg = want.msg /\ ln.flat.offs = want.offs
    /\ ln.comp.ok /\ Len(ln.comp.offs) = Len(names) /\ Len(ln.dec) = Len(names)
    /\ Len(ln.comp.msg) <= Len(ln.flat.msg)
    /\ \A k \in DOMAIN names :
          LET d == Decode(ln.comp.msg, ln.comp.offs[k]) r == ln.dec[k] IN
          /\ d.ok /\ d.name = names[k] /\ d.next = NextOff(ln.comp, k)
          /\ (d.hops <= HopFloor) => r.ok
          /\ r.ok => r.name = names[k] /\ r.next = d.next

TPack ==
    /\ Line.e = "pack"
    /\ (\A k \in DOMAIN Line.names : WellFormed(Line.names[k])) => Judge(Line)

TNext == /\ l <= Meta.ends[cur] /\ l' = l + 1 /\ cur' = cur /\ TPack
TSpec == TInit /\ [][TNext]_tvars
Mark == HighWater(cur, l)
=============================================================================
