------------------------------- MODULE MCEdns -------------------------------
(* C38: the bounded domain.  Extended RCODEs: all 4096.  Payload sizes: 0, 1, 511, 512, *)
(* 1232, 4096, 65535 and every power of two with both neighbours (Tier "quick": 16 of    *)
(* these 47).  DO: both.                                                               *)
(* Mode "full": one state per (x, size, do) (model stage).  Mode "byx": one state per x, *)
(* the invariant ranges over all sizes and both DO values (generator; one CASE per x).   *)
(* (States are generated in blocks of 16 x so that TLC's workers share the work.)        *)
EXTENDS Edns0, TLC

CONSTANTS Mode, Tier
VARIABLE c

RECURSIVE Pow2(_)
Pow2(n) == IF n = 0 THEN 1 ELSE 2 * Pow2(n - 1)
SizeSeqT == <<0, 1, 2, 3, 4, 5, 7, 8, 9, 15, 16, 17, 31, 32, 33, 63, 64, 65, 127, 128, 129, 255, 256, 257,
             511, 512, 513, 1023, 1024, 1025, 1232, 2047, 2048, 2049, 4095, 4096, 4097, 8191, 8192, 8193,
             16383, 16384, 16385, 32767, 32768, 32769, 65535>>
SizeSeqQ == <<0, 1, 255, 256, 257, 511, 512, 513, 1232, 4095, 4096, 4097, 32767, 32768, 32769, 65535>>
SizeSeq == IF Tier = "quick" THEN SizeSeqQ ELSE SizeSeqT
SizeSet == {SizeSeq[i] : i \in DOMAIN SizeSeq}
ASSUME {SizeSeqQ[i] : i \in DOMAIN SizeSeqQ} \subseteq {SizeSeqT[i] : i \in DOMAIN SizeSeqT}
ASSUME {SizeSeqT[i] : i \in DOMAIN SizeSeqT} = ({0, 1, 511, 512, 1232, 4096, 65535} \cup
                  UNION {{Pow2(k) - 1, Pow2(k), Pow2(k) + 1} : k \in 1 .. 16}) \cap Sizes

Init == c \in [block : 0 .. 255]
Next == /\ "block" \in DOMAIN c
        /\ IF Mode = "full"
           THEN c' \in [x : {c.block * 16 + i : i \in 0 .. 15}, size : SizeSet, do : BOOLEAN]
           ELSE c' \in [x : {c.block * 16 + i : i \in 0 .. 15}]

Holds ==
    "x" \in DOMAIN c =>
       IF Mode = "full" THEN RoundTrip(c.x, c.size, c.do) /\ Independent(c.x, c.size, c.do)
       ELSE \A i \in DOMAIN SizeSeq, d \in BOOLEAN : RoundTrip(c.x, SizeSeq[i], d)
=============================================================================
