------------------------------- MODULE GenName -------------------------------
(* C37 / C36 name-level cases, spec -> code.  One CASE per message: for every listed   *)
(* offset the verdict of the grammar (accept / reject / either, see DnsName!Verdict),   *)
(* the decoded name (labels as byte lists) and the offset after the name, which is also *)
(* where skipping the name has to land whenever the name decodes.  Replayed on          *)
(* Name.unpack and skipName in-package.  DnsName's theorems are checked on the way.     *)
EXTENDS MCName, Json

Res(msg, off) ==
    LET d == Decode(msg, off) IN
    [v |-> IF ~d.ok THEN "reject" ELSE IF d.hops <= HopFloor THEN "accept" ELSE "either",
     name |-> d.name, next |-> d.next, hops |-> d.hops]

Item(m) == [kind |-> m.kind, msg |-> m.msg, offs |-> m.offs,
            res |-> [i \in DOMAIN m.offs |-> Res(m.msg, m.offs[i])]]

Check ==
    c.kind # "names" =>
       LET m == Mat(c) IN
       /\ DecodeOK(m) /\ BigAsIntended(m)
       /\ PrintT(<<"CASE", ToJson(Item(m))>>)
=============================================================================
