------------------------------- MODULE GenPack -------------------------------
(* C36 name-level scenarios, spec -> code -> spec.  TLC enumerates lists of names      *)
(* (every list of <= MaxNames names of <= MaxLabelsPerName labels over Labels with two   *)
(* prefix lengths, plus names at the 63 / 255 limits, nested suffix chains and odd       *)
(* bytes); the driver packs each list with the real Name.pack, without and with a        *)
(* compression map, unpacks the result and records everything; TLC judges the record     *)
(* with DnsName (TraceName).  RoundTrip is checked on the specification's own packer on  *)
(* the way.                                                                              *)
EXTENDS MCName, Json

Check ==
    (c.kind = "names" /\ Len(c.names) >= 1) =>
       /\ PackOK
       /\ PrintT(<<"CASE", ToJson([names |-> c.names, pre |-> c.pre, wf |-> AllWF(c.names)])>>)
=============================================================================
