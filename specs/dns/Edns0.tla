-------------------------------- MODULE Edns0 --------------------------------
(* The fixed part of the OPT pseudo-RR of EDNS(0), RFC 6891 section 6.1.2 / 6.1.3:     *)
(*                                                                                    *)
(*     NAME   root (one zero byte)        TYPE   41                                    *)
(*     CLASS  requestor's UDP payload size (16 bits)                                   *)
(*     TTL    byte 1: EXTENDED-RCODE = upper 8 bits of the 12-bit extended RCODE        *)
(*            byte 2: VERSION (0)                                                      *)
(*            byte 3, bit 7: DO (DNSSEC OK); the remaining 15 bits: Z, zero            *)
(*     RDLEN  length of the options                                                    *)
(* The lower 4 bits of the extended RCODE are the RCODE field of the message header.    *)
(* TTL is kept as four bytes (TLC integers are 32 bit).                                 *)
EXTENDS Integers, Sequences

TypeOPT == 41
ExtRCodes == 0 .. 4095
Sizes     == 0 .. 65535

Ttl(x, do)   == <<x \div 16, 0, IF do THEN 128 ELSE 0, 0>>
Low4(x)      == x % 16
Set(x, size, do) == [name |-> <<>>, type |-> TypeOPT, class |-> size, ttl |-> Ttl(x, do), rcode |-> Low4(x)]

Version(ttl)       == ttl[2]
ExtRCode(ttl, low) == ttl[1] * 16 + low
DoBit(ttl)         == ttl[3] \div 128 = 1

Get(h) == [x |-> ExtRCode(h.ttl, h.rcode), size |-> h.class, do |-> DoBit(h.ttl), version |-> Version(h.ttl)]

U16(v) == <<v \div 256, v % 256>>
\* NAME TYPE CLASS TTL RDLENGTH as they appear in a message
Wire(x, size, do, rdlen) == <<0>> \o U16(TypeOPT) \o U16(size) \o Ttl(x, do) \o U16(rdlen)

(* C38 on the layout: what was set is what is read, the three fields do not disturb    *)
(* each other, the version stays 0 and the Z bits stay zero.                           *)
RoundTrip(x, size, do) ==
    LET h == Set(x, size, do) g == Get(h) IN
    /\ g.x = x /\ g.size = size /\ g.do = do /\ g.version = 0
    /\ h.rcode \in 0 .. 15 /\ \A i \in 1 .. 4 : h.ttl[i] \in 0 .. 255
    /\ h.ttl[3] % 128 = 0 /\ h.ttl[4] = 0

Independent(x, size, do) ==
    /\ \A s2 \in {0, 65535} : Set(x, s2, do).ttl = Set(x, size, do).ttl
    /\ Set(x, size, ~do).class = size /\ Set(x, size, ~do).ttl[1] = Set(x, size, do).ttl[1]
    /\ Set((x + 16) % 4096, size, do).ttl[3] = Set(x, size, do).ttl[3]
=============================================================================
