# dns family hooks: signatures naming the scenario class of a rejected case / trace, so that a
# known finding suppresses only its own class.  The verdict always comes from TLC (a replay
# mismatch against TLC's prediction, or a trace TLC rejected); this file only classifies.

import re


def _slug(s, n=60):
    return re.sub(r"[^A-Za-z0-9]+", "-", s or "").strip("-")[:n]


def _name_case(item, detail):
    what = detail.get("what", "")
    step = detail.get("step")
    res = item.get("res") or []
    r = res[step] if isinstance(step, int) and 0 <= step < len(res) else {}
    act = detail.get("actual") if isinstance(detail.get("actual"), dict) else {}
    if what == "Name.unpack rejects a valid name" and 10 < r.get("hops", 0) <= 127 and "too many pointers" in act.get("err", ""):
        return "name.unpack;acyclic-chain-of-11..127-hops-rejected"
    return "name.unpack;%s;%s" % (item.get("kind", "?"), _slug(what))


def _c36_names(line):
    if line.get("e") != "pack":
        return "names;%s" % line.get("e")
    for part in ("flat", "comp"):
        if not (line.get(part) or {}).get("ok"):
            return "names;%s-pack-fails;%s" % (part, _slug((line.get(part) or {}).get("err", "")))
    for d in line.get("dec") or []:
        if not d.get("ok"):
            if "too many pointers" in d.get("err", ""):
                return "names;unpack-rejects-chain-produced-by-pack;too-many-pointers"
            return "names;unpack-rejects-own-pack;%s" % _slug(d.get("err", ""))
    return "names;bytes-or-names-differ"


def _c36_msg(lines):
    last = lines[-1]
    e = last.get("e")
    if e in ("panic", "hang") or e not in ("pack", "build", "unpack", "wire", "end"):
        return "message;%s;in=%s" % (e if e in ("panic", "hang") else "panic", _slug(last.get("in", str(e))))
    if e == "unpack" and not last.get("ok"):
        if "too many pointers" in last.get("err", ""):
            return "message;unpack-of-own-output-fails;too-many-pointers"
        return "message;unpack-of-%s-fails;%s" % (last.get("of"), _slug(last.get("err", "")))
    if e in ("pack", "build") and not last.get("ok"):
        return "message;%s-fails;%s" % (last.get("k", "pack"), _slug(last.get("err", "")))
    if e == "unpack":
        return "message;unpack-of-%s-differs" % last.get("of")
    if e == "end":
        return "message;incomplete"
    return "message;%s;%s" % (e, last.get("of", ""))


def _c37(lines):
    last = lines[-1]
    e = last.get("e")
    if e not in ("unpack", "stream", "land", "name", "repack", "end"):
        return "parse;%s;in=%s" % ("hang" if e == "hang" else "panic", _slug(last.get("in", str(e))))
    if e == "land":
        p, s, n = last.get("parse") or {}, last.get("skip") or {}, last.get("n", 0)
        hs, ty = last.get("hskip") or s, last.get("typed") or p
        if p.get("ok") and p.get("off", 0) > n and not s.get("ok") and not hs.get("ok") and ty.get("ok") == p.get("ok") \
                and ty.get("off", p.get("off")) == p.get("off"):
            return "land;parse-accepts-record-reaching-past-end-of-message;skip-rejects"
        if p.get("ok") and not s.get("ok"):
            return "land;%s;skip-fails-where-parse-succeeds;type=%s" % (last.get("k"), last.get("type", "?"))
        if p.get("ok") and s.get("ok") and last.get("k") == "rec" and (not hs.get("ok") or hs.get("off") != p.get("off")):
            return "land;rec;header-then-skip-does-not-land-where-parse-does;type=%s" % last.get("type", "?")
        if p.get("ok") and s.get("ok") and p.get("off") != s.get("off"):
            return "land;%s;skip-lands-elsewhere;type=%s" % (last.get("k"), last.get("type", "?"))
        return "land;%s;parse-methods-disagree;type=%s" % (last.get("k"), last.get("type", "?"))
    if e == "repack":
        if not last.get("ok"):
            return "repack;pack-fails;%s" % _slug(last.get("err", ""))
        if not last.get("uok"):
            if "too many pointers" in last.get("uerr", ""):
                return "repack;unpack-of-own-output-fails;too-many-pointers"
            return "repack;unpack-fails;%s" % _slug(last.get("uerr", ""))
        return "repack;message-differs"
    if e == "name":
        if not last.get("ok") and "too many pointers" in last.get("err", ""):
            return "name;acyclic-chain-rejected;too-many-pointers"
        return "name;%s" % ("accepted" if last.get("ok") else _slug(last.get("err", "")))
    if e == "stream":
        return "stream;parser-and-unpack-disagree"
    if e == "unpack":
        return "unpack;name-longer-than-255"
    return "parse;%s" % e


def signature(prop, kind, scenario, detail):
    try:
        if kind == "replay" and isinstance(scenario, dict) and "res" in scenario:
            return _name_case(scenario, detail)
        if kind == "replay" and isinstance(scenario, dict) and "wires" in scenario:
            return "edns;%s" % _slug(detail.get("what", ""))
        if kind == "trace" and isinstance(scenario, dict):
            lines = scenario.get("lines") or []
            if not lines:
                return None
            first = lines[0].get("e")
            if first == "pack":
                return _c36_names(lines[-1])
            if first == "msg":
                return _c36_msg(lines)
            if first == "input":
                return _c37(lines)
    except Exception:
        return None
    return None
