------------------------------ MODULE TraceC36 ------------------------------
(* C36 trace validation.  One trace = one well-formed message m built by the seeded      *)
(* generator of the driver (every supported type, label lengths 1/62/63, names of        *)
(* 253/254/255 wire bytes, shared suffixes, nested suffix chains, odd bytes):            *)
(*   {"e":"msg","hdr":..,"recs":[..],"names":[..]}              projection of m (header) *)
(*   {"e":"pack","ok":b,"n":len,"lens":[..]}                     m.Pack / AppendPack      *)
(*   {"e":"build","k":"build0"|"build1","ok":b,"n":len}          Builder, compression off/on *)
(*   {"e":"unpack","of":"pack"|"build0"|"build1","ok":b,hdr,recs,names,lens}              *)
(*   {"e":"wire","of":..,"msg":[bytes],"offs":[..],"nl":[[label..]..]}   (small messages)  *)
(*         real bytes, where each name starts and the names (as labels) m holds there     *)
(*   {"e":"end"}                                                                         *)
(* A panic or a hang is logged as its own event, which no action matches.                *)
EXTENDS DnsMessage, DnsName, TraceIO

VARIABLES m, packed, built, unpacked, cur, l
vars == <<m, packed, built, unpacked>>
Line == Trace[l]

Kinds == {"pack", "build0", "build1"}

TInit ==
    \E t \in 1 .. NT :
       LET h == Trace[Meta.starts[t]] IN
       /\ cur = t /\ l = Meta.starts[t] + 1
       /\ h.e = "msg"
       /\ m = [hdr |-> h.hdr, recs |-> h.recs, names |-> h.names]
       /\ packed = [ok |-> FALSE, lens |-> <<>>]
       /\ built = {} /\ unpacked = {}

TPack ==
    /\ Line.e = "pack" /\ Line.ok                       \* a well-formed message packs
    /\ packed' = [ok |-> TRUE, lens |-> Line.lens]
    /\ built' = built \cup {"pack"}
    /\ UNCHANGED <<m, unpacked>>

TBuild ==
    /\ Line.e = "build" /\ Line.k \in {"build0", "build1"} /\ Line.ok
    /\ built' = built \cup {Line.k}
    /\ UNCHANGED <<m, packed, unpacked>>

TUnpack ==
    /\ Line.e = "unpack" /\ Line.of \in built
    /\ UnpacksTo(m, Line)
    /\ Line.of = "pack" => LengthsKept(packed, Line)
    /\ unpacked' = unpacked \cup {Line.of}
    /\ UNCHANGED <<m, packed, built>>

\* the grammar itself applied to the real bytes: every name decodes to the name m holds
TWire ==
    /\ Line.e = "wire" /\ Line.of \in built
    /\ Len(Line.offs) = Len(Line.nl)
    /\ \A k \in DOMAIN Line.offs :
          LET d == Decode(Line.msg, Line.offs[k]) IN d.ok /\ d.name = Line.nl[k]
    /\ UNCHANGED vars

TEnd ==
    /\ Line.e = "end" /\ unpacked = Kinds
    /\ UNCHANGED vars

TNext ==
    /\ l <= Meta.ends[cur] /\ l' = l + 1 /\ cur' = cur
    /\ (TPack \/ TBuild \/ TUnpack \/ TWire \/ TEnd)

TSpec == TInit /\ [][TNext]_<<vars, cur, l>>
Mark == HighWater(cur, l)
=============================================================================
