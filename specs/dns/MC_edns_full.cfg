INIT Init
NEXT Next
CONSTANTS
  Mode = "full"
  Tier = "thorough"
INVARIANTS Holds
CHECK_DEADLOCK FALSE
