------------------------------- MODULE MCName -------------------------------
(* Bounded domains on which TLC checks DnsName's theorems and from which the name-level *)
(* conformance cases are printed (GenName: decode cases for C37, GenPack: pack          *)
(* scenarios for C36).                                                                  *)
(*   "msg"   every byte string of length <= MaxLen over Alphabet, decoded at every offset *)
(*   "big"   structured messages at the real limits: label lengths 1/62/63/64, names of  *)
(*           253..257 wire bytes flat and with the tail behind a pointer, nested suffix   *)
(*           chains with 1..127 hops (what a suffix-compressing packer emits), pure       *)
(*           pointer chains up to 300 hops, bytes 0/255 inside labels                    *)
(*   "names" every list of <= MaxNames names of <= MaxLabels2 labels over Labels, plus   *)
(*           boundary names and nested lists (pack scenarios)                            *)
EXTENDS DnsName, TLC

CONSTANTS Alphabet, MaxLen, NLabels, MaxNames, MaxLabelsPerName, Part

Labels == IF NLabels = 0 THEN {} ELSE IF NLabels = 2 THEN {<<97>>, <<98>>} ELSE {<<97>>, <<98>>, <<97, 98>>}

VARIABLE c

Rep(x, n) == [i \in 1 .. n |-> x]
Letters(i, n) == [j \in 1 .. n |-> 97 + (i % 26)]
NameOf(ls) == [i \in 1 .. Len(ls) |-> Letters(i, ls[i])]           \* labels of the given lengths
FlatNoEnd(name) == SubSeq(Flat(name), 1, Len(Flat(name)) - 1)
Hdr == Rep(0, 12)

(* ---- structured messages ------------------------------------------------------------ *)
LimLists ==
    {Rep(63, 3) \o <<x>> : x \in {1, 59, 60, 61, 62, 63}} \cup
    {Rep(62, 4), Rep(62, 4) \o <<1>>, Rep(62, 4) \o <<2>>} \cup
    {Rep(1, n) : n \in {1, 126, 127, 128}} \cup
    {Rep(1, 125) \o <<x>> : x \in {2, 3, 4}} \cup
    {<<62>>, <<63>>, <<64>>, <<1, 63, 1>>, <<1, 64, 1>>}

\* name with labels ls; the labels after the first s sit at offset 12, the first s labels
\* follow and end in a pointer to 12 (s = 0: flat at offset 12)
LimCase(ls, s) ==
    LET name == NameOf(ls) IN
    IF s = 0 THEN [kind |-> "lim", msg |-> Hdr \o Flat(name), offs |-> <<12>>]
    ELSE LET tl == Flat(Suffix(name, s + 1)) IN
         [kind |-> "limptr", msg |-> Hdr \o tl \o FlatNoEnd(SubSeq(name, 1, s)) \o PtrBytes(12),
          offs |-> <<12 + Len(tl)>>]

Nested(k) == [j \in 1 .. k |-> [i \in 1 .. j |-> <<97 + ((j - i + 1) % 26)>>]]   \* n_j = l_j . n_(j-1)

\* k nested names packed with suffix compression (n_1 flat at 12, n_j = label + pointer to
\* n_(j-1)); decode the last one (k-1 hops), or a second copy of it (k hops).  Built directly;
\* BigAsIntended checks for small k that this is what PackedC produces.
NestedOff(j) == IF j = 1 THEN 12 ELSE 15 + 4 * (j - 2)
RECURSIVE NestedBytes(_, _, _)
NestedBytes(j, k, acc) ==
    IF j > k THEN acc
    ELSE NestedBytes(j + 1, k, acc \o <<1, 97 + (j % 26)>> \o (IF j = 1 THEN <<0>> ELSE PtrBytes(NestedOff(j - 1))))
ChainCase(k, again) ==
    LET b == NestedBytes(1, k, Hdr) IN
    IF again THEN [kind |-> "nested", msg |-> b \o PtrBytes(NestedOff(k)), offs |-> <<Len(b)>>]
    ELSE [kind |-> "nested", msg |-> b, offs |-> <<NestedOff(k)>>]

\* root at 0, then k pointers each to the one before
RECURSIVE PureBytes(_, _)
PureBytes(k, acc) == IF k = 0 THEN acc ELSE PureBytes(k - 1, acc \o PtrBytes(IF Len(acc) = 1 THEN 0 ELSE Len(acc) - 2))
PureCase(k) == [kind |-> "purechain", msg |-> PureBytes(k, <<0>>), offs |-> <<2 * k - 1>>]

OddBytes == [kind |-> "oddbytes", msg |-> Hdr \o <<3, 0, 255, 92, 2, 46, 97, 0>> \o <<3, 0, 255, 92, 0>>, offs |-> <<12, 20>>]

(* descriptors of the structured cases (the state holds the descriptor, Mat builds the bytes) *)
BigDescr ==
    {[kind |-> "lim", ls |-> ls, s |-> 0] : ls \in LimLists} \cup
    {[kind |-> "lim", ls |-> ls, s |-> 1] : ls \in {l \in LimLists : Len(l) > 1}} \cup
    {[kind |-> "lim", ls |-> ls, s |-> Len(ls) - 1] : ls \in {l \in LimLists : Len(l) > 2}} \cup
    {[kind |-> "nested", k |-> k, again |-> FALSE] : k \in {2, 3, 10, 11, 12, 13, 127}} \cup
    {[kind |-> "nested", k |-> k, again |-> TRUE] : k \in {10, 127}} \cup
    {[kind |-> "pure", k |-> k] : k \in {1, 2, 10, 128, 129, 300}} \cup
    {[kind |-> "odd"]}

(* ---- pack scenarios ----------------------------------------------------------------- *)
SmallNames == UNION {[1 .. n -> Labels] : n \in 0 .. MaxLabelsPerName}

BigLists ==
    {<<NameOf(ls)>> : ls \in LimLists} \cup
    {<<NameOf(ls), <<Letters(0, 5)>> \o NameOf(ls), Suffix(NameOf(ls), 2), NameOf(ls)>> : ls \in {l \in LimLists : Len(l) > 1 /\ Len(l) < 10}} \cup
    {Nested(k) : k \in {3, 11, 12, 13}} \cup
    {Append(Nested(k), Nested(k)[k]) : k \in (IF NLabels = 3 THEN {10, 11, 127} ELSE {10, 11, 40})} \cup
    {<<<<<<0>>, <<255, 92>>, <<97>>>>, <<<<92>>, <<97>>>>, <<<<0>>, <<255, 92>>, <<97>>>>>>}

(* ---- the enumeration: byte strings and name lists grow by one element per step ------- *)
Init ==
    \/ Part \in {"decode", "all"} /\ (c = [kind |-> "msg", msg |-> <<>>] \/ c \in BigDescr)
    \/ Part \in {"pack", "all"} /\ (c \in {[kind |-> "names", names |-> <<>>, pre |-> p, big |-> FALSE] : p \in {0, 12}}
                                    \/ c \in {[kind |-> "names", names |-> ns, pre |-> 12, big |-> TRUE] : ns \in BigLists})

Next ==
    \/ c.kind = "msg" /\ Len(c.msg) < MaxLen /\ \E a \in Alphabet : c' = [c EXCEPT !.msg = Append(@, a)]
    \/ c.kind = "names" /\ ~c.big /\ Len(c.names) < MaxNames
          /\ \E n \in SmallNames : c' = [c EXCEPT !.names = Append(@, n)]

\* the concrete case of a descriptor: [kind, msg, offs]
Mat(d) ==
    CASE d.kind = "msg" -> [kind |-> "msg", msg |-> d.msg, offs |-> [i \in 1 .. Len(d.msg) + 1 |-> i - 1]]
      [] d.kind = "lim" -> LimCase(d.ls, d.s)
      [] d.kind = "nested" -> ChainCase(d.k, d.again)
      [] d.kind = "pure" -> PureCase(d.k)
      [] d.kind = "odd" -> OddBytes

(* ---- theorems ----------------------------------------------------------------------- *)
DecodeOK(m) == \A i \in DOMAIN m.offs : DecodeSound(m.msg, m.offs[i])

\* the structured cases are what their names say
BigAsIntended(m) ==
    /\ m.kind = "nested" => /\ Decode(m.msg, m.offs[1]).ok /\ Decode(m.msg, m.offs[1]).hops <= HopFloor
                            /\ c.k <= 13 => m.msg = PackedC(Hdr, IF c.again THEN Append(Nested(c.k), Nested(c.k)[c.k])
                                                                            ELSE Nested(c.k)).msg
    /\ m.kind = "purechain" => Decode(m.msg, m.offs[1]).ok /\ Decode(m.msg, m.offs[1]).hops = (m.offs[1] + 1) \div 2
    /\ m.kind \in {"lim", "limptr"} =>
          Decode(m.msg, m.offs[1]).ok = (64 \notin Range(m.msg) /\ Len(m.msg) <= 12 + MaxWire + (IF m.kind = "lim" THEN 0 ELSE 2))

AllWF(names) == \A k \in DOMAIN names : WellFormed(names[k])

RECURSIVE TotalLabels(_)
TotalLabels(names) == IF names = <<>> THEN 0 ELSE Len(Head(names)) + TotalLabels(Tail(names))
\* (the specification's own table-based packer is quadratic; its round trip is checked on the
\* lists with at most 100 labels, which includes nested chains up to 13 and the 63/255 limits)
PackOK == (c.kind = "names" /\ AllWF(c.names) /\ TotalLabels(c.names) <= 100) => RoundTrip(Rep(0, c.pre), c.names)

DecodeTheorems == c.kind # "names" => LET m == Mat(c) IN DecodeOK(m) /\ BigAsIntended(m)
=============================================================================
