INIT Init
NEXT Next
CONSTANTS
  Mode = "byx"
  Tier = "thorough"
INVARIANTS Emit
CHECK_DEADLOCK FALSE
