INIT Init
NEXT Next
CONSTANTS
  Alphabet = {}
  MaxLen = 0
  NLabels = 3
  MaxNames = 3
  MaxLabelsPerName = 2
  Part = "pack"
INVARIANTS Check
CHECK_DEADLOCK FALSE
