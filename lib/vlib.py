# vlib: orchestration library for /verif (python3, stdlib only).
#
# A "family" lives in specs/<family>/ with a family.json descriptor (see FRAMEWORK.md).
# A check of one property runs the stages listed for the requested tier:
#   model            TLC exhaustive on the design spec (design-level sanity; exit 2 on error)
#   gen_replay       TLC generates behaviours / cases with predicted outputs -> Go driver
#                    replays them on the real code and reports mismatches          (spec -> code)
#   record_validate  Go driver records traces from the real code -> TLC validates
#                    them against the trace spec                                   (code -> spec)
# Exit codes: 0 held, 1 violation (VIOLATION line printed), 2 machinery failure.

import hashlib
import json
import os
import re
import shutil
import subprocess
import sys
import tempfile
import time

VERIF = os.path.dirname(os.path.dirname(os.path.abspath(__file__)))
REPO = os.environ.get("VERIF_REPO", "/repo")
SPECS = os.path.join(VERIF, "specs")
SCRATCH_ROOT = os.environ.get("VERIF_SCRATCH", "/tmp/verif-scratch")
TLA_CP = "/opt/veriftools/tla/tla2tools.jar:/opt/veriftools/tla/CommunityModules-deps.jar"


class Infra(Exception):
    """The machinery failed (never a verdict about golang/net)."""


class RealCodeCrash(Exception):
    """The test binary died with a panic / fatal error whose stack goes through non-test code of
    golang.org/x/net: the code under test crashed the driver process."""

    def __init__(self, summary, output):
        Exception.__init__(self, summary)
        self.summary, self.output = summary, output


def crash_in_real_code(out):
    """Return a one-line summary if out shows a panic/fatal error with an x/net non-test frame
    in the first (crashing) goroutine's stack, else None."""
    m = re.search(r"^(panic: .*|fatal error: .*)$", out, re.M)
    if not m:
        return None
    tail = out[m.start():]
    block = tail.split("\n\n", 2)
    stack = "\n\n".join(block[:2])
    frames = re.findall(r"^\s+(\S*golang\.org/x/net\S*?|/\S+?)/([\w.-]+\.go):(\d+)", stack, re.M)
    real = [f for f in re.findall(r"^\s+(\S+\.go):(\d+)", stack, re.M)
            if not f[0].endswith("_test.go") and ("/x/net" in f[0] or f[0].startswith(REPO + "/") or "/seed-" in f[0] or "/wt-" in f[0])
            and "/drivers/" not in f[0]]
    if not real:
        return None
    return "%s  at %s:%s" % (m.group(1)[:200], real[0][0], real[0][1])


def log(*a):
    print(*a, flush=True)


def sha(s, n=12):
    if not isinstance(s, (bytes, bytearray)):
        s = json.dumps(s, sort_keys=True, separators=(",", ":")).encode()
    return hashlib.sha1(s).hexdigest()[:n]


# --------------------------------------------------------------------------- scratch

class Scratch:
    def __init__(self, name):
        os.makedirs(SCRATCH_ROOT, exist_ok=True)
        # a run that was killed (timeout of the caller, lost shell) cannot clean up after itself:
        # remove scratch directories that nobody has touched for a long time
        try:
            now = time.time()
            for e in os.listdir(SCRATCH_ROOT):
                q = os.path.join(SCRATCH_ROOT, e)
                if now - os.path.getmtime(q) > 6 * 3600:
                    shutil.rmtree(q, ignore_errors=True)
        except OSError:
            pass
        self.dir = tempfile.mkdtemp(prefix=name + "-", dir=SCRATCH_ROOT)

    def sub(self, name):
        p = os.path.join(self.dir, name)
        os.makedirs(p, exist_ok=True)
        return p

    def cleanup(self):
        if os.environ.get("VERIF_KEEP"):
            log("scratch kept:", self.dir)
            return
        shutil.rmtree(self.dir, ignore_errors=True)


# --------------------------------------------------------------------------- TLC

class TlcResult:
    def __init__(self):
        self.out = ""
        self.rc = None
        self.generated = 0
        self.distinct = 0
        self.depth = 0
        self.errors = []          # "Error:" lines that are not invariant violations
        self.violations = []      # [{"inv": name, "states": [ {var: text} ... ]}]
        self.prints = []          # parsed PrintT tuples: [tag, payload...]
        self.timed_out = False
        self.wall = 0.0
        self.cmd = ""
        self.coverage_zero = []   # actions / expressions never taken with -coverage

    def ok(self):
        return not self.errors and not self.violations and not self.timed_out


_TUPLE_RE = re.compile(r'^<<"([A-Z_]+)", (.*)>>$')


def _parse_print(line):
    """Parse a PrintT(<<"TAG", x, y...>>) line. Strings are TLA+ literals (JSON-compatible
    escapes); integers parse as ints. Returns [tag, items...] or None."""
    m = _TUPLE_RE.match(line)
    if not m:
        return None
    tag, rest = m.group(1), m.group(2)
    items = []
    i = 0
    n = len(rest)
    while i < n:
        if rest[i] in ", ":
            i += 1
            continue
        if rest[i] == '"':
            j = i + 1
            while j < n:
                if rest[j] == "\\":
                    j += 2
                    continue
                if rest[j] == '"':
                    break
                j += 1
            lit = rest[i:j + 1]
            try:
                items.append(json.loads(lit))
            except Exception:
                items.append(lit[1:-1])
            i = j + 1
        else:
            j = i
            depth = 0
            while j < n and (depth > 0 or rest[j] != ","):
                if rest[j] in "<{[(":
                    depth += 1
                elif rest[j] in ">}])":
                    depth -= 1
                j += 1
            tok = rest[i:j].strip()
            try:
                items.append(int(tok))
            except ValueError:
                items.append(tok)
            i = j
    return [tag] + items


def copy_specs(family, dst):
    """Copy specs/common and specs/<family> flat into dst (TLC resolves modules by cwd)."""
    for d in (os.path.join(SPECS, "common"), os.path.join(SPECS, family)):
        if not os.path.isdir(d):
            continue
        for f in os.listdir(d):
            p = os.path.join(d, f)
            if os.path.isfile(p) and (f.endswith(".tla") or f.endswith(".cfg") or f.endswith(".json")):
                shutil.copy(p, os.path.join(dst, f))


def run_tlc(workdir, spec, cfg, workers=4, timeout=600, mode=None, extra=None, heap_gb=4,
            coverage=False, cont=False, deque=False, seed=None, xss=None):
    """Run TLC in workdir (which already holds the spec files). mode: None (BFS) or
    ("simulate", num, depth)."""
    r = TlcResult()
    meta = tempfile.mkdtemp(prefix="md-", dir=workdir)
    # TLC unpacks its standard modules into java.io.tmpdir on every run and never removes them:
    # keep that inside the scratch directory, which is deleted with the run.
    jtmp = os.path.join(meta, "jtmp")
    os.makedirs(jtmp, exist_ok=True)
    java = ["java", "-XX:+UseParallelGC", "-Xmx%dg" % heap_gb, "-Djava.io.tmpdir=" + jtmp]
    if xss:
        java.append("-Xss" + xss)
    if deque:
        java.append("-Dtlc2.tool.queue.IStateQueue=StateDeque")
    cmd = java + ["-cp", TLA_CP, "tlc2.TLC", "-workers", str(workers), "-metadir", meta,
                  "-config", cfg, "-noGenerateSpecTE"]
    if cont:
        cmd.append("-continue")
    if coverage:
        cmd += ["-coverage", "1"]
    if mode and mode[0] == "simulate":
        cmd += ["-simulate", "num=%d" % mode[1], "-depth", str(mode[2])]
        if seed is not None:
            cmd += ["-seed", str(seed)]
    elif seed is not None:
        cmd += ["-seed", str(seed)]
    if extra:
        cmd += list(extra)
    cmd.append(spec)
    r.cmd = "tlc " + " ".join(cmd[cmd.index("-workers"):]).replace(meta, "<metadir>")
    t0 = time.time()
    try:
        p = subprocess.run(cmd, cwd=workdir, stdout=subprocess.PIPE, stderr=subprocess.STDOUT,
                           timeout=timeout, text=True, errors="replace")
        r.out, r.rc = p.stdout, p.returncode
    except subprocess.TimeoutExpired as e:
        r.timed_out = True
        o = e.stdout or ""
        r.out = o if isinstance(o, str) else o.decode("utf-8", "replace")
        subprocess.run(["pkill", "-f", meta], check=False)
    r.wall = time.time() - t0
    shutil.rmtree(meta, ignore_errors=True)
    _parse_tlc_output(r)
    return r


_STATE_HDR = re.compile(r"^State (\d+): (.*)$")


def _parse_tlc_output(r):
    lines = r.out.splitlines()
    i = 0
    cur_violation = None
    cur_state = None
    while i < len(lines):
        ln = lines[i]
        if ln.startswith("<<\""):
            t = _parse_print(ln)
            if t:
                r.prints.append(t)
        m = re.match(r"^(\d+) states generated, (\d+) distinct states found", ln)
        if m:
            r.generated, r.distinct = int(m.group(1)), int(m.group(2))
        m = re.match(r"^The depth of the complete state graph search is (\d+)", ln)
        if m:
            r.depth = int(m.group(1))
        m = re.match(r"^Error: Invariant (\S+) is violated", ln)
        m2 = re.match(r"^Error: Action property (\S+) is violated", ln)
        if m or m2:
            cur_violation = {"inv": (m or m2).group(1), "states": []}
            r.violations.append(cur_violation)
            cur_state = None
        elif ln.startswith("Error: The behavior up to this point is") or ln.startswith("Error: The following behavior"):
            if cur_violation is None:
                cur_violation = {"inv": "?", "states": []}
                r.violations.append(cur_violation)
        elif ln.startswith("Error:"):
            # evaluation errors, deadlock, temporal violations, parse errors ...
            txt = ln
            j = i + 1
            while j < len(lines) and j < i + 12 and not lines[j].startswith("Error:") and not _STATE_HDR.match(lines[j]):
                txt += "\n" + lines[j]
                j += 1
            if "Temporal properties were violated" in ln or "Deadlock reached" in ln:
                cur_violation = {"inv": ln[7:].strip(), "states": []}
                r.violations.append(cur_violation)
            else:
                r.errors.append(txt)
                cur_violation = None
        else:
            ms = _STATE_HDR.match(ln)
            if ms and cur_violation is not None:
                cur_state = {"_n": int(ms.group(1)), "_action": ms.group(2)}
                cur_violation["states"].append(cur_state)
            elif cur_state is not None and (ln.startswith("/\\ ") or ln.startswith("  ") or ln.startswith("\t")):
                mv = re.match(r"^/\\ (\w+) = (.*)$", ln)
                if mv:
                    cur_state[mv.group(1)] = mv.group(2)
                    cur_state["_last"] = mv.group(1)
                elif "_last" in cur_state:
                    cur_state[cur_state["_last"]] += " " + ln.strip()
            elif ln.strip() == "":
                pass
            elif cur_state is not None and not ln.startswith("/\\"):
                cur_state = None
        mz = re.match(r"^<(\w+) line (\d+), col .* of module (\w+)>: 0:0", ln)
        if mz:
            r.coverage_zero.append("%s@%s:%s" % (mz.group(1), mz.group(3), mz.group(2)))
        i += 1
    if r.rc not in (0, None) and not r.violations and not r.errors:
        # rc 12 = safety violation, 13 liveness ... keep generic
        if r.rc not in (12, 13):
            r.errors.append("TLC exited with status %s" % r.rc)
    if r.generated == 0 and not r.timed_out:
        m = re.search(r"(\d+) states generated", r.out)
        if m:
            r.generated = int(m.group(1))


def sany(workdir, spec, timeout=120):
    jtmp = os.path.join(workdir, ".jtmp")
    os.makedirs(jtmp, exist_ok=True)
    p = subprocess.run(["java", "-Djava.io.tmpdir=" + jtmp, "-cp", TLA_CP, "tla2sany.SANY", spec], cwd=workdir,
                       stdout=subprocess.PIPE, stderr=subprocess.STDOUT, text=True, timeout=timeout)
    bad = p.returncode != 0 or "*** Errors" in p.stdout or "Fatal errors" in p.stdout or "Could not parse" in p.stdout
    return (not bad), p.stdout


# --------------------------------------------------------------------------- Go driver

def go_env():
    env = dict(os.environ)
    env["GOFLAGS"] = "-mod=mod"
    env["GOPROXY"] = "off"
    env.pop("GOSUMDB", None)          # GOSUMDB=off breaks the offline toolchain switch
    env.pop("GOTOOLCHAIN", None)      # go.mod's go1.25.0 toolchain is selected automatically
    env.setdefault("GOCACHE", os.path.expanduser("~/.cache/go-build"))
    return env


COMMON_TMPL = os.path.join(VERIF, "drivers", "common", "zz_verif_common_test.go.tmpl")


def _pkg_of(path):
    with open(path) as f:
        for ln in f:
            m = re.match(r"^package\s+(\w+)", ln)
            if m:
                return m.group(1)
    raise Infra("no package clause in " + path)


def build_overlay(fam, scratch_dir):
    """Overlay that adds the family's driver files (and one generated common helper per
    package clause) to /repo/<go_package>/. Nothing under /repo is written."""
    pkgdir = os.path.join(REPO, fam["go_package"])
    if not os.path.isdir(pkgdir):
        raise Infra("package dir missing: " + pkgdir)
    replace = {}
    pkgs = set()
    for rel in fam["drivers"]:
        src = os.path.join(VERIF, rel)
        if not os.path.isfile(src):
            raise Infra("driver file missing: " + src)
        replace[os.path.join(pkgdir, os.path.basename(src))] = src
        pkgs.add(_pkg_of(src))
    tmpl = open(COMMON_TMPL).read()
    for p in sorted(pkgs):
        gen = os.path.join(scratch_dir, "zz_verif_common_%s_test.go" % p)
        with open(gen, "w") as f:
            f.write(tmpl.replace("PKGNAME", p))
        replace[os.path.join(pkgdir, os.path.basename(gen))] = gen
    ov = os.path.join(scratch_dir, "overlay.json")
    with open(ov, "w") as f:
        json.dump({"Replace": replace}, f)
    return ov


def run_driver(fam, scratch_dir, mode, args, seed, tier, infile=None, timeout=900, test=None):
    """go test -overlay ... -run <Test> in /repo/<pkg>. Returns (result dict, outdir)."""
    outdir = tempfile.mkdtemp(prefix="drv-", dir=scratch_dir)
    ov = build_overlay(fam, scratch_dir)
    env = go_env()
    env.update({
        "VERIF_MODE": mode,
        "VERIF_OUT": outdir,
        "VERIF_SEED": str(seed),
        "VERIF_TIER": tier,
        "VERIF_ARGS": json.dumps(args or {}),
        "VERIF_IN": infile or "",
    })
    tname = test or fam["go_test"]
    cmd = ["go", "test", "-vet=off", "-count=1", "-overlay=" + ov, "-run", "^%s$" % tname,
           "-timeout", "%ds" % max(60, timeout - 10), "."]
    if fam.get("go_tags"):
        cmd[2:2] = ["-tags", fam["go_tags"]]
    t0 = time.time()
    try:
        p = subprocess.run(cmd, cwd=os.path.join(REPO, fam["go_package"]), env=env,
                           stdout=subprocess.PIPE, stderr=subprocess.STDOUT, text=True,
                           errors="replace", timeout=timeout)
    except subprocess.TimeoutExpired as e:
        o = e.stdout or ""
        raise Infra("go driver timed out after %ds: %s" % (timeout, (o if isinstance(o, str) else o.decode())[-2000:]))
    wall = time.time() - t0
    resf = os.path.join(outdir, "result.json")
    if not os.path.isfile(resf):
        crash = crash_in_real_code(p.stdout)
        if crash:
            raise RealCodeCrash(crash, p.stdout[-6000:])
        raise Infra("go driver produced no result.json (rc=%s):\n%s" % (p.returncode, p.stdout[-4000:]))
    res = json.load(open(resf))
    res["_wall"] = wall
    res["_rc"] = p.returncode
    res["_stdout_tail"] = p.stdout[-2000:]
    if p.returncode != 0 and not res.get("completed"):
        raise Infra("go driver failed (rc=%s):\n%s" % (p.returncode, p.stdout[-4000:]))
    return res, outdir


# --------------------------------------------------------------------------- known findings

def load_known():
    """KNOWN_FINDINGS.jsonl plus specs/<family>/known_findings.jsonl (same format)."""
    import glob
    out = []
    for path in [os.path.join(VERIF, "KNOWN_FINDINGS.jsonl")] + sorted(glob.glob(os.path.join(SPECS, "*", "known_findings.jsonl"))):
        if os.path.isfile(path):
            for ln in open(path):
                ln = ln.strip()
                if ln and not ln.startswith("#"):
                    out.append(json.loads(ln))
    return out


def match_known(known, prop, signature):
    for k in known:
        if k.get("property") == prop and k.get("status") == "known" and k.get("signature") == signature:
            return k
    return None


# --------------------------------------------------------------------------- evidence

def write_evidence(prop, tier, seed, level, coverage, wall, violations, assumptions):
    # Xnn = specification coverage beyond the 61 listed properties (not in MANIFEST.json)
    d = os.path.join(VERIF, "evidence-extra" if prop.startswith("X") else "evidence")
    if os.path.realpath(REPO) != "/repo":
        # a run against a scratch worktree (mutation / seeded change) must not overwrite the evidence
        # of /repo itself
        d = os.path.join(tempfile.gettempdir(), "verif-evidence-" + os.path.basename(os.path.realpath(REPO)))
    os.makedirs(d, exist_ok=True)
    ev = {
        "property_id": prop, "tier": tier, "seed": int(seed), "level": level,
        "coverage": coverage, "assumptions": assumptions, "wall_s": round(wall, 2),
        "violations": violations,
    }
    tmp = os.path.join(d, ".%s.json.tmp" % prop)
    with open(tmp, "w") as f:
        json.dump(ev, f, indent=1, sort_keys=True)
        f.write("\n")
    os.replace(tmp, os.path.join(d, "%s.json" % prop))
