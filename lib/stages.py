# Stage runners used by bin/vcheck. See FRAMEWORK.md for the family.json contract.

import importlib.util
import json
import os
import shutil
import time

import vlib
from vlib import Infra, log, sha


def _fam_for(ctx, st):
    """A stage may run its driver in another Go package (keys go_package / drivers / go_tags)."""
    fam = dict(ctx.fam)
    for k in ("go_package", "drivers", "go_tags"):
        if k in st:
            fam[k] = st[k]
    return fam


def _rm(path):
    if not os.environ.get("VERIF_KEEP"):
        shutil.rmtree(path, ignore_errors=True)



def _to(ctx, st, key, default):
    """Stage timeouts are safety nets against runaway tools, not verdicts: a loaded machine
    (other checks running on the same cores) must not turn a slow run into an infra failure.
    Hangs of the code under test are detected inside the drivers (watchdogs emit `hang` events)."""
    floor = int(os.environ.get("VERIF_TIMEOUT_FLOOR") or (1500 if ctx.tier == "quick" else 3600))
    return max(int(st.get(key, default)), floor)

class Ctx:
    def __init__(self, fam, prop, tier, seed, scratch):
        self.fam, self.prop, self.tier, self.seed, self.scratch = fam, prop, tier, seed, scratch
        self.states = 0
        self.transitions = 0
        self.traces = 0            # traces validated against impl + behaviours replayed on impl
        self.evaluations = 0
        self.distinct = set()
        self.samples = []
        self.cmds = []
        self.exhaustive = []       # per stage flag
        self.found = []            # violations: dict(signature, what, replay)
        self.notes = []
        self.extra = {}
        self.hooks = load_hooks(fam)

    def add_sample(self, s):
        if len(self.samples) < 3:
            self.samples.append(s)


def load_hooks(fam):
    p = os.path.join(vlib.SPECS, fam["family"], "family.py")
    if not os.path.isfile(p):
        return None
    spec = importlib.util.spec_from_file_location("family_" + fam["family"], p)
    m = importlib.util.module_from_spec(spec)
    spec.loader.exec_module(m)
    return m


def signature(ctx, kind, scenario, detail):
    if ctx.hooks and hasattr(ctx.hooks, "signature"):
        s = ctx.hooks.signature(ctx.prop, kind, scenario, detail)
        if s:
            return s
    return "%s:%s" % (kind, sha(scenario))


def record_violation(ctx, kind, scenario, detail, stage):
    sig = signature(ctx, kind, scenario, detail)
    os.makedirs(os.path.join(vlib.VERIF, "replays"), exist_ok=True)
    path = os.path.join(vlib.VERIF, "replays", "%s-%s-%s.json" % (ctx.prop, ctx.seed, sha([sig, scenario], 10)))
    with open(path, "w") as f:
        json.dump({"property": ctx.prop, "family": ctx.fam["family"], "kind": kind, "seed": ctx.seed,
                   "tier": ctx.tier, "stage": stage, "signature": sig, "detail": detail,
                   "scenario": scenario}, f, indent=1)
        f.write("\n")
    ctx.found.append({"signature": sig, "what": detail.get("what", ""), "replay": path})


# --------------------------------------------------------------------------- model

def stage_model(ctx, st):
    wd = ctx.scratch.sub("model-" + st["cfg"].replace(".cfg", ""))
    vlib.copy_specs(ctx.fam["family"], wd)
    r = vlib.run_tlc(wd, st["spec"], st["cfg"], workers=st.get("workers", 4),
                     timeout=_to(ctx, st, "timeout", 600), heap_gb=st.get("heap_gb", 4),
                     coverage=st.get("coverage", False), xss=st.get("xss"))
    log("[model] %s/%s: %d generated, %d distinct, depth %d, %.1fs" %
        (st["spec"], st["cfg"], r.generated, r.distinct, r.depth, r.wall))
    ctx.cmds.append(r.cmd)
    if r.timed_out:
        raise Infra("TLC timed out on %s/%s" % (st["spec"], st["cfg"]))
    if r.errors or r.violations:
        tail = "\n".join(r.out.splitlines()[-60:])
        raise Infra("design spec %s/%s does not satisfy its own properties (spec-level "
                    "counterexample; never reported as a violation of golang/net):\n%s"
                    % (st["spec"], st["cfg"], tail))
    if r.distinct == 0:
        raise Infra("TLC reported no states for %s/%s:\n%s" % (st["spec"], st["cfg"], r.out[-2000:]))
    ctx.states += r.distinct
    ctx.transitions += r.generated
    if r.coverage_zero:
        ctx.notes.append("vacuity warning (never taken): " + ", ".join(r.coverage_zero[:8]))
    _rm(wd)


# --------------------------------------------------------------------------- gen -> replay

def generate(ctx, st):
    """Run the generator spec and return the list of distinct behaviours/cases."""
    wd = ctx.scratch.sub("gen-" + st["gen_cfg"].replace(".cfg", ""))
    vlib.copy_specs(ctx.fam["family"], wd)
    mode = None
    if st.get("gen_mode", "bfs") == "simulate":
        mode = ("simulate", st.get("num", 200), st.get("depth", 30))
    r = vlib.run_tlc(wd, st["gen_spec"], st["gen_cfg"], workers=st.get("gen_workers", 1 if mode else 4),
                     timeout=_to(ctx, st, "gen_timeout", 600), mode=mode, seed=ctx.seed if mode else None,
                     heap_gb=st.get("heap_gb", 4), xss=st.get("xss"))
    ctx.cmds.append(r.cmd)
    if r.timed_out and not mode:
        raise Infra("generator TLC timed out: %s/%s" % (st["gen_spec"], st["gen_cfg"]))
    if r.errors or r.violations:
        raise Infra("generator spec failed: %s/%s\n%s" % (st["gen_spec"], st["gen_cfg"],
                                                          "\n".join(r.out.splitlines()[-50:])))
    tags = set(st.get("tags", ["BEH", "CASE"]))
    seen = set()
    items = []
    for p in r.prints:
        if p[0] not in tags or len(p) < 2:
            continue
        try:
            v = json.loads(p[1]) if isinstance(p[1], str) else p[1]
        except Exception as e:
            raise Infra("cannot parse generator output: %r (%s)" % (p[1][:200], e))
        h = sha(v, 16)
        if h in seen:
            continue
        seen.add(h)
        items.append(v)
    mx = st.get("max_items")
    if mx and len(items) > mx:
        # deterministic thinning that depends on the seed
        import random
        rnd = random.Random(ctx.seed)
        rnd.shuffle(items)
        items = items[:mx]
    log("[gen] %s/%s: %d distinct items (%d printed), %d states, %.1fs" %
        (st["gen_spec"], st["gen_cfg"], len(items), len(r.prints), r.distinct, r.wall))
    if not items:
        raise Infra("generator produced nothing: %s/%s\n%s" % (st["gen_spec"], st["gen_cfg"], r.out[-3000:]))
    if not mode:
        ctx.states += r.distinct
        ctx.transitions += r.generated
    _rm(wd)
    return items, (not mode)


def stage_gen_replay(ctx, st, only=None):
    if only is not None:
        items, exhaustive = [only], False
    else:
        items, exhaustive = generate(ctx, st)
    infile = os.path.join(ctx.scratch.dir, "items-%s.ndjson" % sha(st, 8))
    with open(infile, "w") as f:
        for i, v in enumerate(items):
            f.write(json.dumps({"b": i, "v": v}, separators=(",", ":")) + "\n")
    res, outdir = vlib.run_driver(_fam_for(ctx, st), ctx.scratch.dir, st.get("driver_mode", "replay"),
                                  st.get("driver_args"), ctx.seed, ctx.tier, infile=infile,
                                  timeout=_to(ctx, st, "driver_timeout", 420), test=st.get("go_test"))
    n = res.get("replayed", 0)
    log("[replay] %d items replayed on the real code, %d steps compared, %d mismatches, %.1fs" %
        (n, res.get("steps", 0), len(res.get("mismatches") or []), res["_wall"]))
    if n < len(items) and not (res.get("mismatches") or []):
        raise Infra("driver replayed %d of %d items" % (n, len(items)))
    ctx.traces += n
    ctx.evaluations += res.get("steps", n)
    minsteps = st.get("min_steps", 3)
    for v in items:
        if not isinstance(v, list) or len(v) >= minsteps:
            ctx.distinct.add(sha(v, 16))
    for v in items[:2]:
        ctx.add_sample({"stage": "gen_replay", "item": v})
    ctx.exhaustive.append(exhaustive)
    seen_sig = set()
    for mm in (res.get("mismatches") or []):
        scn = items[mm["b"]] if 0 <= mm.get("b", -1) < len(items) else None
        detail = {"what": mm.get("what", "replay mismatch"), "step": mm.get("step"),
                  "expected": mm.get("expected"), "actual": mm.get("actual")}
        sig = signature(ctx, "replay", scn, detail)
        if sig in seen_sig:
            continue
        seen_sig.add(sig)
        record_violation(ctx, "replay", scn, detail, st)
    _rm(outdir)


# --------------------------------------------------------------------------- record -> validate

def _strip(line):
    return {k: v for k, v in line.items() if k not in ("t", "i")}


def validate_traces(ctx, st, lines):
    """lines: list of dict events with 't'. Returns list of (t, fail_index, why)."""
    # group
    order = []
    groups = {}
    for ln in lines:
        t = ln["t"]
        if t not in groups:
            groups[t] = []
            order.append(t)
        groups[t].append(ln)
    wd = ctx.scratch.sub("trace-" + st["trace_cfg"].replace(".cfg", ""))
    vlib.copy_specs(ctx.fam["family"], wd)
    starts, ends, flat = [], [], []
    pos = 2
    for t in order:
        starts.append(pos)
        pos += len(groups[t])
        ends.append(pos - 1)
        flat.extend(groups[t])
    with open(os.path.join(wd, "trace.ndjson"), "w") as f:
        f.write(json.dumps({"e": "meta", "starts": starts, "ends": ends}) + "\n")
        for ln in flat:
            f.write(json.dumps(ln, separators=(",", ":")) + "\n")
    r = vlib.run_tlc(wd, st["trace_spec"], st["trace_cfg"], workers=1, timeout=_to(ctx, st, "timeout", 900),
                     cont=True, heap_gb=st.get("heap_gb", 4), deque=st.get("deque", False), xss=st.get("xss"))
    ctx.cmds.append(r.cmd)
    if r.timed_out:
        raise Infra("trace validation timed out (%s)" % st["trace_cfg"])
    if r.errors:
        raise Infra("trace validation failed to run (%s):\n%s" % (st["trace_cfg"], "\n".join(r.errors[:3]) + "\n" + r.out[-1500:]))
    if "Model checking completed" not in r.out and not r.violations:
        raise Infra("trace validation did not complete:\n" + r.out[-2000:])
    ok_marker = any(p[0] == "VALIDATED" for p in r.prints)
    fails = {}
    for p in r.prints:
        if p[0] == "UNMATCHED":
            ti, hw = int(p[1]), int(p[2])
            t = order[ti - 1]
            idx = hw - starts[ti - 1]
            fails.setdefault(t, (idx, "no spec step matches trace line %d: %s" %
                                 (idx, json.dumps(groups[t][idx]) if idx < len(groups[t]) else "<end>")))
    for v in r.violations:
        if not v["states"]:
            raise Infra("invariant %s violated without a trace:\n%s" % (v["inv"], r.out[-1500:]))
        last = v["states"][-1]
        try:
            ti, l = int(last["cur"]), int(last["l"])
        except Exception:
            raise Infra("cannot locate violating trace: %r" % last)
        t = order[ti - 1]
        idx = l - 1 - starts[ti - 1]
        prev = fails.get(t)
        why = "invariant %s violated after trace line %d: %s" % (
            v["inv"], idx, json.dumps(groups[t][idx]) if 0 <= idx < len(groups[t]) else "?")
        extra = {k: val for k, val in last.items() if not k.startswith("_") and k in st.get("show_vars", [])}
        if extra:
            why += " state=" + json.dumps(extra)
        if prev is None or idx <= prev[0]:
            fails[t] = (idx, why)
    if not ok_marker and not fails:
        raise Infra("trace spec did not report VALIDATED or UNMATCHED (postcondition missing?):\n" + r.out[-2000:])
    log("[validate] %s: %d traces / %d events through TLC (%d states), %d rejected, %.1fs" %
        (st["trace_cfg"], len(order), len(flat), r.distinct, len(fails), r.wall))
    ctx.states += 0
    _rm(wd)
    return groups, order, fails, r


def stage_record_validate(ctx, st, only=None):
    args = dict(st.get("driver_args") or {})
    if only is not None:
        args["only"] = only
    infile = None
    if st.get("gen_spec"):
        # scenarios come from TLC (spec -> code), the verdict from TLC again (code -> spec)
        items, _ = generate(ctx, st)
        infile = os.path.join(ctx.scratch.dir, "items-%s.ndjson" % sha(st, 8))
        with open(infile, "w") as f:
            for i, v in enumerate(items):
                f.write(json.dumps({"b": i, "v": v}, separators=(",", ":")) + "\n")
        ctx.add_sample({"stage": "tlc_generated_scenario", "item": items[0]})
    res, outdir = vlib.run_driver(_fam_for(ctx, st), ctx.scratch.dir, st.get("driver_mode", "record"), args,
                                  ctx.seed, ctx.tier, infile=infile, timeout=_to(ctx, st, "driver_timeout", 420),
                                  test=st.get("go_test"))
    tf = os.path.join(outdir, "trace.ndjson")
    if not os.path.isfile(tf):
        raise Infra("driver wrote no trace.ndjson")
    lines = [json.loads(x) for x in open(tf) if x.strip()]
    if not lines:
        raise Infra("driver recorded an empty trace")
    log("[record] %d traces, %d events recorded from the real code, %.1fs" %
        (res.get("traces", 0), len(lines), res["_wall"]))
    groups, order, fails, r = validate_traces(ctx, st, lines)
    ctx.traces += len(order)
    ctx.evaluations += len(lines)
    ctx.trace_states = getattr(ctx, "trace_states", 0) + r.distinct
    minev = st.get("min_events", 4)
    for t in order:
        g = groups[t]
        if len(g) >= minev:
            ctx.distinct.add(sha([_strip(x) for x in g], 16))
    for t in order[:1]:
        ctx.add_sample({"stage": "record_validate", "trace": [_strip(x) for x in groups[t][:40]]})
    ctx.exhaustive.append(False)
    seen_sig = set()
    for t, (idx, why) in sorted(fails.items()):
        scn = {"t": t, "lines": [_strip(x) for x in groups[t][:idx + 1]]}
        detail = {"what": why, "fail_index": idx}
        sig = signature(ctx, "trace", scn, detail)
        if sig in seen_sig:
            continue
        seen_sig.add(sig)
        record_violation(ctx, "trace", scn, detail, st)
    _rm(outdir)


# --------------------------------------------------------------------------- apalache

def stage_apalache(ctx, st):
    """Symbolic check of an Init-only / inductive spec with Apalache (wide integers)."""
    import subprocess
    wd = ctx.scratch.sub("apa-" + st["spec"].replace(".tla", ""))
    vlib.copy_specs(ctx.fam["family"], wd)
    cmd = ["apalache-mc", "check", "--length=%d" % st.get("length", 0), "--inv=" + st["inv"],
           "--out-dir=" + os.path.join(wd, "_apalache-out")]
    if st.get("init"):
        cmd.append("--init=" + st["init"])
    if st.get("next"):
        cmd.append("--next=" + st["next"])
    if st.get("cinit"):
        cmd.append("--cinit=" + st["cinit"])
    cmd.append(st["spec"])
    t0 = time.time()
    try:
        p = subprocess.run(cmd, cwd=wd, stdout=subprocess.PIPE, stderr=subprocess.STDOUT, text=True,
                           timeout=_to(ctx, st, "timeout", 300))
    except subprocess.TimeoutExpired:
        raise Infra("apalache timed out on " + st["spec"])
    ctx.cmds.append(" ".join(cmd[:-2] + [st["spec"]]))
    ok = "The outcome is: NoError" in p.stdout
    log("[apalache] %s inv=%s: %s, %.1fs" % (st["spec"], st["inv"], "NoError" if ok else "FAILED", time.time() - t0))
    if not ok:
        raise Infra("apalache did not discharge %s/%s (spec-level):\n%s" % (st["spec"], st["inv"], p.stdout[-2500:]))
    ctx.extra["apalache_obligations"] = ctx.extra.get("apalache_obligations", 0) + 1
    _rm(wd)


def stage_custom(ctx, st):
    if not ctx.hooks or not hasattr(ctx.hooks, st["func"]):
        raise Infra("custom stage %s not found in family.py" % st["func"])
    getattr(ctx.hooks, st["func"])(ctx, st)


STAGES = {
    "model": stage_model,
    "gen_replay": stage_gen_replay,
    "record_validate": stage_record_validate,
    "apalache": stage_apalache,
    "custom": stage_custom,
}
